#!/bin/bash
# Full .vo build of the Coq development (regenerates _CoqProject from the file list). Usage: build.sh [jobs]
set -e
cd "$(dirname "$0")"
J=${1:-16}
{
  echo "-Q theories Verif"
  echo "-arg -w -arg -notation-overridden,-deprecated-hint-without-locality,-deprecated-syntactic-definition"
  find theories -name '*.v' | LC_ALL=C sort
} > _CoqProject.new
if ! cmp -s _CoqProject.new _CoqProject 2>/dev/null || [ ! -f Makefile ]; then
  mv _CoqProject.new _CoqProject
  coq_makefile -f _CoqProject -o Makefile > /dev/null
else
  rm -f _CoqProject.new
fi
exec flock .build.lock timeout 3000 make -j"$J"
