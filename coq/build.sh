#!/bin/bash
# Full .vo build of the Coq development (regenerates _CoqProject from the file list). Usage: build.sh [jobs]
# The whole script runs under one lock, so that concurrent checks (different properties at the same time) cannot
# interleave the regeneration of _CoqProject/Makefile with each other's `make`.
set -e
cd "$(dirname "$0")"
J=${1:-16}
exec 9> .build.lock
flock 9
NEW=_CoqProject.new.$$
{
  echo "-Q theories Verif"
  echo "-arg -w -arg -notation-overridden,-deprecated-hint-without-locality,-deprecated-syntactic-definition"
  find theories -name '*.v' | LC_ALL=C sort
} > "$NEW"
if ! cmp -s "$NEW" _CoqProject 2>/dev/null || [ ! -f Makefile ]; then
  mv "$NEW" _CoqProject
  coq_makefile -f _CoqProject -o Makefile > /dev/null
else
  rm -f "$NEW"
fi
timeout 3000 make -j"$J"
