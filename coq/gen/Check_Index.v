(* C08 sub-obligation `index arithmetic of the CODE`: Gen_Index.v is rewritten from the Python source of the repo working
   tree on every C08 run by harness/translate_index.py (syntax-directed translation of shape_to_strides, _shape_to_key,
   select_by_mask, external/internal_shape_from_mask, MapSpec.output_key, MapSpec.input_keys into the `result` monad
   over Base/PyPrim.v); this STATIC file is compiled right after it:
     coqc -Q theories Verif -Q gen VerifGen gen/Gen_Index.v gen/Check_Index.v
   It proves, for ALL inputs (induction over the loops of whatever was generated; the loop bodies are picked up from
   the generated term with `match goal`, they are never restated here), that the generated definitions are
   extensionally equal to the hand-written ones of Base/Index.v / Model/MapSpec.v:
     gen_shape_to_strides_eq            py_shape_to_strides sh           = Ok (strides sh)
     gen_shape_to_key_eq                py_shape_to_key sh n             = unravel_checked sh n   (ZeroDivisionError iff a 0 dim)
     gen_select_by_mask_eq              py_select_by_mask mask e i       = Ok (merge mask e i) | Err IndexError (tuple too short)
     gen_external_shape_from_mask_eq    py_external_shape_from_mask s m  = Ok (ext_of m s)
     gen_internal_shape_from_mask_eq    py_internal_shape_from_mask s m  = Ok (int_of m s)
     gen_output_key_eq, gen_input_keys_eq   the two MapSpec methods      = Model.MapSpec.output_key / input_keys
   and transfers the index theorems of C08 / C01 (row-major enumeration, ravel/unravel inverse, select/split inverse,
   input_keys selection) to the code's own definitions (`code_*`).
   A failing proof here (or an untranslatable function) is reported by the harness as a VIOLATION of C08
   (case kind "gen", the replay names the function and the first failing lemma). *)
From Verif Require Import Base.Prelude Base.PyPrim Base.Index Model.IndexOps Proofs.PyPrimFacts Proofs.IndexFacts.
From VerifGen Require Import Gen_Index.

(* ---------------------------------------------------------------- shape_to_strides *)
Lemma prod_loop sh : forall l pre p, sh = pre ++ l ->
  py_for (seq (length pre) (length l)) (fun j p => bind (py_index sh j) (fun t => Ok (p * t))) p = Ok (p * prod l).
Proof.
  induction l as [|d l IH]; intros pre p E.
  - cbn. f_equal. lia.
  - cbn [length seq]. rewrite py_for_cons. rewrite E at 1. rewrite py_index_app. cbn [bind].
    specialize (IH (pre ++ [d]) (p * d)). rewrite app_length in IH. cbn [length] in IH.
    replace (length pre + 1) with (S (length pre)) in IH by lia.
    rewrite IH by (rewrite <- app_assoc; exact E). f_equal. rewrite prod_cons. apply eq_sym, Nat.mul_assoc.
Qed.

Theorem gen_shape_to_strides_eq : forall sh, py_shape_to_strides sh = Ok (strides sh).
Proof.
  intros sh. unfold py_shape_to_strides. cbv zeta. rewrite py_range_0.
  match goal with |- bind (py_for _ ?b _) _ = _ => set (body := b) end.
  assert (L : forall l pre acc, sh = pre ++ l ->
            py_for (seq (length pre) (length l)) body acc = Ok (acc ++ strides l)).
  { induction l as [|d l IH]; intros pre acc E.
    - cbn. now rewrite app_nil_r.
    - cbn [length seq]. rewrite py_for_cons. unfold body at 1. unfold py_range.
      assert (length sh - (length pre + 1) = length l) as ->.
      { rewrite E, app_length. cbn [length]. lia. }
      replace (length pre + 1) with (length (pre ++ [d])) by (rewrite app_length; cbn; lia).
      rewrite (prod_loop sh l (pre ++ [d]) 1) by (rewrite <- app_assoc; exact E).
      cbn [bind].
      specialize (IH (pre ++ [d]) (acc ++ [1 * prod l])). rewrite app_length in IH. cbn [length] in IH.
      replace (length pre + 1) with (S (length pre)) in IH by lia.
      rewrite IH by (rewrite <- app_assoc; exact E).
      rewrite <- app_assoc. cbn [strides app]. now rewrite Nat.mul_1_l. }
  pose proof (L sh [] [] eq_refl) as H. cbn [length app] in H. rewrite H. reflexivity.
Qed.

(* ---------------------------------------------------------------- _shape_to_key *)
Lemma prod_zero_exists t : prod t = 0 -> existsb (Nat.eqb 0) t = true.
Proof.
  induction t as [|d t IH]; [discriminate|]. rewrite prod_cons. intros H. cbn [existsb].
  destruct d; [reflexivity|]. cbn [Nat.eqb orb]. apply IH. nia.
Qed.

Theorem gen_shape_to_key_eq : forall sh n, py_shape_to_key sh n = unravel_checked sh n.
Proof.
  intros sh n. unfold py_shape_to_key. cbv zeta. rewrite gen_shape_to_strides_eq. cbn [bind]. unfold py_zip.
  match goal with |- bind (py_for _ ?b _) _ = _ => set (body := b) end.
  assert (L : forall l acc, py_for (combine (strides l) l) body acc =
                            if existsb (Nat.eqb 0) l then Err ZeroDivisionError else Ok (acc ++ unravel l n)).
  { induction l as [|d l IH]; intros acc.
    - cbn. now rewrite app_nil_r.
    - cbn [strides combine]. rewrite py_for_cons. unfold body at 1. unfold py_floordiv, py_mod.
      destruct (prod l =? 0) eqn:EP.
      + apply Nat.eqb_eq in EP. cbn [bind existsb]. rewrite (prod_zero_exists l EP). now rewrite orb_true_r.
      + cbn [bind existsb]. destruct d as [|d'].
        * reflexivity.
        * change (S d' =? 0) with false. change (0 =? S d') with false. cbv iota. cbn [bind orb]. rewrite IH. destruct (existsb (Nat.eqb 0) l); [reflexivity|].
          rewrite unravel_cons, <- app_assoc. reflexivity. }
  rewrite L. unfold unravel_checked. destruct (existsb (Nat.eqb 0) sh); reflexivity.
Qed.

(* ---------------------------------------------------------------- select_by_mask *)
Theorem gen_select_by_mask_eq : forall (A : Type) (mask : list bool) (e i : list A),
  py_select_by_mask mask e i = select_by_mask mask e i.
Proof.
  intros A mask e i. unfold py_select_by_mask, select_by_mask. cbv zeta.
  match goal with |- bind (py_for _ ?b _) _ = _ => set (body := b) end.
  assert (L : forall m r i1 i2,
            py_for m body (r, i1, i2) =
            if (n_true m <=? length (skipn i1 e)) && (n_false m <=? length (skipn i2 i))
            then Ok (r ++ merge m (skipn i1 e) (skipn i2 i), i1 + n_true m, i2 + n_false m)
            else Err IndexError).
  { induction m as [|[|] m IH]; intros r i1 i2.
    - cbn. now rewrite app_nil_r, !Nat.add_0_r.
    - rewrite py_for_cons. unfold body at 1. rewrite py_index_skipn.
      destruct (skipn i1 e) as [|x t] eqn:Es.
      + reflexivity.
      + cbn [bind]. rewrite IH. rewrite Nat.add_1_r, (skipn_S_tl _ _ _ _ Es).
        unfold n_true, n_false. cbn [filter id negb length merge Nat.leb].
        destruct ((length (filter id m) <=? length t) && (length (filter negb m) <=? length (skipn i2 i))); [|reflexivity].
        rewrite <- app_assoc. cbn [app]. do 2 f_equal. f_equal. lia.
    - rewrite py_for_cons. unfold body at 1. rewrite py_index_skipn.
      destruct (skipn i2 i) as [|x t] eqn:Es.
      + cbn [bind]. unfold n_false. cbn [filter negb length]. now rewrite andb_false_r.
      + cbn [bind]. rewrite IH. rewrite Nat.add_1_r, (skipn_S_tl _ _ _ _ Es).
        unfold n_true, n_false. cbn [filter id negb length Nat.leb].
        destruct ((length (filter id m) <=? length (skipn i1 e)) && (length (filter negb m) <=? length t)); [|reflexivity].
        rewrite <- app_assoc.
        assert (merge (false :: m) (skipn i1 e) (x :: t) = x :: merge m (skipn i1 e) t) as -> by reflexivity.
        cbn [app]. do 2 f_equal. lia. }
  rewrite L. cbn [skipn].
  destruct ((n_true mask <=? length e) && (n_false mask <=? length i)); reflexivity.
Qed.

(* ---------------------------------------------------------------- external/internal_shape_from_mask *)
Theorem gen_external_shape_from_mask_eq : forall sh mask, py_external_shape_from_mask sh mask = Ok (ext_of mask sh).
Proof.
  intros sh mask. unfold py_external_shape_from_mask. cbv zeta. unfold py_zip.
  match goal with |- bind (py_for _ ?b _) _ = _ => set (body := b) end.
  assert (L : forall l m acc, py_for (combine l m) body acc = Ok (acc ++ ext_of m l)).
  { induction l as [|x l IH]; intros [|[|] m] acc; cbn [combine ext_of]; try (cbn; now rewrite app_nil_r).
    - rewrite py_for_cons. unfold body at 1. cbn [bind]. rewrite IH, <- app_assoc. reflexivity.
    - rewrite py_for_cons. unfold body at 1. cbn [bind]. apply IH. }
  rewrite L. reflexivity.
Qed.

Theorem gen_internal_shape_from_mask_eq : forall sh mask, py_internal_shape_from_mask sh mask = Ok (int_of mask sh).
Proof.
  intros sh mask. unfold py_internal_shape_from_mask. cbv zeta. unfold py_zip.
  match goal with |- bind (py_for _ ?b _) _ = _ => set (body := b) end.
  assert (L : forall l m acc, py_for (combine l m) body acc = Ok (acc ++ int_of m l)).
  { induction l as [|x l IH]; intros [|[|] m] acc; cbn [combine int_of]; try (cbn; now rewrite app_nil_r).
    - rewrite py_for_cons. unfold body at 1. cbn [bind negb]. apply IH.
    - rewrite py_for_cons. unfold body at 1. cbn [bind negb]. rewrite IH, <- app_assoc. reflexivity. }
  rewrite L. reflexivity.
Qed.

(* ---------------------------------------------------------------- MapSpec.output_key / MapSpec.input_keys *)
From Verif Require Import Base.StrUtil Model.MapSpec Proofs.StrFacts.

Theorem gen_output_key_eq : forall m sh n,
  py_MapSpec_output_key (dedup (input_indices_list m)) sh n = output_key m sh n.
Proof.
  intros m sh n. unfold py_MapSpec_output_key, output_key, n_input_indices. cbv zeta.
  destruct (negb (length sh =? length (dedup (input_indices_list m)))); cbn [bind]; [reflexivity|].
  rewrite gen_shape_to_key_eq. destruct (unravel_checked sh n); reflexivity.
Qed.

Definition pk (k : kitem) : py_key := match k with KInt n => PyInt n | KAll => PySliceAll end.
Definition pkeys (d : list (str * list kitem)) : list (str * list py_key) :=
  map (fun kv => (fst kv, map pk (snd kv))) d.
Definition raw_aspec (a : aspec) : str * list (option str) := (aname a, axes a).

Lemma dict_of_zip_lookup names : forall key d x,
  py_dict_get str_eqb (fold_left (fun d kv => py_dict_set str_eqb d (fst kv) (snd kv)) (combine names key) d) x
  = match zip_lookup names key x with Some v => Ok v | None => py_dict_get str_eqb d x end.
Proof.
  induction names as [|n names IH]; intros [|k key] d x; try reflexivity.
  cbn [combine fold_left fst snd zip_lookup]. rewrite IH.
  destruct (zip_lookup names key x); [reflexivity|].
  destruct (str_eqb n x) eqn:E.
  - apply str_eqb_eq in E. subst x. apply (py_dict_get_set_same str_eqb str_eqb_eq).
  - apply str_eqb_neq in E. apply (py_dict_get_set_other str_eqb str_eqb_eq). exact E.
Qed.

Lemma pkeys_set d k v : py_dict_set str_eqb (pkeys d) k (map pk v) = pkeys (dict_set d k v).
Proof.
  induction d as [|[k' v'] d IH]; [reflexivity|]. cbn [pkeys map fst snd py_dict_set dict_set].
  destruct (str_eqb k k'); cbn [map fst snd]; [reflexivity|]. f_equal. exact IH.
Qed.

Theorem gen_input_keys_eq : forall m sh n,
  py_MapSpec_input_keys (external_indices m) (map raw_aspec (ins m)) sh n
  = match input_keys m sh n with Ok d => Ok (pkeys d) | Err e => Err e end.
Proof.
  intros m sh n. unfold py_MapSpec_input_keys, input_keys. cbv zeta.
  destruct (negb (length sh =? length (external_indices m))); cbn [bind]; [reflexivity|].
  rewrite gen_shape_to_key_eq. destruct (unravel_checked sh n) as [key|e]; cbn [bind]; [|reflexivity].
  match goal with |- bind (py_for _ ?b _) _ = _ => set (body := b) end.
  set (ids := zip_lookup (external_indices m) key).
  set (mbody := fun acc a => do d <- acc; do k <- input_key_of ids a; Ok (dict_set d (aname a) k)).
  (* the inner loop over the axes of one input is input_key_of *)
  assert (Inner : forall a d, body (raw_aspec a) d =
            match input_key_of ids a with Ok ks => Ok (py_dict_set str_eqb d (aname a) (map pk ks)) | Err e => Err e end).
  { intros a d. unfold body. cbn [raw_aspec fst snd].
    match goal with |- bind (py_for _ ?b _) _ = _ => set (ibody := b) end.
    assert (LI : forall l acc, py_for l ibody acc =
              match mapM (fun ax => match ax with
                                    | None => Ok KAll
                                    | Some i => match ids i with Some k => Ok (KInt k) | None => Err KeyError end
                                    end) l with
              | Ok ks => Ok (acc ++ map pk ks) | Err e => Err e end).
    { induction l as [|ax l IHl]; intros acc.
      - cbn. now rewrite app_nil_r.
      - rewrite py_for_cons. unfold ibody at 1. cbn [mapM]. destruct ax as [x|].
        + unfold py_dict_of_pairs, py_zip. rewrite dict_of_zip_lookup. fold ids.
          destruct (ids x) as [k|]; cbn [bind py_dict_get]; [|reflexivity].
          rewrite IHl. destruct (mapM _ l); cbn [bind]; [|reflexivity].
          rewrite <- app_assoc. reflexivity.
        + cbn [bind]. rewrite IHl. destruct (mapM _ l); cbn [bind]; [|reflexivity].
          rewrite <- app_assoc. reflexivity. }
    rewrite LI. unfold input_key_of. destruct (mapM _ (axes a)); reflexivity. }
  assert (L : forall l d, py_for (map raw_aspec l) body (pkeys d)
                          = match fold_left mbody l (Ok d) with Ok d' => Ok (pkeys d') | Err e => Err e end).
  { induction l as [|a l IHl]; intros d; [reflexivity|].
    cbn [map fold_left]. rewrite py_for_cons, Inner. unfold mbody at 2. cbn [bind].
    destruct (input_key_of ids a) as [ks|e]; cbn [bind].
    - rewrite pkeys_set. apply IHl.
    - clear. induction l as [|a' l IHl]; [reflexivity|]. cbn [fold_left]. unfold mbody at 2. cbn [bind]. exact IHl. }
  pose proof (L (ins m) []) as H. cbn [pkeys map] in H. rewrite H.
  fold mbody. destruct (fold_left mbody (ins m) (Ok [])); reflexivity.
Qed.

(* ================================================================ transfer: the C08 / C01 index theorems hold of the
   code's own (regenerated) definitions *)
From Verif Require Import Model.MapSpecSpec Proofs.MapSpecFacts.

Definition all_pos (sh : list nat) : bool := forallb (fun d => 0 <? d) sh.

(* no dimension is 0  <->  _shape_to_key does not raise; a zero dimension raises ZeroDivisionError for EVERY index *)
Corollary code_shape_to_key_total : forall sh n, all_pos sh = true -> py_shape_to_key sh n = Ok (unravel sh n).
Proof.
  intros sh n H. rewrite gen_shape_to_key_eq. unfold unravel_checked. now rewrite (existsb_zero_false sh H).
Qed.

Corollary code_shape_to_key_zero_dim : forall sh n, all_pos sh = false -> py_shape_to_key sh n = Err ZeroDivisionError.
Proof.
  intros sh n H. rewrite gen_shape_to_key_eq. unfold unravel_checked.
  assert (existsb (Nat.eqb 0) sh = true) as ->; [|reflexivity].
  unfold all_pos in H. induction sh as [|d t IH]; [discriminate|]. cbn [forallb existsb] in *.
  destruct d; [reflexivity|]. cbn [Nat.ltb Nat.leb andb Nat.eqb orb] in *. auto.
Qed.

(* row-major enumeration: over linear indices 0..N-1 the code's _shape_to_key yields exactly itertools.product order *)
Corollary code_unravel_enumerates : forall sh, all_pos sh = true ->
  mapM (py_shape_to_key sh) (seq 0 (prod sh)) = Ok (all_indices sh)
  /\ NoDup (all_indices sh) /\ length (all_indices sh) = prod sh.
Proof.
  intros sh H. split; [|split; [apply all_indices_NoDup | apply all_indices_length]].
  rewrite <- unravel_enumerates. apply mapM_ok_map. intros n _. now apply code_shape_to_key_total.
Qed.

Lemma prod_pos_all_pos sh : 0 < prod sh -> all_pos sh = true.
Proof.
  unfold all_pos. induction sh as [|d t IH]; [reflexivity|]. rewrite prod_cons. intros H. cbn [forallb].
  destruct d; [lia|]. cbn [Nat.ltb Nat.leb andb]. apply IH. nia.
Qed.

(* linear index <-> key are mutually inverse, with the strides computed by the code's shape_to_strides *)
Definition dot (key st : list nat) : nat := fold_right Nat.add 0 (map (fun ks => fst ks * snd ks) (combine key st)).

Corollary code_ravel_unravel : forall sh n, n < prod sh ->
  exists st key, py_shape_to_strides sh = Ok st /\ py_shape_to_key sh n = Ok key
                 /\ in_bounds sh key = true /\ dot key st = n.
Proof.
  intros sh n Hn. exists (strides sh), (unravel sh n).
  assert (all_pos sh = true) as Hp by (apply prod_pos_all_pos; lia).
  split; [apply gen_shape_to_strides_eq|]. split; [now apply code_shape_to_key_total|].
  split; [now apply unravel_in_bounds|]. exact (ravel_unravel sh n Hn).
Qed.

Corollary code_unravel_ravel : forall sh key, in_bounds sh key = true ->
  exists st, py_shape_to_strides sh = Ok st /\ dot key st < prod sh /\ py_shape_to_key sh (dot key st) = Ok key.
Proof.
  intros sh key Hb. exists (strides sh). change (dot key (strides sh)) with (ravel sh key).
  pose proof (ravel_lt sh key Hb) as Hlt. split; [apply gen_shape_to_strides_eq|]. split; [exact Hlt|].
  rewrite code_shape_to_key_total by (apply prod_pos_all_pos; lia). f_equal. exact (unravel_ravel sh key Hb).
Qed.

(* select_by_mask interleaves; external/internal_shape_from_mask are its two projections *)
Corollary code_select_then_split : forall mask (e i : list nat),
  length e = n_true mask -> length i = n_false mask ->
  exists r, py_select_by_mask mask e i = Ok r /\ length r = length mask
            /\ py_external_shape_from_mask r mask = Ok e /\ py_internal_shape_from_mask r mask = Ok i.
Proof.
  intros mask e i He Hi. exists (merge mask e i).
  rewrite gen_select_by_mask_eq, gen_external_shape_from_mask_eq, gen_internal_shape_from_mask_eq.
  unfold select_by_mask. rewrite He, Hi, !Nat.leb_refl. cbn [andb].
  destruct (ext_of_merge mask e i He Hi) as [H1 H2]. rewrite H1, H2. repeat split; try reflexivity.
  clear H1 H2. revert e i He Hi. unfold n_true, n_false.
  induction mask as [|[|] m IH]; intros e i He Hi; [reflexivity| |]; cbn [filter id negb length] in *.
  - destruct e as [|x e]; [discriminate|]. cbn [merge length]. f_equal. apply IH; [now injection He|exact Hi].
  - destruct i as [|x i]; [discriminate|]. cbn [merge length]. f_equal. apply IH; [exact He|now injection Hi].
Qed.

Corollary code_split_then_select : forall mask (sh : list nat), length sh = length mask ->
  exists e i, py_external_shape_from_mask sh mask = Ok e /\ py_internal_shape_from_mask sh mask = Ok i
              /\ py_select_by_mask mask e i = Ok sh.
Proof.
  intros mask sh Hl. exists (ext_of mask sh), (int_of mask sh).
  rewrite gen_select_by_mask_eq, gen_external_shape_from_mask_eq, gen_internal_shape_from_mask_eq.
  split; [reflexivity|]. split; [reflexivity|]. unfold select_by_mask. rewrite (merge_ext_int mask sh Hl).
  assert (length (ext_of mask sh) = n_true mask /\ length (int_of mask sh) = n_false mask) as [-> ->].
  { unfold n_true, n_false. revert sh Hl. induction mask as [|[|] m IH]; intros [|x sh] Hl; try discriminate;
      cbn [ext_of int_of filter id negb length]; [auto| |]; injection Hl as Hl; destruct (IH sh Hl) as [H1 H2]; auto. }
  now rewrite !Nat.leb_refl.
Qed.

(* too short a tuple raises IndexError (never a silently shortened key) *)
Corollary code_select_short_raises : forall (A : Type) mask (e i : list A),
  length e < n_true mask \/ length i < n_false mask -> py_select_by_mask mask e i = Err IndexError.
Proof.
  intros A mask e i H. rewrite gen_select_by_mask_eq. unfold select_by_mask.
  destruct (n_true mask <=? length e) eqn:E1; destruct (n_false mask <=? length i) eqn:E2; try reflexivity.
  apply Nat.leb_le in E1, E2. lia.
Qed.

(* the two MapSpec methods, with the property values they read (`input_indices`, `external_indices`, `inputs`) taken
   from the hand-written model: output_key enumerates row-major, input_keys selects the named coordinates *)
Lemma mapM_ext' {A B} (f g : A -> result B) l : (forall x, f x = g x) -> mapM f l = mapM g l.
Proof. intros H. induction l as [|x l IH]; [reflexivity|]. cbn [mapM]. now rewrite H, IH. Qed.

Corollary code_output_key_rowmajor : forall m sh,
  length sh = n_input_indices m -> all_pos sh = true ->
  mapM (py_MapSpec_output_key (dedup (input_indices_list m)) sh) (seq 0 (prod sh)) = Ok (all_indices sh).
Proof.
  intros m sh H1 H2. rewrite <- (output_key_rowmajor m sh H1 H2).
  apply mapM_ext'. intros n. apply gen_output_key_eq.
Qed.

Corollary code_input_keys_select : forall m sh n,
  wf_decl m = true -> NoDup (map aname (ins m)) -> NoDup (output_indices m) ->
  length sh = length (external_indices m) -> all_pos sh = true ->
  exists d, py_MapSpec_input_keys (external_indices m) (map raw_aspec (ins m)) sh n = Ok (pkeys d)
            /\ input_keys_ok m (unravel sh n) d = true.
Proof.
  intros m sh n H1 H2 H3 H4 H5. destruct (input_keys_select m sh n H1 H2 H3 H4 H5) as [d [Hd Hok]].
  exists d. split; [|exact Hok]. now rewrite gen_input_keys_eq, Hd.
Qed.

(* one Print Assumptions for all obligations of this file (each call costs ~0.6 s) *)
Definition index_obligations :=
  (gen_shape_to_strides_eq,
   gen_shape_to_key_eq,
   gen_select_by_mask_eq,
   gen_external_shape_from_mask_eq,
   gen_internal_shape_from_mask_eq,
   gen_output_key_eq,
   gen_input_keys_eq,
   code_shape_to_key_total,
   code_shape_to_key_zero_dim,
   code_unravel_enumerates,
   code_ravel_unravel,
   code_unravel_ravel,
   code_select_then_split,
   code_split_then_select,
   code_select_short_raises,
   code_output_key_rowmajor,
   code_input_keys_select).
Print Assumptions index_obligations.
