(* C12 sub-obligation `no_effect_before_checks`, proved BY COMPUTATION ON THE REGENERATED TERM.
   Gen_PrepareSteps.v is rewritten from the Python source of the repo working tree on every C12 run by
   harness/translate_prepare.py; this (static) file is compiled right after it:
     coqc -Q theories Verif -Q gen VerifGen gen/Gen_PrepareSteps.v gen/Check_PrepareSteps.v
   A failing proof here is reported by the harness as a VIOLATION of C12 (case kind "prep"). *)
From Verif Require Import Base.Prelude Model.PrepareSteps Model.Validate Proofs.PrepareFacts.
From VerifGen Require Import Gen_PrepareSteps.

(* cleanup=False: nothing unclassified, and every effect is preceded by all checks *)
Theorem C12_no_effect_before_checks :
  negb (has_unknown steps_cleanup_false)
  && forallb (all_checks_precede steps_cleanup_false) (effect_positions steps_cleanup_false) = true.
Proof. vm_compute. reflexivity. Qed.
Print Assumptions C12_no_effect_before_checks.

(* hence, whatever the checks mean (any interpretation `chk` of the labels as functions of the request): a request
   rejected by the regenerated step list has executed NO effect on the run folder *)
Theorem C12_regenerated_rejection_is_effect_free :
  forall (ctx : Type) (chk : str -> ctx -> result unit) (c : ctx) (e : err) (tr : list str),
    exec chk steps_cleanup_false c [] = (Err e, tr) -> tr = [].
Proof. intros ctx chk c e tr. apply rejected_no_effect. exact C12_no_effect_before_checks. Qed.
Print Assumptions C12_regenerated_rejection_is_effect_free.

(* cleanup=True: the requested removal of the old folder is the ONLY effect that may precede a check *)
Theorem C12_cleanup_true_only_removal_precedes_checks :
  no_effect_before_checks (without_effect E_cleanup steps_cleanup_true) = true
  /\ forall (ctx : Type) (chk : str -> ctx -> result unit) (c : ctx) (e : err) (tr : list str),
       exec chk (without_effect E_cleanup steps_cleanup_true) c [] = (Err e, tr) -> tr = [].
Proof.
  assert (H : no_effect_before_checks (without_effect E_cleanup steps_cleanup_true) = true) by (vm_compute; reflexivity).
  split; [exact H|]. intros ctx chk c e tr. apply rejected_no_effect. exact H.
Qed.
Print Assumptions C12_cleanup_true_only_removal_precedes_checks.

(* pipeline(output, **kwargs): every check of Pipeline.run (incl. the validation of the keywords) precedes the first
   invocation of user code *)
Theorem C12_run_checks_before_first_user_call : no_effect_before_checks steps_run = true.
Proof. vm_compute. reflexivity. Qed.
Print Assumptions C12_run_checks_before_first_user_call.
