(* Directed graphs over `str` nodes (mirrors the fragment of networkx used by pipefunc):
   successors / predecessors, descendants / ancestors (nx.descendants / nx.ancestors: reachability by >= 1
   edge, the start node itself always excluded), Kahn layering
   (nx.topological_generations up to the order inside a layer; None on a cycle).
   All searches use explicit fuel = number of nodes.  Definitions only; facts are in Proofs/GraphFacts.v. *)
From Verif Require Import Base.Prelude Base.StrOrd.

Record graph := { nodes : list str; edges : list (str * str) }.

Definition succs (g : graph) (n : str) : list str :=
  map snd (filter (fun e => str_eqb (fst e) n) (edges g)).
Definition preds (g : graph) (n : str) : list str :=
  map fst (filter (fun e => str_eqb (snd e) n) (edges g)).
Definition rev_graph (g : graph) : graph :=
  {| nodes := nodes g; edges := map (fun e => (snd e, fst e)) (edges g) |}.

(* one closure step: add the successors of everything in the set (new elements appended, no duplicates) *)
Definition expand (g : graph) (seen : list str) : list str :=
  fold_left (fun acc n => union_str acc (succs g n)) seen seen.

Fixpoint close (fuel : nat) (g : graph) (seen : list str) : list str :=
  match fuel with
  | O => seen
  | S f => close f g (expand g seen)
  end.

(* nodes reachable from `start` by at least one edge; fuel = number of nodes suffices *)
Definition reach (g : graph) (start : list str) : list str :=
  let first := dedup (flat_map (succs g) start) in
  close (length (nodes g)) g first.
(* nx.descendants / nx.ancestors never contain the start node itself (also when it lies on a cycle) *)
Definition descendants (g : graph) (n : str) : list str :=
  filter (fun x => negb (str_eqb x n)) (reach g [n]).
Definition ancestors (g : graph) (n : str) : list str := descendants (rev_graph g) n.

(* Kahn layering.  A node is ready when none of its predecessors is still remaining. *)
Definition ready (g : graph) (remaining : list str) (v : str) : bool :=
  forallb (fun u => negb (mem_str u remaining)) (preds g v).

Fixpoint kahn (fuel : nat) (g : graph) (remaining : list str) : option (list (list str)) :=
  match remaining with
  | [] => Some []
  | _ :: _ =>
      match fuel with
      | O => None
      | S f =>
          match filter (ready g remaining) remaining with
          | [] => None                              (* every remaining node waits for another: a cycle *)
          | layer =>
              match kahn f g (diff_str remaining layer) with
              | Some ls => Some (layer :: ls)
              | None => None
              end
          end
      end
  end.

Definition topo_generations (g : graph) : option (list (list str)) :=
  kahn (length (nodes g)) g (nodes g).

Definition acyclicb (g : graph) : bool :=
  match topo_generations g with Some _ => true | None => false end.

(* position of the layer that contains v (length of the list if there is none) *)
Fixpoint rank_of (ls : list (list str)) (v : str) : nat :=
  match ls with
  | [] => O
  | l :: t => if mem_str v l then O else S (rank_of t v)
  end.
