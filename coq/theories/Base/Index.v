(* Index arithmetic mirrored from pipefunc/map/_mapspec.py (shape_to_strides, _shape_to_key) and
   pipefunc/map/_storage_array/_base.py (select_by_mask, iterate_shape_indices). Definitions only. *)
From Verif Require Import Base.Prelude.

Definition prod (sh : list nat) : nat := fold_right Nat.mul 1 sh.

(* shape_to_strides: strides[i] = prod(shape[i+1:]) *)
Fixpoint strides (sh : list nat) : list nat :=
  match sh with [] => [] | _ :: t => prod t :: strides t end.

(* _shape_to_key: tuple((n // stride) % dim for stride, dim in zip(strides, shape)) *)
Definition unravel (sh : list nat) (n : nat) : list nat :=
  map (fun sd => (n / fst sd) mod snd sd) (combine (strides sh) sh).

(* Python raises ZeroDivisionError as soon as a dimension is 0 (stride 0 or modulo 0). *)
Definition unravel_checked (sh : list nat) (n : nat) : result (list nat) :=
  if existsb (Nat.eqb 0) sh then Err ZeroDivisionError else Ok (unravel sh n).

Definition ravel (sh key : list nat) : nat :=
  fold_right Nat.add 0 (map (fun ks => fst ks * snd ks) (combine key (strides sh))).

(* itertools.product over range(d) for d in shape : row-major enumeration *)
Fixpoint all_indices (sh : list nat) : list (list nat) :=
  match sh with
  | [] => [[]]
  | d :: t => flat_map (fun i => map (cons i) (all_indices t)) (seq 0 d)
  end.

Fixpoint in_bounds (sh key : list nat) : bool :=
  match sh, key with
  | [], [] => true
  | d :: sh', k :: key' => (k <? d) && in_bounds sh' key'
  | _, _ => false
  end.

(* select_by_mask(mask, external, internal): interleave two tuples following the mask *)
Fixpoint merge {A} (mask : list bool) (e i : list A) : list A :=
  match mask with
  | [] => []
  | true :: m => match e with x :: e' => x :: merge m e' i | [] => merge m [] i end
  | false :: m => match i with x :: i' => x :: merge m e i' | [] => merge m e [] end
  end.

Fixpoint ext_of {A} (mask : list bool) (l : list A) : list A :=
  match mask, l with
  | true :: m, x :: t => x :: ext_of m t
  | false :: m, _ :: t => ext_of m t
  | _, _ => []
  end.

Fixpoint int_of {A} (mask : list bool) (l : list A) : list A :=
  match mask, l with
  | false :: m, x :: t => x :: int_of m t
  | true :: m, _ :: t => int_of m t
  | _, _ => []
  end.
