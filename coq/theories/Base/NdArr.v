(* n-d object arrays (row-major flat data) with NumPy basic indexing restricted to integer and
   full-slice components, as used by pipefunc's `_select_kwargs`.  Definitions only. *)
From Verif Require Import Base.Prelude Base.Index Model.MapSpec.

Record nd (A : Type) := { shp : list nat; dat : list A }.
Arguments shp {A} _.
Arguments dat {A} _.

Definition nd_wf {A} (a : nd A) : bool := length (dat a) =? prod (shp a).

(* element at a full index (None when out of range) *)
Definition nd_get {A} (a : nd A) (idx : list nat) : option A :=
  if in_bounds (shp a) idx then nth_error (dat a) (ravel (shp a) idx) else None.

Definition key_is_int (k : kitem) : bool := match k with KInt _ => true | KAll => false end.
Definition key_ints (key : list kitem) : list nat :=
  flat_map (fun k => match k with KInt n => [n] | KAll => [] end) key.

(* a[key] for a key of full rank: integer components drop their axis, ':' components keep it.
   Wrong rank or an integer outside [0, n) raises IndexError (pipefunc never passes negative ints here). *)
Definition nd_index {A} (a : nd A) (key : list kitem) : result (nd A) :=
  if negb (length key =? length (shp a)) then Err IndexError
  else
    let mask := map key_is_int key in
    let fixed := key_ints key in
    if negb (in_bounds (ext_of mask (shp a)) fixed) then Err IndexError
    else
      let kept := int_of mask (shp a) in
      match mapM (fun j => match nd_get a (merge mask fixed j) with
                           | Some x => Ok x | None => Err IndexError end) (all_indices kept) with
      | Ok d => Ok {| shp := kept; dat := d |}
      | Err e => Err e
      end.

Definition nd_of_fun {A} (sh : list nat) (f : list nat -> A) : nd A :=
  {| shp := sh; dat := map f (all_indices sh) |}.

(* list update (no effect when out of range) *)
Fixpoint upd {A} (l : list A) (n : nat) (x : A) : list A :=
  match l, n with
  | [], _ => []
  | _ :: t, O => x :: t
  | y :: t, S n' => y :: upd t n' x
  end.
