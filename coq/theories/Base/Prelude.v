(* Shared basics: strings as lists of ascii, result type with Python exception enum, S-expressions. *)
From Coq Require Export Ascii String.
From Coq Require Export List Bool Arith ZArith Lia.
Export ListNotations.
Close Scope string_scope.

Definition str := list ascii.
Definition s (x : string) : str := list_ascii_of_string x.
Arguments s x%string.
Definition sb (l : list nat) : str := map ascii_of_nat l.

Definition ascii_eqb (a b : ascii) : bool := Ascii.eqb a b.

Fixpoint str_eqb (a b : str) : bool :=
  match a, b with
  | [], [] => true
  | x :: a', y :: b' => Ascii.eqb x y && str_eqb a' b'
  | _, _ => false
  end.

Fixpoint list_eqb {A} (eqb : A -> A -> bool) (a b : list A) : bool :=
  match a, b with
  | [], [] => true
  | x :: a', y :: b' => eqb x y && list_eqb eqb a' b'
  | _, _ => false
  end.

Definition opt_eqb {A} (eqb : A -> A -> bool) (a b : option A) : bool :=
  match a, b with
  | None, None => true
  | Some x, Some y => eqb x y
  | _, _ => false
  end.

Fixpoint mem_str (x : str) (l : list str) : bool :=
  match l with [] => false | y :: t => str_eqb x y || mem_str x t end.

(* Python exception classes that the models can raise. *)
Inductive err :=
| ValueError | IndexError | KeyError | TypeError | ZeroDivisionError | FileNotFoundError
| UnusedParametersError | NotImplementedError | RuntimeError | AssertionError | AttributeError
| OtherError.

Definition err_name (e : err) : string :=
  match e with
  | ValueError => "ValueError" | IndexError => "IndexError" | KeyError => "KeyError"
  | TypeError => "TypeError" | ZeroDivisionError => "ZeroDivisionError"
  | FileNotFoundError => "FileNotFoundError" | UnusedParametersError => "UnusedParametersError"
  | NotImplementedError => "NotImplementedError" | RuntimeError => "RuntimeError"
  | AssertionError => "AssertionError" | AttributeError => "AttributeError"
  | OtherError => "OtherError"
  end.

Inductive result (A : Type) := Ok (a : A) | Err (e : err).
Arguments Ok {A} a.
Arguments Err {A} e.

Definition bind {A B} (r : result A) (f : A -> result B) : result B :=
  match r with Ok a => f a | Err e => Err e end.
Notation "'do' x <- r ; k" := (bind r (fun x => k)) (at level 200, x pattern, r at level 100, k at level 200).

Fixpoint mapM {A B} (f : A -> result B) (l : list A) : result (list B) :=
  match l with
  | [] => Ok []
  | x :: t => do y <- f x; do ys <- mapM f t; Ok (y :: ys)
  end.

Definition is_ok {A} (r : result A) : bool := match r with Ok _ => true | Err _ => false end.

(* Generic observation type shared by all correspondence checks. *)
Inductive sx := SI (z : Z) | SS (x : str) | SL (l : list sx).

Fixpoint sx_eqb (a b : sx) : bool :=
  match a, b with
  | SI x, SI y => Z.eqb x y
  | SS x, SS y => str_eqb x y
  | SL x, SL y =>
      (fix go (x y : list sx) : bool :=
         match x, y with
         | [], [] => true
         | a :: x', b :: y' => sx_eqb a b && go x' y'
         | _, _ => false
         end) x y
  | _, _ => false
  end.

Definition SN (n : nat) : sx := SI (Z.of_nat n).
Definition SB (b : bool) : sx := SL [SS (s "bool"); SI (if b then 1 else 0)%Z].
Definition SErr (e : err) : sx := SL [SS (s "err"); SS (s (err_name e))].
Definition SNone : sx := SL [SS (s "none")].
Definition sx_of_result {A} (f : A -> sx) (r : result A) : sx :=
  match r with Ok a => SL [SS (s "ok"); f a] | Err e => SErr e end.
Definition sx_is_err (x : sx) : bool :=
  match x with SL [SS t; SS _] => str_eqb t (s "err") | _ => false end.
