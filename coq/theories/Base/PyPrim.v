(* Meaning of the Python primitives that harness/translate_index.py emits (shallow embedding in the `result` monad).
   The generated file coq/gen/Gen_Index.v contains nothing but applications of these combinators, `bind`, `let`,
   `if`, tuples and list/nat operations.  Definitions only; facts are in Proofs/PyPrimFacts.v.

   Numbers: the translated functions compute with `+ * // % len range` on non-negative inputs only (the translator
   fails closed on `-`, unary minus, negative literals, `/`, `**`), so Python's unbounded ints are `nat` here.
   Exceptions are explicit: `x // 0`, `x % 0` raise ZeroDivisionError, `t[i]` past the end raises IndexError
   (indices are never negative for the same reason). *)
From Verif Require Import Base.Prelude.

(* range(a, b) *)
Definition py_range (a b : nat) : list nat := seq a (b - a).

(* t[i] for a tuple/list and i >= 0 *)
Definition py_index {A} (l : list A) (i : nat) : result A :=
  match nth_error l i with Some v => Ok v | None => Err IndexError end.

(* a // b and a % b on non-negative ints *)
Definition py_floordiv (a b : nat) : result nat := if b =? 0 then Err ZeroDivisionError else Ok (a / b).
Definition py_mod (a b : nat) : result nat := if b =? 0 then Err ZeroDivisionError else Ok (a mod b).

(* for x in it: body   -- the loop state `st` is the tuple of the variables (defined before the loop) that the body
   assigns; an exception raised by the body ends the loop *)
Definition py_for {X S} (it : list X) (body : X -> S -> result S) (st : S) : result S :=
  fold_left (fun acc x => bind acc (body x)) it (Ok st).

(* zip(a, b) *)
Definition py_zip {A B} (a : list A) (b : list B) : list (A * B) := combine a b.

(* dict(zip(keys, values)) / d[k] / {k: v for ...} on association lists: later bindings win, the position of a key is
   that of its first insertion *)
Fixpoint py_dict_set {K V} (eqb : K -> K -> bool) (d : list (K * V)) (k : K) (v : V) : list (K * V) :=
  match d with
  | [] => [(k, v)]
  | (k', v') :: t => if eqb k k' then (k', v) :: t else (k', v') :: py_dict_set eqb t k v
  end.
Fixpoint py_dict_get {K V} (eqb : K -> K -> bool) (d : list (K * V)) (k : K) : result V :=
  match d with
  | [] => Err KeyError
  | (k', v') :: t => if eqb k k' then Ok v' else py_dict_get eqb t k
  end.
Definition py_dict_of_pairs {K V} (eqb : K -> K -> bool) (l : list (K * V)) : list (K * V) :=
  fold_left (fun d kv => py_dict_set eqb d (fst kv) (snd kv)) l [].

(* an element of an indexing key: an int or slice(None) *)
Inductive py_key := PyInt (n : nat) | PySliceAll.
