(* Python's slice.indices / range and negative-index normalisation (CPython PySlice_Unpack +
   PySlice_AdjustIndices, range_length).  These are definitions of Python's semantics; they are compared
   with CPython exhaustively on a small domain on every run of C06 (case kind CRange).  Definitions only. *)
From Verif Require Import Base.Prelude.
Local Open Scope Z_scope.

(* one component of fixed_indices: an int or a slice *)
Inductive fsel := FInt (k : Z) | FSlice (a b c : option Z).

(* PySlice_AdjustIndices for one bound *)
Definition clamp (v n : Z) (neg : bool) : Z :=
  if v <? 0 then
    let v' := v + n in
    if v' <? 0 then (if neg then -1 else 0) else v'
  else if v >=? n then (if neg then n - 1 else n)
  else v.

(* slice(a, b, c).indices(n) *)
Definition slice_bounds (a b c : option Z) (n : nat) : result (Z * Z * Z) :=
  let step := match c with None => 1 | Some st => st end in
  if step =? 0 then Err ValueError
  else
    let neg := step <? 0 in
    let nz := Z.of_nat n in
    let start := match a with None => if neg then nz - 1 else 0 | Some v => clamp v nz neg end in
    let stop := match b with None => if neg then -1 else nz | Some v => clamp v nz neg end in
    Ok (start, stop, step).

(* len(range(start, stop, step)), step <> 0 *)
Definition range_len (start stop step : Z) : Z :=
  if step >? 0 then (if start <? stop then (stop - start - 1) / step + 1 else 0)
  else (if stop <? start then (start - stop - 1) / (- step) + 1 else 0).

Definition py_range (start stop step : Z) : list Z :=
  map (fun k => start + Z.of_nat k * step) (seq 0 (Z.to_nat (range_len start stop step))).

(* list(range( *slice(a, b, c).indices(n))) *)
Definition slice_indices (a b c : option Z) (n : nat) : result (list nat) :=
  match slice_bounds a b c n with
  | Ok (start, stop, step) => Ok (map Z.to_nat (py_range start stop step))
  | Err e => Err e
  end.

(* seq[k] for an int k: negative values count from the end, IndexError outside [-n, n) *)
Definition norm_int (k : Z) (n : nat) : result nat :=
  let k' := if k <? 0 then k + Z.of_nat n else k in
  if (0 <=? k') && (k' <? Z.of_nat n) then Ok (Z.to_nat k') else Err IndexError.

(* the positions of an axis of size n that an int / a slice selects *)
Definition fsel_indices (f : fsel) (n : nat) : result (list nat) :=
  match f with
  | FInt k => match norm_int k n with Ok i => Ok [i] | Err e => Err e end
  | FSlice a b c => slice_indices a b c n
  end.

Definition full_slice : fsel := FSlice None None None.
