(* Python's slice / range / negative-index semantics (definitions only, no proofs).

   slice_adjust a b c n  = slice(a, b, c).indices(n)                      (CPython sliceobject.c, PySlice_GetLongIndices)
   range_list st sp step = list(range(st, sp, step))                      (step <> 0)
   slice_indices a b c n = list(range( *slice(a, b, c).indices(n)))        (Err ValueError when c = 0)
   norm_int k n          = k if 0 <= k < n, k + n if -n <= k < 0, else IndexError
   cart ls               = list(itertools.product( *ls))

   These are *definitions of Python's semantics*: they are not proved against anything, they are compared with
   CPython exhaustively for a,b,c in {None,-5..5}, n in 0..5 on every run of C07 (cases of kind "pyslice").
   Facts (in-range, length) are in Proofs/PySliceFacts.v. *)
From Verif Require Import Base.Prelude.

Definition slice_adjust (a b c : option Z) (n : Z) : result (Z * Z * Z) :=
  let step := match c with None => 1%Z | Some z => z end in
  if (step =? 0)%Z then Err ValueError else
  let neg := (step <? 0)%Z in
  let lower := if neg then (-1)%Z else 0%Z in
  let upper := if neg then (n - 1)%Z else n in
  let clip (x : option Z) (dflt : Z) : Z :=
    match x with
    | None => dflt
    | Some z => if (z <? 0)%Z then Z.max (z + n) lower else Z.min z upper
    end in
  Ok (clip a (if neg then upper else lower), clip b (if neg then lower else upper), step).

(* len(range(start, stop, step)), step <> 0 *)
Definition range_len (start stop step : Z) : nat :=
  if (0 <? step)%Z
  then (if (start <? stop)%Z then Z.to_nat ((stop - start - 1) / step + 1) else 0)
  else (if (stop <? start)%Z then Z.to_nat ((start - stop - 1) / (- step) + 1) else 0).

Definition range_list (start stop step : Z) : list Z :=
  map (fun i => (start + Z.of_nat i * step)%Z) (seq 0 (range_len start stop step)).

Definition slice_indices (a b c : option Z) (n : nat) : result (list nat) :=
  match slice_adjust a b c (Z.of_nat n) with
  | Ok (st, sp, step) => Ok (map Z.to_nat (range_list st sp step))
  | Err e => Err e
  end.

(* negative-index normalisation with bounds check (normalize_key: `k if k >= 0 else k + axis_size`) *)
Definition norm_int (k : Z) (n : nat) : result nat :=
  let k' := if (0 <=? k)%Z then k else (k + Z.of_nat n)%Z in
  if ((0 <=? k') && (k' <? Z.of_nat n))%Z then Ok (Z.to_nat k') else Err IndexError.

(* k is a valid (possibly negative) index of an axis of size n *)
Definition int_in_range (k : Z) (n : nat) : Prop := (- Z.of_nat n <= k < Z.of_nat n)%Z.

(* itertools.product( *ls): the last component varies fastest *)
Fixpoint cart {A} (ls : list (list A)) : list (list A) :=
  match ls with
  | [] => [[]]
  | l :: t => flat_map (fun x => map (cons x) (cart t)) l
  end.
