(* Python's sorted() as CPython 3.12 executes it for lists shorter than 64 elements (Objects/listobject.c):
   count_run finds the initial run (strictly descending runs are reversed), the remaining elements are
   inserted one by one by binarysort (binary search for the insertion point in the sorted prefix, the pivot
   goes AFTER elements that are not greater: stable).  The comparison `lt` may raise (Err e); the first
   raising comparison aborts the sort with that error - exactly the comparisons CPython performs, in its
   order.  For n >= 64 CPython merges runs (same result when `lt` is a strict weak order, other comparison
   sequence); the generators of C15 stay far below that.  Definitions only; facts in Proofs/PySortFacts.v. *)
From Verif Require Import Base.Prelude.

Section PySort.
  Context {A : Type}.
  Variable lt : A -> A -> result bool.

  (* binarysort inner do-while loop on the sorted prefix [pre] (l = 0, r = length pre):
       p = l + ((r - l) >> 1);  if pivot < *p then r = p else l = p + 1;  while l < r
     expressed on the sub-list [l, r).  fuel >= length pre is always enough. *)
  Fixpoint bins (fuel : nat) (pivot : A) (pre : list A) : result (list A) :=
    match pre with
    | [] => Ok [pivot]
    | _ :: _ =>
        match fuel with
        | 0 => Err OtherError                      (* unreachable: see bins_fuel in PySortFacts *)
        | S f =>
            let p := Nat.div2 (length pre) in
            match skipn p pre with
            | [] => Err OtherError                 (* unreachable: p < length pre *)
            | x :: b =>
                let a := firstn p pre in
                do c <- lt pivot x;
                if c then do a' <- bins f pivot a; Ok (a' ++ x :: b)
                else do b' <- bins f pivot b; Ok (a ++ x :: b')
            end
        end
    end.

  (* count_run, descending branch: acc holds the run reversed (= ascending); continue while next < prev *)
  Fixpoint run_desc (prev : A) (t : list A) (acc : list A) : result (list A * list A) :=
    match t with
    | [] => Ok (acc, [])
    | y :: t' => do c <- lt y prev; if c then run_desc y t' (y :: acc) else Ok (acc, t)
    end.

  (* count_run, ascending branch: continue while not (next < prev) *)
  Fixpoint run_asc (prev : A) (t : list A) (acc : list A) : result (list A * list A) :=
    match t with
    | [] => Ok (rev acc, [])
    | y :: t' => do c <- lt y prev; if c then Ok (rev acc, t) else run_asc y t' (y :: acc)
    end.

  Fixpoint ins_all (pre rest : list A) : result (list A) :=
    match rest with
    | [] => Ok pre
    | y :: t => do pre' <- bins (length pre) y pre; ins_all pre' t
    end.

  Definition py_sort (l : list A) : result (list A) :=
    match l with
    | [] => Ok []
    | [x] => Ok [x]
    | x0 :: x1 :: t =>
        do d <- lt x1 x0;
        do rr <- (if d then run_desc x1 t [x1; x0] else run_asc x1 t [x1; x0]);
        ins_all (fst rr) (snd rr)
    end.
End PySort.
