(* Python's `<` on ASCII str (lexicographic by code point), `sorted(...)` as insertion sort, set-like helpers
   on lists of str.  Definitions only; facts are in Proofs/GraphFacts.v. *)
From Verif Require Import Base.Prelude.

Fixpoint str_ltb (a b : str) : bool :=
  match a, b with
  | [], [] => false
  | [], _ :: _ => true
  | _ :: _, [] => false
  | x :: a', y :: b' =>
      if nat_of_ascii x <? nat_of_ascii y then true
      else if nat_of_ascii y <? nat_of_ascii x then false
      else str_ltb a' b'
  end.
Definition str_leb (a b : str) : bool := negb (str_ltb b a).

(* lexicographic order on tuples of str (Python tuple comparison) *)
Fixpoint strs_ltb (a b : list str) : bool :=
  match a, b with
  | [], [] => false
  | [], _ :: _ => true
  | _ :: _, [] => false
  | x :: a', y :: b' =>
      if str_ltb x y then true else if str_ltb y x then false else strs_ltb a' b'
  end.

Section Sort.
  Context {A : Type}.
  Variable ltb : A -> A -> bool.
  (* stable insertion: x goes before the first element that is strictly greater *)
  Fixpoint insert (x : A) (l : list A) : list A :=
    match l with
    | [] => [x]
    | y :: t => if ltb x y then x :: l else y :: insert x t
    end.
  Definition sort (l : list A) : list A := fold_left (fun acc x => insert x acc) l [].
End Sort.

Definition sort_strs (l : list str) : list str := sort str_ltb l.
Definition sort_by_key {B} (l : list (str * B)) : list (str * B) :=
  sort (fun a b => str_ltb (fst a) (fst b)) l.

(* set(...) on a list: keep first occurrences *)
Fixpoint dedup_aux (seen l : list str) : list str :=
  match l with
  | [] => []
  | x :: t => if mem_str x seen then dedup_aux seen t else x :: dedup_aux (x :: seen) t
  end.
Definition dedup (l : list str) : list str := dedup_aux [] l.

Definition subset_str (a b : list str) : bool := forallb (fun x => mem_str x b) a.
Definition seteq_str (a b : list str) : bool := subset_str a b && subset_str b a.
Fixpoint nodup_strb (l : list str) : bool :=
  match l with [] => true | x :: t => negb (mem_str x t) && nodup_strb t end.
Definition inter_str (a b : list str) : list str := filter (fun x => mem_str x b) a.
Definition diff_str (a b : list str) : list str := filter (fun x => negb (mem_str x b)) a.
Definition union_str (a b : list str) : list str := a ++ diff_str b a.
