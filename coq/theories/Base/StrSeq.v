(* Python's `<=` on ASCII str and sorted() on lists of str (insertion sort; stable); own copy of C06/C05 (Base/StrOrd.v belongs to another property).  Definitions only. *)
From Verif Require Import Base.Prelude.

Fixpoint str_leb (a b : str) : bool :=
  match a, b with
  | [], _ => true
  | _ :: _, [] => false
  | x :: a', y :: b' =>
      let nx := nat_of_ascii x in
      let ny := nat_of_ascii y in
      if nx <? ny then true else if ny <? nx then false else str_leb a' b'
  end.

Fixpoint insert_by {A} (le : A -> A -> bool) (x : A) (l : list A) : list A :=
  match l with
  | [] => [x]
  | y :: t => if le x y then x :: l else y :: insert_by le x t
  end.

Definition sort_by {A} (le : A -> A -> bool) (l : list A) : list A := fold_right (insert_by le) [] l.

Definition sort_str (l : list str) : list str := sort_by str_leb l.

(* sorted, duplicate-free list of strings *)
Fixpoint dedup_sorted (l : list str) : list str :=
  match l with
  | [] => []
  | x :: t => match t with
              | y :: _ => if str_eqb x y then dedup_sorted t else x :: dedup_sorted t
              | [] => [x]
              end
  end.
