(* ASCII fragment of the Python str methods used by the modelled code. *)
From Verif Require Import Base.Prelude.

Definition code (c : ascii) : nat := nat_of_ascii c.
Definition is_digit (c : ascii) : bool := (48 <=? code c) && (code c <=? 57).
Definition is_alpha_ (c : ascii) : bool :=
  ((65 <=? code c) && (code c <=? 90)) || ((97 <=? code c) && (code c <=? 122)) || (code c =? 95).
(* regex \w on ASCII *)
Definition is_word (c : ascii) : bool := is_alpha_ c || is_digit c.
(* str.isspace on ASCII: \t \n \v \f \r, FS GS RS US, space *)
Definition is_space (c : ascii) : bool :=
  ((9 <=? code c) && (code c <=? 13)) || ((28 <=? code c) && (code c <=? 32)).

(* str.isidentifier on ASCII strings *)
Definition is_ident (x : str) : bool :=
  match x with
  | [] => false
  | c :: t => is_alpha_ c && forallb is_word t
  end.

Fixpoint lstrip (x : str) : str :=
  match x with
  | [] => []
  | c :: t => if is_space c then lstrip t else x
  end.
Definition strip (x : str) : str := rev (lstrip (rev (lstrip x))).

Fixpoint mem_char (c : ascii) (x : str) : bool :=
  match x with [] => false | d :: t => Ascii.eqb c d || mem_char c t end.

(* x.split(c) for a one-character separator *)
Fixpoint split_char (c : ascii) (x : str) : list str :=
  match x with
  | [] => [[]]
  | d :: t =>
      if Ascii.eqb c d then [] :: split_char c t
      else match split_char c t with
           | h :: r => (d :: h) :: r
           | [] => [[d]]
           end
  end.

(* x.split("->") *)
Fixpoint split_arrow (x : str) : list str :=
  match x with
  | [] => [[]]
  | "-"%char :: (">"%char :: t') => [] :: split_arrow t'
  | d :: t =>
      match split_arrow t with
      | h :: r => (d :: h) :: r
      | [] => [[d]]
      end
  end.

(* x.split(".", 1) when "." in x: (before first dot, after) *)
Fixpoint split_first (c : ascii) (x : str) : option (str * str) :=
  match x with
  | [] => None
  | d :: t =>
      if Ascii.eqb c d then Some ([], t)
      else match split_first c t with
           | Some (a, b) => Some (d :: a, b)
           | None => None
           end
  end.

Fixpoint join (sep : str) (l : list str) : str :=
  match l with
  | [] => []
  | [x] => x
  | x :: t => x ++ sep ++ join sep t
  end.

(* span p x = (longest prefix satisfying p, rest) *)
Fixpoint span (p : ascii -> bool) (x : str) : str * str :=
  match x with
  | [] => ([], [])
  | c :: t => if p c then let (a, b) := span p t in (c :: a, b) else ([], x)
  end.
