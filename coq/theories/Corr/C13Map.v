(* C13, Pipeline.map / map_async part: model observation and executable statement.
   spec_ok is written from the property text against the call log, the dependency depth of the functions and the
   denotation of the request (Model/MapDenote.v, the specification of C01); it never calls FailingMap.map_run_f. *)
From Verif Require Import Base.Prelude Base.StrUtil Base.Index Base.NdArr Model.MapSpec Model.MapSpecSpec
  Model.MapRun Model.MapDenote Model.SymBody Model.FailingMap.

Definition sx_strs (l : list str) : sx := SL (map SS l).
Definition sx_kws (d : list (str * str)) : sx := SL (map (fun kv => SL [SS (fst kv); SS (snd kv)]) d).
Definition sx_exn (e : exn) : sx := SL [SS (cls e); SL (map SS (eargs e))].
Definition sx_raised (e : exn) : sx := SL [SS (s "raised"); SS (cls e); SL (map SS (eargs e))].
Definition sx_no_note : sx := SL [SS (s "notes"); SI 0%Z].
Definition sx_nosnap : sx := SL [SS (s "nosnap")].
Definition bad_case : sx := SL [SS (s "bad-case")].
Definition sx_val (v : val) : sx :=
  match v with
  | VS x => SL [SS (s "val"); SS x]
  | VA a => SL [SS (s "arr"); SL (map SN (shp a)); SL (map SS (dat a))]
  end.
Definition canon_kws (kw : env) : list (str * str) := map (fun pv => (fst pv, canon (snd pv))) kw.

(* insertion sort of strings / of key-value pairs by key (sorted(...) of the harness) *)
Fixpoint sltb (a b : str) : bool :=
  match a, b with
  | [], [] => false
  | [], _ :: _ => true
  | _ :: _, [] => false
  | x :: a', y :: b' =>
      if nat_of_ascii x <? nat_of_ascii y then true
      else if nat_of_ascii y <? nat_of_ascii x then false
      else sltb a' b'
  end.
Fixpoint ins_by {A} (key : A -> str) (x : A) (l : list A) : list A :=
  match l with
  | [] => [x]
  | y :: t => if sltb (key x) (key y) then x :: l else y :: ins_by key x t
  end.
Definition sort_by {A} (key : A -> str) (l : list A) : list A := fold_left (fun acc x => ins_by key x acc) l [].

(* the structural user function of harness/failsym.py MapFunc: the invocation whose call string is tgt raises e *)
Definition mfail_body (tgt : str) (e : exn) : mfunc -> env -> outcome (list val) :=
  fun f kw => if str_eqb (sym_app f kw) tgt then Raised e
              else match sym_body f kw with Ok outs => Done outs | Err _ => Done [] end.

(* ---------- generations from the meaning: depth in the dependency DAG ---------- *)
Definition producer_of (fs : list mfunc) (n : str) : option mfunc := find (fun g => mem_str n (fouts g)) fs.
Definition dep_params (f : mfunc) : list str :=
  filter (fun p => negb (mem_str p (map fst (fbound f)))) (fparams f).
Fixpoint depth (fuel : nat) (fs : list mfunc) (f : mfunc) : nat :=
  match fuel with
  | O => O
  | S n => fold_right Nat.max O
             (map (fun p => match producer_of fs p with Some g => S (depth n fs g) | None => O end) (dep_params f))
  end.
Definition depth_of (fs : list mfunc) (f : mfunc) : nat := depth (length fs) fs f.
Definition func_named (fs : list mfunc) (n : str) : option mfunc := find (fun f => str_eqb (fname f) n) fs.
Definition call_fname (c : str) : str := fst (span (fun ch => negb (Ascii.eqb ch "("%char)) c).
Definition call_depth (fs : list mfunc) (c : str) : nat :=
  match func_named fs (call_fname c) with Some f => depth_of fs f | None => O end.

(* the generation lists handed to the model must be THE layering by depth (the order inside a layer is free) *)
Fixpoint gens_ok_from (k : nat) (fs : list mfunc) (gens : list (list mfunc)) : bool :=
  match gens with
  | [] => true
  | g :: t => negb (match g with [] => true | _ => false end)
              && forallb (fun f => depth_of fs f =? k) g && gens_ok_from (S k) fs t
  end.
Definition nodup_names (l : list str) : bool :=
  (fix go (l : list str) := match l with [] => true | x :: t => negb (mem_str x t) && go t end) l.
Definition gens_ok (gens : list (list mfunc)) : bool :=
  let fs := concat gens in
  gens_ok_from 0 fs gens && nodup_names (map fname fs) && nodup_names (flat_map fouts fs).

(* ---------- model observation: [result; note; call log; snapshot; store] ---------- *)
Definition sx_stored (x : stored) : sx :=
  match x with
  | SArr sh _ st => sx_val (VA (sto_array sh st))
  | SVal (Some v) => sx_val v
  | SVal None => SNone
  end.

Definition map_run (gens : list (list mfunc)) (inputs : env) (user : shape_dict)
           (dump_sub par inproc : bool) (tgt : str) (e : exn) : sx :=
  if negb (gens_ok gens) then bad_case else
  let b := mfail_body tgt e in
  let '(st, _, fl) := map_run_f b dump_sub (negb par) gens inputs user in
  SL [ match fl with
       | None => SL [SS (s "ok")]
       | Some (FailUser x _) => sx_raised x
       | Some (FailLib x) => SErr x
       end;
       match fl with
       | Some (FailUser _ c) => SL [SS (s "note"); SS (fname (fst c)); sx_kws (canon_kws (snd c))]
       | _ => sx_no_note
       end;
       (let lg := map (fun c => sym_app (fst c) (snd c)) (m_log st) in
        sx_strs (if par then sort_by (fun x => x) lg else lg));
       match (if inproc then map_snapshot fl else None) with
       | Some sn =>
           let r := match mreproduce b sn with Raised x => sx_exn x | Done _ => SL [SS (s "returned")] end in
           SL [SS (s "snap"); SS (fname (fst (fst sn))); sx_kws (sort_by fst (canon_kws (snd (fst sn))));
               sx_exn (snd sn); r; r]
       | None => sx_nosnap
       end;
       SL (map (fun ov => SL [SS (fst ov); sx_stored (snd ov)]) (m_store st)) ].

(* ------------------------------------------------------------------ the executable statement *)
Fixpoint optM {A B} (f : A -> option B) (l : list A) : option (list B) :=
  match l with
  | [] => Some []
  | x :: t => match f x, optM f t with Some y, Some ys => Some (y :: ys) | _, _ => None end
  end.
Definition un_str (x : sx) : option str := match x with SS v => Some v | _ => None end.
Definition un_strs (x : sx) : option (list str) := match x with SL l => optM un_str l | _ => None end.
Definition un_pair (x : sx) : option (str * str) := match x with SL [SS k; SS v] => Some (k, v) | _ => None end.
Definition un_kws (x : sx) : option (list (str * str)) := match x with SL l => optM un_pair l | _ => None end.

(* the kwargs listed (any order) are one value per parameter of f and render to the call string tgt *)
Definition kws_are (f : mfunc) (kws : sx) (tgt : str) : bool :=
  match un_kws kws with
  | None => false
  | Some d =>
      (length d =? length (fparams f)) && nodup_names (map fst d)
      && match optM (fun p => option_map (fun v => p ++ s "=" ++ v) (dict_get d p)) (fparams f) with
         | Some items => str_eqb (fname f ++ s "(" ++ join (s ",") items ++ s ")") tgt
         | None => false
         end
  end.

Definition note_ok (f : mfunc) (nt : sx) (tgt : str) : bool :=
  match nt with
  | SL [SS t; SS n; kws] => str_eqb t (s "note") && str_eqb n (fname f) && kws_are f kws tgt
  | _ => false
  end.

Definition snap_ok (f : mfunc) (sn : sx) (tgt : str) (e : exn) : bool :=
  match sn with
  | SL [SS t; SS n; kws; ex; r1; r2] =>
      str_eqb t (s "snap") && str_eqb n (fname f) && kws_are f kws tgt
      && sx_eqb ex (sx_exn e) && sx_eqb r1 (sx_exn e) && sx_eqb r2 (sx_exn e)
  | _ => false
  end.

Fixpoint before_first (x : str) (l : list str) : list str :=
  match l with
  | [] => []
  | y :: t => if str_eqb x y then [] else y :: before_first x t
  end.
Fixpoint last_str (l : list str) : option str :=
  match l with [] => None | [x] => Some x | _ :: t => last_str t end.

(* "results completed before the failure remain loadable": `done` = the invocations that completed before the
   failure.  For every function g with k >= 1 of them: a function without MapSpec inputs has its value stored; a
   mapped function has at least k * (elements per invocation) elements stored; and no stored element differs from
   the denotation of the request (what the run without failure stores, C01). *)
Definition masked_str : str := s "--".
Definition arr_consistent (got want : list str) : bool :=
  (length got =? length want)
  && forallb (fun gw => str_eqb (fst gw) masked_str || str_eqb (fst gw) (snd gw)) (combine got want).
Definition count_present (got : list str) : nat := length (filter (fun x => negb (str_eqb x masked_str)) got).

Definition out_ok (store : list (str * sx)) (want : val) (mapped : bool) (isz k : nat) (o : str) : bool :=
  match dict_get store o with
  | None => false
  | Some got =>
      if mapped then
        match got, want with
        | SL [SS t; SL gsh; SL gd], VA a =>
            str_eqb t (s "arr") && sx_eqb (SL gsh) (SL (map SN (shp a)))
            && match optM un_str gd with
               | Some g => arr_consistent g (dat a) && (k * isz <=? count_present g)
               | None => false
               end
        | _, _ => false
        end
      else if 0 <? k then sx_eqb got (sx_val want) else true
  end.

Definition store_ok (fs : list mfunc) (shapes : shapes_t) (want : list (str * val)) (done : list str) (store : sx) : bool :=
  match store with
  | SL items =>
      match optM (fun x => match x with SL [SS o; v] => Some (o, v) | _ => None end) items with
      | None => false
      | Some st =>
          forallb (fun g =>
                     let k := length (filter (fun c => str_eqb (call_fname c) (fname g)) done) in
                     forallb (fun o =>
                                match dict_get want o with
                                | None => false
                                | Some w =>
                                    let isz := match dict_get shapes o with
                                               | Some (sh, mask) => prod (int_of mask sh)
                                               | None => 1 end in
                                    out_ok st w (is_mapped g) isz k o
                                end) (fouts g)) fs
      end
  | _ => false
  end.

(* with_store = true: the executable statement; with_store = false: the same statement WITHOUT its last conjunct
   ("results completed before the failure remain loadable", judged against the denotation of C01), i.e. the part
   about the exception, its annotation, the generations, the snapshot -- the part for which the capstone
   spec_ok (run c) = true is proved in Proofs/C13MapCap.v *)
Definition map_judge (with_store : bool) (gens : list (list mfunc)) (inputs : env) (user : shape_dict)
           (dump_sub par inproc : bool) (tgt : str) (e : exn) (obs : sx) : bool :=
  if negb (gens_ok gens) then true else
  let fs := concat gens in
  if negb (request_ok fs inputs) then true else
  match obs with
  | SL [res; nt; lg; sn; store] =>
      match un_strs lg with
      | None => false
      | Some lg =>
          if negb (mem_str tgt lg) then true             (* no user function raised: nothing is claimed *)
          else
            match func_named fs (call_fname tgt) with
            | None => false
            | Some f =>
                let d := depth_of fs f in
                sx_eqb res (sx_raised e)                                        (* same type and message *)
                && (if inproc then note_ok f nt tgt else true)                   (* annotated (not across pickling) *)
                && forallb (fun c => call_depth fs c <=? d) lg                   (* no later generation *)
                && (if par then true else opt_eqb str_eqb (last_str lg) (Some tgt))  (* sequential: stops there *)
                && (if inproc then snap_ok f sn tgt e else true)                 (* ErrorSnapshot, in-process only *)
                && (if with_store then
                      match denote_run sym_body fs inputs user, all_shapes user inputs fs with
                      | Ok den, Ok shapes =>
                          let done := if par then filter (fun c => call_depth fs c <? d) lg
                                      else before_first tgt lg in
                          store_ok fs shapes (d_out den) done store
                      | _, _ => true
                      end
                    else true)
            end
      end
  | _ => false                                          (* includes the Timeout observation: the call must return *)
  end.

Definition map_spec_ok := map_judge true.
Definition map_head_ok := map_judge false.
