(* C13, pipeline(...) / Pipeline.run / Pipeline.func(o)(...) part: model observation and executable statement.
   spec_ok is written from the property text; it never calls Failing.run_f / Pipe.run. *)
From Verif Require Import Base.Prelude Base.StrOrd Base.Graph Base.StrUtil Model.Pipe Model.Failing Corr.PipeObs.

Definition sx_exn (e : exn) : sx := SL [SS (cls e); SL (map SS (eargs e))].
Definition sx_raised (e : exn) : sx := SL [SS (s "raised"); SS (cls e); SL (map SS (eargs e))].
Definition sx_no_note : sx := SL [SS (s "notes"); SI 0%Z].
Definition sx_note (n : str) (kws : alist) : sx := SL [SS (s "note"); SS n; sx_alist kws].
Definition sx_nosnap : sx := SL [SS (s "nosnap")].
Definition sx_repro {A} (r : Exn.outcome A) : sx :=
  match r with Raised e => sx_exn e | Done _ => SL [SS (s "returned")] end.

Definition sx_pipe_outcome (x : Pipe.outcome) : sx :=
  match x with Value v => SS v | Full d => sx_sorted_dict d end.

(* observation: [result; note; call log; snapshot] *)
Definition pipe_run (p : pipeline) (o : str) (kw : alist) (full : bool) (tgt : str) (e : exn) : sx :=
  if negb (wf_pipelineb p) then bad_case else
  let b := fail_body tgt e in
  let '(r, lg) := run_f b Sym.pick p o kw full in
  SL [ match r with
       | FOk v => SL [SS (s "ok"); sx_pipe_outcome v]
       | FRaised x _ => sx_raised x
       | FErr x => SErr x
       end;
       match r with FRaised _ n => sx_note (fst n) (snd n) | _ => sx_no_note end;
       sx_log lg;
       match run_snapshot b Sym.pick p o kw full with
       | Some sn => SL [SS (s "snap"); SS (sn_fname sn); sx_sorted_dict (sn_kwargs sn); sx_exn (sn_exn sn);
                        sx_repro (reproduce b sn); sx_repro (reproduce b sn)]
       | None => sx_nosnap
       end ].

(* ------------------------------------------------------------------ the executable statement *)
(* the function name of a call string  name(...)  *)
Definition call_fname (c : str) : str := fst (span (fun ch => negb (Ascii.eqb ch "("%char)) c).

Definition is_raised (res : sx) (e : exn) : bool := sx_eqb res (sx_raised e).

(* d lists one value per parameter of f, keyed by the parameters' current names or by their original names (the
   property does not say which), and these are the values of the invocation whose call string is tgt *)
Definition kwargs_by (key : str * str -> str) (f : pfunc) (d : alist) (tgt : str) : bool :=
  match optM (fun po : str * str => option_map (fun v => (snd po, v)) (aget d (key po))) (params f) with
  | Some args => str_eqb (Sym.app (fname f) args) tgt
  | None => false
  end.
Definition kwargs_are (f : pfunc) (d : alist) (tgt : str) : bool :=
  kwargs_by fst f d tgt || kwargs_by snd f d tgt.

(* the note names the failing function and carries exactly the keyword arguments of the failing invocation:
   one value per parameter (any order), the values of the invocation `tgt` *)
Definition note_ok (f : pfunc) (nt : sx) (tgt : str) : bool :=
  match nt with
  | SL [SS t; SS n; kws] =>
      str_eqb t (s "note") && str_eqb n (fname f)
      && match un_alist kws with
         | None => false
         | Some d =>
             (length d =? length (params f)) && nodup_strb (akeys d) && kwargs_are f d tgt
         end
  | _ => false
  end.

(* the snapshot: function = the failing one, kwargs = those of the failing invocation, the stored
   exception and both reproduce() outcomes (before / after save_to_file + load_from_file) = the exception raised *)
Definition snap_ok (f : pfunc) (sn : sx) (tgt : str) (e : exn) : bool :=
  match sn with
  | SL [SS t; SS n; kws; ex; r1; r2] =>
      str_eqb t (s "snap") && str_eqb n (fname f)
      && match un_alist kws with
         | None => false
         | Some d =>
             (length d =? length (params f)) && nodup_strb (akeys d) && kwargs_are f d tgt
         end
      && sx_eqb ex (sx_exn e) && sx_eqb r1 (sx_exn e) && sx_eqb r2 (sx_exn e)
  | _ => false
  end.

Definition count_str (x : str) (l : list str) : nat := length (filter (str_eqb x) l).

Definition pipe_spec_ok (p : pipeline) (o : str) (kw : alist) (full : bool) (tgt : str) (e : exn) (obs : sx) : bool :=
  if negb (wf_pipelineb p) then true else
  match obs with
  | SL [res; nt; lg; sn] =>
      match un_strs lg with
      | None => false
      | Some lg =>
          if negb (mem_str tgt lg) then true           (* no user function raised: nothing is claimed *)
          else
            match func_named p (call_fname tgt) with
            | None => false
            | Some f =>
                is_raised res e                        (* same type and message *)
                && note_ok f nt tgt                    (* annotated: function name + kwargs of that invocation *)
                && opt_eqb str_eqb (last_opt lg) (Some tgt)            (* nothing is invoked afterwards ... *)
                && (count_str (fname f) (map call_fname lg) =? 1)      (* ... and the function ran once *)
                && snap_ok f sn tgt e                  (* in-process: ErrorSnapshot, reproduce, save/load *)
            end
      end
  | _ => false                                          (* includes the Timeout observation: the call must return *)
  end.
