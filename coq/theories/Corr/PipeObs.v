(* Encoding / decoding of pipeline observations as sx, shared by Run_C02 / Run_C18 / Run_C11. *)
From Verif Require Import Base.Prelude Base.StrOrd Base.Graph Model.Pipe.

Definition sx_strs (l : list str) : sx := SL (map SS l).
Definition sx_alist (d : alist) : sx := SL (map (fun kv => SL [SS (fst kv); SS (snd kv)]) d).
Definition sx_sorted_dict (d : alist) : sx := sx_alist (sort_by_key d).
Definition sx_log (l : list call) : sx := sx_strs (map Sym.show_call l).
Definition bad_case : sx := SL [SS (s "bad-case")].

Fixpoint optM {A B} (f : A -> option B) (l : list A) : option (list B) :=
  match l with
  | [] => Some []
  | x :: t => match f x, optM f t with Some y, Some ys => Some (y :: ys) | _, _ => None end
  end.
Definition un_ok (o : sx) : option sx :=
  match o with SL [SS t; v] => if str_eqb t (s "ok") then Some v else None | _ => None end.
Definition un_str (x : sx) : option str := match x with SS v => Some v | _ => None end.
Definition un_strs (x : sx) : option (list str) := match x with SL l => optM un_str l | _ => None end.
Definition un_pair (x : sx) : option (str * str) :=
  match x with SL [SS k; SS v] => Some (k, v) | _ => None end.
Definition un_alist (x : sx) : option alist := match x with SL l => optM un_pair l | _ => None end.
Definition un_strss (x : sx) : option (list (list str)) := match x with SL l => optM un_strs l | _ => None end.

(* position of x in l *)
Fixpoint index_of (x : str) (l : list str) : option nat :=
  match l with
  | [] => None
  | y :: t => if str_eqb x y then Some O else option_map S (index_of x t)
  end.
