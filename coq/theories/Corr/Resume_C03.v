(* C03 correspondence, runs on an existing store: the run folder is pre-filled by sequential runs with fixed_indices
   (Model/MapResume, sequential), then one more run (cleanup=False, optional fixed_indices) is executed under a
   schedule (Model/ParResume).  Kept in its own file because MapResume and ParGen use the same field names. *)
From Verif Require Import Base.Prelude Base.StrUtil Base.Index Base.NdArr Base.PyRange Base.StrSeq
  Model.MapSpec Model.MapRun Model.SymBody Model.MapResume Model.ParResume.

(* the call-log line of the structural functions: name(p=<canon>,...) *)
Definition app_str (fn : str) (kw : env) : str :=
  fn ++ s "(" ++ join (s ",") (map (fun pv => fst pv ++ s "=" ++ canon (snd pv)) kw) ++ s ")".
Definition call_strs (tr : list action) : list str :=
  flat_map (fun a => match a with ACall f _ kw => [app_str f kw] | _ => [] end) tr.

(* one integer per storage dump: 2 * (output position + 32 * (1 + linear external index)) *)
Definition dump_codes (out_pos : str -> nat) (tr : list action) : list Z :=
  flat_map (fun a => match a with
                     | ADump o pos _ => [(2 * (Z.of_nat (out_pos o) + 32 * (1 + Z.of_nat pos)))%Z]
                     | _ => [] end) tr.

Record resume_obs := {
  rv_outs : list (option (val * val * val));   (* per output: Result.output, stored, stored (= re-opened) *)
  rv_log : list str;                           (* calls of the resumed run, execution order *)
  rv_dumps : list Z;
  rv_prelog : list str                         (* calls of the pre-filling runs, sorted *)
}.

Section Model.
  Variable body : mfunc -> env -> result (list val).
  Variable dis : str -> bool.
  Variables (p : list mfunc) (gens : list (list mfunc)) (inputs : env) (user : shape_dict).

  Definition prefill (pre : list (option fixed)) : result (rstore * list str) :=
    fold_left (fun acc fx =>
                 do a <- acc;
                 match seq_run_sel body p gens inputs user fx (fst a) with
                 | ROk ps => Ok (p_store ps, snd a ++ call_strs (p_tr ps))
                 | RErr e _ => Err e
                 end) pre (Ok (empty_store, [])).

  (* the folder after a FAILED sequential run (parallel=False) with storages that dump inside the task
     (dump_in_subprocess: file_array, shared_memory_dict): exactly the dumps of the trace up to the failure; the
     elements before the failing one are kept, single outputs of completed generations are on disk, the rest is
     missing.  (Memory-based storages are persisted also when the map fails.) *)
  Definition store_of_trace (c : ctx) (tr : list action) : rstore :=
    fold_left (fun rs a =>
                 match a with
                 | ADump o pos v =>
                     match producer (x_p c) o with
                     | Some f => match shape_of c f with
                                 | Ok sm => let n := prod (ext_of (snd sm) (fst sm)) in
                                            set_arr rs o (upd (get_arr rs o n) pos (Some (Ok v)))
                                 | Err _ => rs
                                 end
                     | None => rs
                     end
                 | ADumpSingle o v => set_val rs o v
                 | ACall _ _ _ => rs
                 end) tr empty_store.

  (* pre-filling by ONE full sequential run in which the user functions behave as body_pre (some calls raise) *)
  Definition prefill_failing (body_pre : mfunc -> env -> result (list val)) : result (rstore * list str) :=
    do shapes <- all_shapes user inputs p;
    let c := {| x_p := p; x_inputs := inputs; x_shapes := shapes |} in
    match seq_run_sel body_pre p gens inputs user None empty_store with
    | ROk ps => Ok (p_store ps, call_strs (p_tr ps))
    | RErr _ tr => Ok (store_of_trace c tr, call_strs tr)
    end.

  Definition resume_model (out_pos : str -> nat) (body_pre : option (mfunc -> env -> result (list val)))
             (pre : list (option fixed)) (fx : option fixed)
             (pis : list (list nat)) : result resume_obs :=
    do a <- match body_pre with Some b => prefill_failing b | None => prefill pre end;
    do ps <- par_run_sel body dis p gens inputs user fx (fst a) pis;
    do shapes <- all_shapes user inputs p;
    let c := {| x_p := p; x_inputs := inputs; x_shapes := shapes |} in
    do views <- mapM (stored_view c (p_store ps)) p;
    Ok {| rv_outs := map (fun ov : str * val =>
                            match dict_get (p_out ps) (fst ov) with
                            | Some v => Some (v, snd ov, snd ov)
                            | None => None
                            end) (concat views);
          rv_log := call_strs (p_tr ps);
          rv_dumps := dump_codes out_pos (p_tr ps);
          rv_prelog := sort_str (snd a) |}.
End Model.
