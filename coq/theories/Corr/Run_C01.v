(* C01 correspondence: a map request, the model's run, and the executable statement (denotation). *)
From Verif Require Export Base.Prelude Base.StrUtil Base.Index Base.NdArr Model.MapSpec Model.MapSpecSpec
  Model.MapRun Model.MapDenote Model.SymBody.

Record case := { c_funcs : list mfunc; c_inputs : env; c_internal : shape_dict }.

Definition sx_val (v : val) : sx :=
  match v with
  | VS x => SL [SS (s "val"); SS x]
  | VA a => SL [SS (s "arr"); SL (map SN (shp a)); SL (map SS (dat a))]
  end.

(* observation: ok [ [name; Result.output; stored] ... ; number of calls ]  |  err class *)
Definition run (c : case) : sx :=
  match map_run sym_body (c_funcs c) (c_inputs c) (c_internal c) with
  | Ok st => SL [SS (s "ok");
                 SL (map (fun x => SL [SS (fst (fst x)); sx_val (snd (fst x)); sx_val (snd x)]) (r_out st));
                 SN (r_calls st)]
  | Err e => SErr e
  end.

Definition expected (c : case) : result sx :=
  do d <- denote_run sym_body (c_funcs c) (c_inputs c) (c_internal c);
  Ok (SL (map (fun x => SL [SS (fst x); sx_val (snd x); sx_val (snd x)]) (d_out d))).

(* The property: a valid request (well-formed and with a defined denotation) is answered with exactly the
   denoted arrays, both as returned and as stored; nothing is demanded of invalid requests (C12's business). *)
Definition spec_ok (c : case) (o : sx) : bool :=
  if negb (request_ok (c_funcs c) (c_inputs c)) then true else
  match expected c with
  | Err _ => true
  | Ok want =>
      match o with
      | SL [SS t; got; SI _] => str_eqb t (s "ok") && sx_eqb got want
      | _ => false
      end
  end.
