(* C01 correspondence, extended case type.
     CReq c          an explicit request (every MapSpec written out): Corr/Run_C01.v, unchanged
     CAuto c order aslist
                     c_funcs c is the USER-LEVEL list (in a topological order): producers of arrays may have no MapSpec
                     although consumers index their outputs.  `order` is the order in which the functions are handed to
                     Pipeline([...]) (a permutation of the positions).  The model constructs the pipeline itself
                     (Model/AutoGen.construct), reports the MapSpec of every function of the constructed pipeline
                     (structured and as str(f.mapspec)), applies the input validations of Pipeline.map
                     (Model/MapPrepare.prepare_checks; `aslist` = names of the inputs passed as Python lists) and runs
                     the map on the effective list.  The inputs need not conform (missing / surplus / list of rank 2).
                     `wrapped` = names of the functions whose element values are PAIRS (tuple / list / 1-d ndarray,
                     Model/SymBody.sym_body_w); [] = the plain structural functions. *)
From Verif Require Export Corr.Run_C01 Model.AutoGen Model.AutoGenSpec Model.MapPrepare.

Inductive case :=
| CReq (c : Run_C01.case)
| CAuto (c : Run_C01.case) (order : list nat) (aslist : list str) (wrapped : list str).

(* ---------- observation of a MapSpec ---------- *)
Definition sx_axis (a : option str) : sx := match a with Some x => SS x | None => SNone end.
Definition sx_aspec (a : aspec) : sx := SL [SS (aname a); SL (map sx_axis (axes a))].
Definition sx_spec (sp : option mapspec) : sx :=
  match sp with
  | None => SNone
  | Some m => SL [SS (print m); SL (map sx_aspec (ins m)); SL (map sx_aspec (outs m))]
  end.

Definition un_axis (x : sx) : option (option str) :=
  match x with
  | SS n => Some (Some n)
  | SL [SS _] => Some None
  | _ => None
  end.
Fixpoint un_list {A} (f : sx -> option A) (l : list sx) : option (list A) :=
  match l with
  | [] => Some []
  | x :: t => match f x, un_list f t with Some y, Some ys => Some (y :: ys) | _, _ => None end
  end.
Definition un_aspec (x : sx) : option aspec :=
  match x with
  | SL [SS n; SL ax] => option_map (fun a => {| aname := n; axes := a |}) (un_list un_axis ax)
  | _ => None
  end.
Definition un_spec (x : sx) : option (option mapspec) :=
  match x with
  | SL [SS _] => Some None
  | SL [SS _; SL i; SL o] =>
      match un_list un_aspec i, un_list un_aspec o with
      | Some i', Some o' => Some (Some {| ins := i'; outs := o' |})
      | _, _ => None
      end
  | _ => None
  end.

(* ---------- plumbing shared by the model's run and the statement ---------- *)
Definition permuted (fs : list mfunc) (order : list nat) : list mfunc :=
  flat_map (fun i => match nth_error fs i with Some f => [f] | None => [] end) order.

Fixpoint set_specs (fs : list mfunc) (specs : list (option mapspec)) : list mfunc :=
  match fs, specs with
  | f :: fs', sp :: specs' => set_spec f sp :: set_specs fs' specs'
  | _, _ => fs
  end.

(* the functions of `fs` (run order) with the MapSpecs that `effp` (construction order) carries, matched by name *)
Definition reorder (fs effp : list mfunc) : list mfunc :=
  map (fun f => match find (fun g => str_eqb (fname g) (fname f)) effp with
                | Some g => set_spec f (fspec g)
                | None => f end) fs.

Definition mkreq (c : Run_C01.case) (fs : list mfunc) : Run_C01.case :=
  {| c_funcs := fs; c_inputs := c_inputs c; c_internal := c_internal c |}.

(* Run_C01.run / expected / spec_ok for an arbitrary user-function oracle *)
Definition run_b (body : mfunc -> env -> result (list val)) (c : Run_C01.case) : sx :=
  match map_run body (c_funcs c) (c_inputs c) (c_internal c) with
  | Ok st => SL [SS (s "ok");
                 SL (map (fun x => SL [SS (fst (fst x)); sx_val (snd (fst x)); sx_val (snd x)]) (r_out st));
                 SN (r_calls st)]
  | Err e => SErr e
  end.

Definition expected_b (body : mfunc -> env -> result (list val)) (c : Run_C01.case) : result sx :=
  do d <- denote_run body (c_funcs c) (c_inputs c) (c_internal c);
  Ok (SL (map (fun x => SL [SS (fst x); sx_val (snd x); sx_val (snd x)]) (d_out d))).

Definition spec_ok_b (body : mfunc -> env -> result (list val)) (c : Run_C01.case) (o : sx) : bool :=
  if negb (request_ok (c_funcs c) (c_inputs c)) then true else
  match expected_b body c with
  | Err _ => true
  | Ok want =>
      match o with
      | SL [SS t; got; SI _] => str_eqb t (s "ok") && sx_eqb got want
      | _ => false
      end
  end.

(* the structural user functions of a CAuto case *)
Definition body_of (c : Run_C01.case) (wrapped : list str) : mfunc -> env -> result (list val) :=
  sym_body_w wrapped (flat_map fouts (filter (fun f => mem_str (fname f) wrapped) (c_funcs c))).

(* observation of CAuto:  err class  (construction failed)
                       |  ["maperr"; err; specs]   (map failed)
                       |  ["ok"; outputs; calls; specs] *)
Definition run (c : case) : sx :=
  match c with
  | CReq c => Run_C01.run c
  | CAuto c order aslist wrapped =>
      match construct (permuted (c_funcs c) order) with
      | Err e => SErr e
      | Ok effp =>
          let specs := SL (map (fun f => sx_spec (fspec f)) effp) in
          let eff := reorder (c_funcs c) effp in
          match prepare_checks eff (c_inputs c) aslist with
          | Err e => SL [SS (s "maperr"); SErr e; specs]
          | Ok _ =>
              match run_b (body_of c wrapped) (mkreq c eff) with
              | SL [SS t; outs; calls] => SL [SS t; outs; calls; specs]
              | e => SL [SS (s "maperr"); e; specs]
              end
          end
      end
  end.

(* When must the CONSTRUCTION succeed?  The list handed to Pipeline is completable (Model/AutoGenSpec.v) and none of
   the other construction-time validations of pipefunc (C12) can object: plain identifiers, no output among the own
   parameters, bound names are parameters, every function satisfies func_ok (MapSpec inputs are unbound parameters ...),
   no parameter carries defaults in two functions, and c_funcs is in a topological order (no cycle).
   Deliberately conservative: when in doubt nothing is demanded. *)
Fixpoint topo (fs : list mfunc) : bool :=
  match fs with
  | [] => true
  | f :: t => negb (intersects (fparams f) (flat_map fouts (f :: t))) && topo t
  end.

Definition constructible (c : Run_C01.case) (order : list nat) : bool :=
  completable (permuted (c_funcs c) order)
  && forallb (fun f => func_ok f
                       && forallb is_ident (fouts f ++ fparams f)
                       && negb (intersects (fouts f) (fparams f))
                       && forallb (fun b => mem_str (fst b) (fparams f)) (fbound f)
                       && forallb (fun b => mem_str (fst b) (fparams f)) (fdefaults f)) (c_funcs c)
  && nodup_str (flat_map (fun f => map fst (fdefaults f)) (c_funcs c))
  && topo (c_funcs c).

(* The statement for CAuto: the reported MapSpecs are an admissible completion of the user-level list
   (Model/AutoGenSpec.v), and with them the request is answered as C01 demands (Run_C01.spec_ok: the denotation of the
   effective list; a request that is valid with these MapSpecs is not refused by map) - provided the inputs conform
   (Model/MapPrepare.conforming); nothing is demanded for non-conforming inputs.
   A construction error is acceptable only when the list is not `constructible`. *)
Definition spec_ok (c : case) (o : sx) : bool :=
  match c with
  | CReq c => Run_C01.spec_ok c o
  | CAuto c order aslist wrapped =>
      let user := permuted (c_funcs c) order in
      let with_specs (specs : list sx) (k : Run_C01.case -> bool) : bool :=
        match un_list un_spec specs with
        | None => false
        | Some sps =>
            (length sps =? length user) && completion_ok user sps
            && let r := mkreq c (reorder (c_funcs c) (set_specs user sps)) in
               if conforming (c_funcs r) (c_inputs r) aslist then k r else true
        end in
      match o with
      | SL [SS t; outs; calls; SL specs] =>
          str_eqb t (s "ok") && with_specs specs (fun r => spec_ok_b (body_of c wrapped) r (SL [SS t; outs; calls]))
      | SL [SS t; e; SL specs] =>
          str_eqb t (s "maperr") && with_specs specs (fun r => spec_ok_b (body_of c wrapped) r e)
      | SL [SS t; SS _] => str_eqb t (s "err") && negb (constructible c order)
      | _ => false
      end
  end.
