(* C02 correspondence: case type, model observation `run`, executable statement `spec_ok`.
   spec_ok is written from the property text against `Pipe.eval` / `Pipe.needed` (the specification: plain
   recursion along the producer relation); it never calls `Pipe.run`. *)
From Verif Require Export Base.Prelude Base.StrOrd Base.Graph Model.Pipe Model.SymNone Corr.PipeObs.

Inductive case :=
| CRun (p : pipeline) (o : str) (kw : alist) (full : bool) (entry : nat)
    (* entry 0: pipeline(o, **kw)   1: pipeline.run(o, full_output=full, kwargs=kw)
             2: pipeline.func(o)(kw...) / .call_full_output(kw...)      (all three are Pipe.run) *)
| CArgs (p : pipeline) (o : str)                    (* arg_combinations(o) and root_args(o) *)
| CRootCall (p : pipeline) (o : str) (vals : list str)   (* func(o).call_with_root_args( *vals ) *)
| CGraph (g : graph).                               (* networkx agreement of Base/Graph.v *)

Definition body := SymN.body.
Definition pick := SymN.pick.

Definition sx_outcome (x : outcome) : sx :=
  match x with Value v => SS v | Full d => sx_sorted_dict d end.
Definition sx_run (r : result outcome * list call) : sx :=
  SL [sx_of_result sx_outcome (fst r); sx_log (snd r)].

Definition sx_layers (ls : list (list str)) : sx := SL (map (fun l => sx_strs (sort_strs l)) ls).
Definition run_graph (g : graph) : sx :=
  SL [ match topo_generations g with Some ls => SL [SS (s "ok"); sx_layers ls] | None => SS (s "cycle") end;
       SL (map (fun n => SL [SS n; sx_strs (sort_strs (descendants g n)); sx_strs (sort_strs (ancestors g n))])
               (nodes g)) ].

Definition run (c : case) : sx :=
  match c with
  | CRun p o kw full _ =>
      if wf_pipelineb p then sx_run (Pipe.run_checked body pick p o kw full) else bad_case
  | CArgs p o =>
      if wf_pipelineb p then
        SL [sx_of_result (fun cs => SL (map sx_strs cs)) (arg_combinations p o);
            sx_of_result sx_strs (root_args p o)]
      else bad_case
  | CRootCall p o vals =>
      if wf_pipelineb p then
        match root_args p o with
        | Err e => SL [SErr e; SL []]
        | Ok ra =>
            if length ra =? length vals then sx_run (Pipe.run_checked body pick p o (combine ra vals) false)
            else SL [SErr TypeError; SL []]
        end
      else bad_case
  | CGraph g => run_graph g
  end.

(* ------------------------------------------------------------------ the executable statement *)
Definition call_string (p : pipeline) (kw : alist) (f : pfunc) : option str :=
  match eval_args body pick p kw f with Ok a => Some (Sym.app (fname f) a) | Err _ => None end.

(* the call log: exactly the needed functions, each once, with the arguments of THE evaluation, every
   producer before its consumers *)
Definition log_ok (p : pipeline) (kw : alist) (o : str) (lg : list str) : bool :=
  let fs := needed_top p kw o in
  match optM (call_string p kw) fs with
  | None => false
  | Some expected =>
      nodup_strb lg && seteq_str lg expected
      && forallb (fun f =>
                    match call_string p kw f with
                    | None => false
                    | Some cf =>
                        forallb (fun g => match call_string p kw g with
                                          | None => false
                                          | Some cg => match index_of cg lg, index_of cf lg with
                                                       | Some i, Some j => i <? j
                                                       | _, _ => false
                                                       end
                                          end) (ups p kw f)
                    end) fs
  end.

(* full_output: every value of that same evaluation (supplied as supplied, computed as computed) *)
Definition full_ok (p : pipeline) (kw : alist) (o : str) (d : alist) : bool :=
  forallb (fun kv => match aget d (fst kv) with Some v => str_eqb v (snd kv) | None => false end) kw
  && forallb (fun f =>
                match eval_args body pick p kw f with
                | Err _ => false
                | Ok a =>
                    match body (fname f) a with
                    | Err _ => false
                    | Ok r => forallb (fun n => ahas kw n
                                                || match aget d n with
                                                   | Some v => str_eqb v (route pick f n r)
                                                   | None => false
                                                   end) (outs f)
                    end
                end) (needed_top p kw o).

Definition accepted_ok (p : pipeline) (o : str) (kw : alist) (full : bool) (res lg : sx) (v : str) : bool :=
  match un_ok res, un_strs lg with
  | Some r, Some l =>
      log_ok p kw o l
      && (if full then match un_alist r with Some d => full_ok p kw o d | None => false end
          else match r with SS v' => str_eqb v' v | _ => false end)
  | _, _ => false
  end.

Definition run_ok (p : pipeline) (o : str) (kw : alist) (full : bool) (obs : sx) : bool :=
  match obs with
  | SL [res; lg] =>
      if ahas kw o || negb (is_output p o) then true      (* not a request the property speaks about *)
      else
        match eval_top body pick p kw o with
        | Err _ => sx_is_err res                          (* a needed argument has no value *)
        | Ok v =>
            let ks := akeys kw in
            if negb (subset_str ks (param_names_needed p kw o)) then sx_is_err res   (* surplus keyword *)
            else if subset_str ks (kw_names_read p kw o) then accepted_ok p o kw full res lg v
            else (* a keyword that only names BOUND parameters of the needed functions: the property does not
                    say whether that is surplus; both outcomes are allowed *)
              sx_is_err res || accepted_ok p o kw full res lg v
        end
  | _ => false
  end.

(* fixed symbolic root values for judging argument combinations *)
Definition root_val (n : str) : str := s "v_" ++ n.
Definition combo_ok (p : pipeline) (o : str) (roots : list str) (c : list str) : bool :=
  let kw0 := map (fun n => (n, root_val n)) roots in
  match eval_top body pick p kw0 o with
  | Err _ => false
  | Ok v =>
      match optM (fun n => if is_output p n
                           then match eval_top body pick p kw0 n with Ok x => Some (n, x) | Err _ => None end
                           else Some (n, root_val n)) c with
      | None => false
      | Some kwc =>
          match eval_top body pick p kwc o with
          | Ok v' => str_eqb v v' && subset_str c (kw_names_read p kwc o)
          | Err _ => false
          end
      end
  end.

Definition args_ok (p : pipeline) (o : str) (obs : sx) : bool :=
  if negb (is_output p o) then true
  else match obs with
       | SL [cs; ra] =>
           match un_ok cs, un_ok ra with
           | Some csx, Some rax =>
               match un_strss csx, un_strs rax with
               | Some combos, Some roots =>
                   list_eqb str_eqb roots (spec_roots p o) && existsb (list_eqb str_eqb roots) combos
                   && forallb (combo_ok p o roots) combos
               | _, _ => false
               end
           | _, _ => false
           end
       | _ => false
       end.

Definition spec_ok (c : case) (obs : sx) : bool :=
  match c with
  | CRun p o kw full _ =>
      if wf_pipelineb p then run_ok p o kw full obs else true
  | CArgs p o => if wf_pipelineb p then args_ok p o obs else true
  | CRootCall p o vals =>
      if wf_pipelineb p && is_output p o then
        let ra := spec_roots p o in
        if length ra =? length vals then run_ok p o (combine ra vals) false obs else true
      else true
  | CGraph g => sx_eqb obs (run_graph g)      (* Graph.v is itself the reference here: pure agreement check *)
  end.
