(* C03 correspondence.  A case is one map request with the generation structure of the real pipeline and a LIST of
   runs; a run fixes one execution order per generation, the dump_in_subprocess flag of the storage chosen for every
   function, and how the run was observed.  The model's run (Model/ParGen.v) is evaluated for every run of the case;
   spec_ok is the executable statement of the property (results = denotation, every call exactly once, no call
   before the calls whose values it consumes), judged per run.
   To keep the literals small all strings of an observation are interned: the observation is
     [ sorted table of the distinct strings ; distinct output blocks ; [ run observation with indices ... ] ]. *)
From Verif Require Export Base.Prelude Base.StrUtil Base.Index Base.NdArr Base.PyRange Model.MapSpec Model.MapSpecSpec
  Model.MapRun Model.MapDenote Model.SymBody Model.ParGen.
From Verif Require Import Corr.Resume_C03.

Record runcfg := {
  r_pis : list (list nat);     (* execution order (permutation of the submission slots) per generation *)
  r_dis : list bool;           (* per function of q_funcs: StorageBase.dump_in_subprocess of its storage *)
  r_mode : nat                 (* 0: controlled executor (raw log and dump order);
                                  1: real thread pool (canonical log, sorted dumps); 2: process pool (no dumps) *)
}.

(* a run on an existing store: the folder is pre-filled by sequential runs (parallel=False, cleanup only for the
   first) with the fixed_indices of s_pre (None = a full run), then the observed run: cleanup=False,
   fixed_indices = s_fx, under the configuration s_cfg *)
Record rescfg := {
  s_pre : list (option (list (str * fsel)));
  s_fx : option (list (str * fsel));
  s_cfg : runcfg;
  s_prefail : list str         (* non-empty: the folder is instead pre-filled by ONE full sequential run in which
                                  these functions raise (ZeroDivisionError, rule code_mod3); they do not raise in the
                                  observed run; only with storages that dump inside the task *)
}.

Record case := {
  q_funcs : list mfunc;        (* in a topological order (the order in which outputs are observed) *)
  q_inputs : env;
  q_internal : shape_dict;
  q_gens : list (list nat);    (* generations as positions in q_funcs, in submission order *)
  q_runs : list runcfg;
  q_none : list str;           (* names of the functions that return a real None for some calls *)
  q_resume : list rescfg;      (* runs on a pre-filled run folder *)
  q_fail : list str            (* names of the functions that raise ZeroDivisionError for some calls *)
}.

(* the structural user function of the harness; a function listed in q_none returns None (canonical string "None")
   instead of a scalar value whose text has an even sum of character codes *)
Definition code_parity (x : str) : bool :=
  N.even (fold_left (fun acc ch => (acc + N_of_ascii ch)%N) x 0%N).
Definition none_value (ret : list nat) (base : str) : val :=
  match ret with
  | [] => if code_parity base then VS (s "None") else VS base
  | _ => sym_value ret base
  end.
Definition code_mod3 (x : str) : bool :=
  N.eqb (N.modulo (fold_left (fun acc ch => (acc + N_of_ascii ch)%N) x 0%N) 3) 0.
Definition case_body (c : case) (f : mfunc) (kw : env) : result (list val) :=
  (* a function listed in q_fail raises when the character codes of its call line sum to a multiple of 3 *)
  if mem_str (fname f) (q_fail c) && code_mod3 (sym_app f kw) then Err ZeroDivisionError else
  if mem_str (fname f) (q_none c) then
    let app := sym_app f kw in
    match fouts f with
    | [_] => Ok [none_value (fret f) app]
    | os => Ok (map (fun o => none_value (fret f) (s "out(" ++ o ++ s ";" ++ app ++ s ")")) os)
    end
  else sym_body f kw.

(* one observed run, before interning *)
Record robs := {
  ro_outs : list (option (val * val * val)); (* per output of q_funcs: Result.output, stored value, value
                                                re-opened from the run folder after the run (= stored) *)
  ro_log : list str;                       (* "f(p=<canon>,...)" per invocation *)
  ro_dumps : list Z;                       (* dump_code (position of the output, external key, dumped while a task ran) *)
  ro_prelog : list str                     (* runs on an existing store: the calls of the pre-filling runs, sorted *)
}.

Definition dis_table (c : case) (r : runcfg) : list (str * bool) :=
  flat_map (fun fb => map (fun o => (o, snd fb)) (fouts (fst fb))) (combine (q_funcs c) (r_dis r)).
Definition dis_of (c : case) (r : runcfg) (o : str) : bool :=
  match dict_get (dis_table c r) o with Some b => b | None => false end.

Definition gens_of (c : case) : list (list mfunc) :=
  map (fun g => flat_map (fun k => match nth_error (q_funcs c) k with Some f => [f] | None => [] end) g) (q_gens c).

(* ---------- canonical forms shared with the harness ---------- *)
Definition bit_cmp (a b : bool) (k : comparison) : comparison :=
  if a then (if b then k else Gt) else (if b then Lt else k).
Definition ascii_cmp (x y : ascii) : comparison :=
  let '(Ascii a0 a1 a2 a3 a4 a5 a6 a7) := x in
  let '(Ascii b0 b1 b2 b3 b4 b5 b6 b7) := y in
  bit_cmp a7 b7 (bit_cmp a6 b6 (bit_cmp a5 b5 (bit_cmp a4 b4 (bit_cmp a3 b3 (bit_cmp a2 b2 (bit_cmp a1 b1
    (bit_cmp a0 b0 Eq))))))).
(* Python's < on ASCII str: lexicographic by code point *)
Fixpoint str_cmp (a b : str) : comparison :=
  match a, b with
  | [], [] => Eq
  | [], _ :: _ => Lt
  | _ :: _, [] => Gt
  | x :: a', y :: b' => match ascii_cmp x y with Eq => str_cmp a' b' | r => r end
  end.
Definition str_leb (a b : str) : bool := match str_cmp a b with Gt => false | _ => true end.

Section Sort.
  Context {A : Type} (leb : A -> A -> bool).
  Fixpoint insert_by (x : A) (l : list A) : list A :=
    match l with
    | [] => [x]
    | y :: t => if leb x y then x :: l else y :: insert_by x t
    end.
  Definition sort_by (l : list A) : list A := fold_right insert_by [] l.
End Sort.

(* sorted duplicate-free insertion: the string table is sorted(set(strings)) *)
Fixpoint insert_dedup (x : str) (l : list str) : list str :=
  match l with
  | [] => [x]
  | y :: t => match str_cmp x y with Lt => x :: l | Eq => l | Gt => y :: insert_dedup x t end
  end.

(* maximal runs of consecutive entries with the same rank, each run sorted *)
Section Runs.
  Context {A : Type} (rank : A -> nat) (leb : A -> A -> bool).
  Fixpoint runs (l : list A) (cur : list A) (r : nat) : list (list A) :=
    match l with
    | [] => match cur with [] => [] | _ => [rev cur] end
    | x :: t =>
        match cur with
        | [] => runs t [x] (rank x)
        | _ => if rank x =? r then runs t (x :: cur) r else rev cur :: runs t [x] (rank x)
        end
    end.
  Definition canon_runs (l : list A) : list A := flat_map (sort_by leb) (runs l [] 0).
End Runs.

Definition gen_rank (c : case) (name : str) : nat :=
  (fix go (gs : list (list mfunc)) (k : nat) : nat :=
     match gs with
     | [] => k
     | g :: t => if existsb (fun f => str_eqb (fname f) name) g then k else go t (S k)
     end) (gens_of c) 0.

Definition fname_of_line (x : str) : str := fst (span (fun ch => negb (Ascii.eqb ch "("%char)) x).

Definition out_names (c : case) : list str := flat_map fouts (q_funcs c).
Definition out_pos (c : case) (o : str) : nat :=
  match pos_of o (out_names c) with Some k => k | None => length (out_names c) end.

(* one integer per dump: 2 * (output position + 32 * <1 k1 k2 ...> read in base 16) + who *)
Definition dump_code (o : nat) (key : list nat) (w : bool) : Z :=
  (2 * (Z.of_nat o + 32 * fold_left (fun acc k => acc * 16 + Z.of_nat k) key 1) + (if w then 1 else 0))%Z.

(* the generation structure handed over by the harness must be a layering of exactly the functions of the request *)
Definition gens_valid (c : case) : bool :=
  sched_ok (length (q_funcs c)) (concat (q_gens c)) && layering_ok (gens_of c).

Definition run_one (c : case) (r : runcfg) : result robs :=
  match par_run (case_body c) (dis_of c r) (gens_of c) (q_inputs c) (q_internal c) (r_pis r) with
  | Err e => Err e
  | Ok st =>
      let log := map (fun cl => sym_app (c_fn cl) (c_kw cl)) (p_log st) in
      let dumps := map (fun ev => dump_code (out_pos c (dv_out ev)) (dv_key ev) (dv_worker ev)) (p_trace st) in
      Ok {| ro_outs := map (fun o => match find (fun x => str_eqb (fst (fst x)) o) (p_out st) with
                                     | Some x => Some (snd (fst x), snd x, snd x) | None => None end) (out_names c);
            ro_log := match r_mode r with
                      | 0 => log
                      | _ => canon_runs (fun x => gen_rank c (fname_of_line x)) str_leb log
                      end;
            ro_dumps := match r_mode r with
                        | 0 => dumps
                        | 1 => sort_by Z.leb dumps
                        | _ => []
                        end;
            ro_prelog := [] |}
  end.

(* a run on an existing store (Model/ParResume on the store left by Model/MapResume's sequential runs) *)
Definition resume_one (c : case) (r : rescfg) : result robs :=
  match resume_model (case_body c) (dis_of c (s_cfg r)) (q_funcs c) (gens_of c) (q_inputs c) (q_internal c)
                     (out_pos c)
                     (match s_prefail r with
                      | [] => None
                      | names => Some (fun f kw => if mem_str (fname f) names && code_mod3 (sym_app f kw)
                                                   then Err ZeroDivisionError else case_body c f kw)
                      end)
                     (s_pre r) (s_fx r) (r_pis (s_cfg r)) with
  | Err e => Err e
  | Ok o =>
      Ok {| ro_outs := rv_outs o;
            ro_log := match r_mode (s_cfg r) with
                      | 0 => rv_log o
                      | _ => canon_runs (fun x => gen_rank c (fname_of_line x)) str_leb (rv_log o)
                      end;
            ro_dumps := match r_mode (s_cfg r) with
                        | 0 => rv_dumps o
                        | 1 => sort_by Z.leb (rv_dumps o)
                        | _ => []
                        end;
            ro_prelog := rv_prelog o |}
  end.

(* ---------- interning ---------- *)
Definition outs_t := list (option (val * val * val)).
Definition val_eqb (a b : val) : bool :=
  match a, b with
  | VS x, VS y => str_eqb x y
  | VA x, VA y => list_eqb Nat.eqb (shp x) (shp y) && list_eqb str_eqb (dat x) (dat y)
  | _, _ => false
  end.
Definition outs_eqb : outs_t -> outs_t -> bool :=
  list_eqb (opt_eqb (fun a b : val * val * val =>
                       val_eqb (fst (fst a)) (fst (fst b)) && val_eqb (snd (fst a)) (snd (fst b))
                       && val_eqb (snd a) (snd b))).

(* the distinct output blocks in order of first appearance (all runs of a case should produce the same one) *)
Definition distinct_outs (rs : list (result robs)) : list outs_t :=
  fold_left (fun acc r => match r with
                          | Ok o => if existsb (outs_eqb (ro_outs o)) acc then acc else acc ++ [ro_outs o]
                          | Err _ => acc end) rs [].
Fixpoint outs_index (x : outs_t) (l : list outs_t) : nat :=
  match l with [] => 0 | y :: l' => if outs_eqb x y then 0 else S (outs_index x l') end.

Definition val_strings (v : val) : list str := match v with VS x => [x] | VA a => dat a end.
Definition outs_strings (o : outs_t) : list str :=
  flat_map (fun ov => match ov with
                      | Some (a, b, r) => val_strings a ++ val_strings b ++ val_strings r
                      | None => [] end) o.
Definition make_table (blocks : list outs_t) (l : list (result robs)) : list str :=
  fold_left (fun t x => insert_dedup x t)
            (flat_map outs_strings blocks
             ++ flat_map (fun r => match r with Ok o => ro_log o ++ ro_prelog o | Err _ => [] end) l) [].

Fixpoint str_index (x : str) (t : list str) : nat :=
  match t with [] => 0 | y :: t' => if str_eqb x y then 0 else S (str_index x t') end.

Definition enc_val (t : list str) (v : val) : sx :=
  match v with
  | VS x => SL [SI 0; SN (str_index x t)]
  | VA a => SL [SI 1; SL (map SN (shp a)); SL (map (fun x => SN (str_index x t)) (dat a))]
  end.
Definition enc_outs (t : list str) (o : outs_t) : sx :=
  SL (map (fun ov => match ov with
                     | Some (a, b, r) => SL [enc_val t a; enc_val t b; enc_val t r]
                     | None => SL [] end) o).
Definition enc_run (t : list str) (blocks : list outs_t) (r : result robs) : sx :=
  match r with
  | Err e => SErr e
  | Ok o => SL [SI 1; SN (outs_index (ro_outs o) blocks); SL (map (fun x => SN (str_index x t)) (ro_log o));
                SL (map SI (ro_dumps o)); SL (map (fun x => SN (str_index x t)) (ro_prelog o))]
  end.

Definition run (c : case) : sx :=
  if negb (gens_valid c) then SErr AssertionError else
  let rs := map (run_one c) (q_runs c) ++ map (resume_one c) (q_resume c) in
  let blocks := distinct_outs rs in
  let t := make_table blocks rs in
  SL [SL (map SS t); SL (map (enc_outs t) blocks); SL (map (enc_run t blocks) rs)].

(* ---------- decoding an observation ---------- *)
Definition sx_nat (x : sx) : option nat := match x with SI z => if (z <? 0)%Z then None else Some (Z.to_nat z) | _ => None end.
Fixpoint all_some {A} (l : list (option A)) : option (list A) :=
  match l with
  | [] => Some []
  | Some x :: t => match all_some t with Some r => Some (x :: r) | None => None end
  | None :: _ => None
  end.
Definition dec_str (t : list str) (x : sx) : option str :=
  match sx_nat x with Some k => nth_error t k | None => None end.
Definition dec_val (t : list str) (x : sx) : option val :=
  match x with
  | SL [SI 0%Z; i] => option_map VS (dec_str t i)
  | SL [SI 1%Z; SL sh; SL d] =>
      match all_some (map sx_nat sh), all_some (map (dec_str t) d) with
      | Some sh', Some d' => Some (VA {| shp := sh'; dat := d' |})
      | _, _ => None
      end
  | _ => None
  end.
Definition dec_outs (t : list str) (x : sx) : option outs_t :=
  match x with
  | SL outs =>
      all_some (map (fun o => match o with
                              | SL [a; b; r] => match dec_val t a, dec_val t b, dec_val t r with
                                                | Some a', Some b', Some r' => Some (Some (a', b', r'))
                                                | _, _, _ => None end
                              | SL [] => Some None
                              | _ => None end) outs)
  | _ => None
  end.
(* (outputs, log) of an ok run *)
Definition dec_run (t : list str) (blocks : list sx) (x : sx) : option (outs_t * list str * list str) :=
  match x with
  | SL [SI 1%Z; b; SL log; _; SL pre] =>
      match sx_nat b with
      | Some k => match nth_error blocks k with
                  | Some blk => match dec_outs t blk, all_some (map (dec_str t) log), all_some (map (dec_str t) pre) with
                                | Some o, Some l, Some pl => Some (o, l, pl)
                                | _, _, _ => None
                                end
                  | None => None
                  end
      | None => None
      end
  | _ => None
  end.

(* ---------- the executable statement ---------- *)
(* what the MapSpec notation says: the arrays ... *)
Definition expected_outs (c : case) : result outs_t :=
  do d <- denote_run (case_body c) (q_funcs c) (q_inputs c) (q_internal c);
  Ok (map (fun x => Some (snd x, snd x, snd x)) (d_out d)).

(* ... and the invocations: one per external index of a mapped function (arguments sliced as the notation says),
   one for a function without MapSpec inputs *)
Definition calls_of_func (st : den_state) (user : shape_dict) (f : mfunc) : result (list str) :=
  do shm <- func_shape user (d_shapes st) f;
  do kw <- func_kwargs f (d_env st);
  if is_mapped f then
    match fspec f, shm with
    | Some ms, Some (sh, mask) =>
        mapM (fun e => do sel <- mapM (arg_at ms e) kw; Ok (sym_app f sel)) (all_indices (ext_of mask sh))
    | _, _ => Err AssertionError
    end
  else Ok [sym_app f kw].

Definition expected_calls (c : case) : result (list str) :=
  do r <- fold_left (fun acc f => do a <- acc;
                                 do cs <- calls_of_func (fst a) (q_internal c) f;
                                 do st' <- denote_func (case_body c) (q_internal c) (fst a) f;
                                 Ok (st', snd a ++ cs))
                    (q_funcs c)
                    (Ok ({| d_env := q_inputs c; d_shapes := init_shapes (q_inputs c); d_out := [] |}, []));
  Ok (snd r).

Fixpoint remove_one (x : str) (l : list str) : option (list str) :=
  match l with
  | [] => None
  | y :: t => if str_eqb x y then Some t else match remove_one x t with Some t' => Some (y :: t') | None => None end
  end.
Fixpoint multiset_eqb (a b : list str) : bool :=
  match a with
  | [] => match b with [] => true | _ => false end
  | x :: a' => match remove_one x b with Some b' => multiset_eqb a' b' | None => false end
  end.

(* (`if` instead of && / ||: vm_compute evaluates both arguments of andb/orb) *)
Fixpoint is_prefix (p x : str) : bool :=
  match p, x with
  | [], _ => true
  | a :: p', b :: x' => if Ascii.eqb a b then is_prefix p' x' else false
  | _ :: _, [] => false
  end.
Fixpoint is_substr (p x : str) : bool :=
  if is_prefix p x then true else match x with [] => false | _ :: t => is_substr p t end.

(* for every function: the names of the functions that produce one of its parameters *)
Definition producers (funcs : list mfunc) : list (str * list str) :=
  map (fun g => (fname g,
                 map fname (filter (fun f => existsb (fun p => mem_str p (fouts f)) (fparams g)) funcs))) funcs.
Definition consumes (deps : list (str * list str)) (g f : str) : bool :=
  match dict_get deps g with Some l => mem_str f l | None => false end.

(* A structural value carries the invocation that produced it: the call `P` of a producer whose value is consumed by
   the call `L` of a consumer occurs inside `L`'s arguments.  Barrier: every such P stands before L in the log.
   (entries are (function name, line)) *)
Fixpoint barrier_go (deps : list (str * list str)) (want : list (str * str)) (before : list str)
         (log : list (str * str)) : bool :=
  match log with
  | [] => true
  | e :: t =>
      if forallb (fun w => if consumes deps (fst e) (fst w)
                           then (if is_substr (snd w) (snd e) then mem_str (snd w) before else true)
                           else true) want
      then barrier_go deps want (snd e :: before) t else false
  end.
Definition barrier_from (funcs : list mfunc) (want : list str) (before : list str) (log : list str) : bool :=
  let named := map (fun x => (fname_of_line x, x)) in
  barrier_go (producers funcs) (named want) before (named log).
Definition barrier_ok (funcs : list mfunc) (want : list str) (log : list str) : bool := barrier_from funcs want [] log.

Fixpoint submultiset (a b : list str) : bool :=
  match a with
  | [] => true
  | x :: a' => match remove_one x b with Some b' => submultiset a' b' | None => false end
  end.

(* The property: a valid request is answered, whatever the executor / storage / schedule (i.e. in every run of the
   case), with exactly the denoted arrays (returned, stored, and re-opened from the run folder afterwards); the log of invocations is exactly the expected
   multiset (each (function, index) once); no invocation stands before an invocation whose value it consumes.
   The dump list is not judged (it belongs to the correspondence only). *)
Definition spec_ok (c : case) (o : sx) : bool :=
  if negb (request_ok (q_funcs c) (q_inputs c)) then true else
  match expected_outs c, expected_calls c with
  | Ok want, Ok calls =>
      match o with
      | SL [SL tab; SL blocks; SL rs] =>
          match all_some (map (fun x => match x with SS y => Some y | _ => None end) tab) with
          | Some t =>
              (length rs =? length (q_runs c) + length (q_resume c))
              && forallb (fun x => match dec_run t blocks x with
                                   | Some (outs, log, _) =>
                                       outs_eqb outs want && multiset_eqb log calls
                                       && barrier_ok (q_funcs c) calls log
                                   | None => false
                                   end) (firstn (length (q_runs c)) rs)
              (* runs on an existing store: no call is repeated over the whole history of the folder (pre-filling
                 runs and this run), no call before the calls whose values it consumes (earlier runs count), and
                 a full final run returns / leaves exactly the denoted arrays with every call made exactly once *)
              && forallb (fun rx => match dec_run t blocks (snd rx) with
                                    | Some (outs, log, pre) =>
                                        match s_prefail (fst rx) with
                                        | [] =>
                                            submultiset (pre ++ log) calls
                                            && barrier_from (q_funcs c) calls pre log
                                            && match s_fx (fst rx) with
                                               | None => outs_eqb outs want && multiset_eqb (pre ++ log) calls
                                               | Some _ => true
                                               end
                                        | _ =>   (* after a run that raised: the failed call is made again *)
                                            barrier_from (q_funcs c) calls pre log
                                            && match s_fx (fst rx) with None => outs_eqb outs want | Some _ => true end
                                        end
                                    | None => false
                                    end) (combine (q_resume c) (skipn (length (q_runs c)) rs))
          | None => false
          end
      | _ => false
      end
  | _, _ => true
  end.
