(* C03 correspondence: a map request + its generation structure + one schedule per generation + the
   dump_in_subprocess flag of the storage of every output; the model's run (Model/ParGen.v) and the executable
   statement of the property (results = denotation, every call exactly once, no call before the calls whose
   values it consumes). *)
From Verif Require Export Base.Prelude Base.StrUtil Base.Index Base.NdArr Model.MapSpec Model.MapSpecSpec
  Model.MapRun Model.MapDenote Model.SymBody Model.ParGen.

Record case := {
  q_funcs : list mfunc;            (* in a topological order (the order in which outputs are observed) *)
  q_inputs : env;
  q_internal : shape_dict;
  q_gens : list (list nat);        (* generations as positions in q_funcs, in submission order *)
  q_pis : list (list nat);         (* one execution order (permutation of the submission slots) per generation *)
  q_dis : list (str * bool);       (* output name -> StorageBase.dump_in_subprocess of its storage *)
  q_mode : nat                     (* 0: controlled executor (raw log and dump order);
                                      1: real thread pool (canonical log, sorted dumps); 2: process pool (no dumps) *)
}.

Definition sx_val (v : val) : sx :=
  match v with
  | VS x => SL [SS (s "val"); SS x]
  | VA a => SL [SS (s "arr"); SL (map SN (shp a)); SL (map SS (dat a))]
  end.

Definition dis_of (c : case) (o : str) : bool :=
  match dict_get (q_dis c) o with Some b => b | None => false end.

Definition gens_of (c : case) : list (list mfunc) :=
  map (fun g => flat_map (fun k => match nth_error (q_funcs c) k with Some f => [f] | None => [] end) g) (q_gens c).

(* ---------- canonical forms shared with the harness ---------- *)
Fixpoint str_leb (a b : str) : bool :=
  match a, b with
  | [], _ => true
  | _ :: _, [] => false
  | x :: a', y :: b' =>
      let n := nat_of_ascii x in let m := nat_of_ascii y in
      if n <? m then true else if m <? n then false else str_leb a' b'
  end.

Section Sort.
  Context {A : Type} (key : A -> str).
  Fixpoint insert_by (x : A) (l : list A) : list A :=
    match l with
    | [] => [x]
    | y :: t => if str_leb (key x) (key y) then x :: l else y :: insert_by x t
    end.
  Definition sort_by (l : list A) : list A := fold_right insert_by [] l.
End Sort.

(* maximal runs of consecutive entries with the same rank, each run sorted by key *)
Section Runs.
  Context {A : Type} (rank : A -> nat) (key : A -> str).
  Fixpoint runs (l : list A) (cur : list A) (r : nat) : list (list A) :=
    match l with
    | [] => match cur with [] => [] | _ => [rev cur] end
    | x :: t =>
        match cur with
        | [] => runs t [x] (rank x)
        | _ => if rank x =? r then runs t (x :: cur) r else rev cur :: runs t [x] (rank x)
        end
    end.
  Definition canon_runs (l : list A) : list A := flat_map (sort_by key) (runs l [] 0).
End Runs.

Definition gen_rank (c : case) (name : str) : nat :=
  (fix go (gs : list (list mfunc)) (k : nat) : nat :=
     match gs with
     | [] => k
     | g :: t => if existsb (fun f => str_eqb (fname f) name) g then k else go t (S k)
     end) (gens_of c) 0.

Definition log_entry (cl : call) : str * str := (fname (c_fn cl), sym_app (c_fn cl) (c_kw cl)).
Definition sx_log (l : list (str * str)) : sx := SL (map (fun e : str * str => SL [SS (fst e); SS (snd e)]) l).

Definition dump_entry (ev : dump_ev) : str * str * bool := (dv_out ev, join (s ",") (map dec (dv_key ev)), dv_worker ev).
Definition dump_key (d : str * str * bool) : str :=
  fst (fst d) ++ s ":" ++ snd (fst d) ++ s ":" ++ (if snd d then s "1" else s "0").
Definition sx_dumps (l : list (str * str * bool)) : sx :=
  SL (map (fun d : str * str * bool => SL [SS (fst (fst d)); SS (snd (fst d)); SI (if snd d then 1 else 0)%Z]) l).

Definition outs_obs (c : case) (out : list (str * val * val)) : sx :=
  SL (flat_map (fun f => map (fun o => match find (fun x => str_eqb (fst (fst x)) o) out with
                                       | Some x => SL [SS o; sx_val (snd (fst x)); sx_val (snd x)]
                                       | None => SL [SS o; SL [SS (s "missing")]; SL [SS (s "missing")]]
                                       end) (fouts f)) (q_funcs c)).

(* the generation structure handed over by the harness must be a layering of exactly the functions of the request *)
Definition gens_valid (c : case) : bool :=
  sched_ok (length (q_funcs c)) (concat (q_gens c)) && layering_ok (gens_of c).

Definition run (c : case) : sx :=
  if negb (gens_valid c) then SErr AssertionError else
  match par_run sym_body (dis_of c) (gens_of c) (q_inputs c) (q_internal c) (q_pis c) with
  | Err e => SErr e
  | Ok st =>
      let log := map log_entry (p_log st) in
      let dumps := map dump_entry (p_trace st) in
      SL [SS (s "ok"); outs_obs c (p_out st);
          sx_log (match q_mode c with 0 => log | _ => canon_runs (fun e => gen_rank c (fst e)) snd log end);
          sx_dumps (match q_mode c with 0 => dumps | 1 => sort_by dump_key dumps | _ => [] end)]
  end.

(* ---------- the executable statement ---------- *)
(* what the MapSpec notation says: the arrays ... *)
Definition expected_outs (c : case) : result sx :=
  do d <- denote_run sym_body (q_funcs c) (q_inputs c) (q_internal c);
  Ok (SL (map (fun x => SL [SS (fst x); sx_val (snd x); sx_val (snd x)]) (d_out d))).

(* ... and the invocations: one per external index of a mapped function (arguments sliced as the notation says),
   one for a function without MapSpec inputs *)
Definition calls_of_func (st : den_state) (user : shape_dict) (f : mfunc) : result (list (str * str)) :=
  do shm <- func_shape user (d_shapes st) f;
  do kw <- func_kwargs f (d_env st);
  if is_mapped f then
    match fspec f, shm with
    | Some ms, Some (sh, mask) =>
        mapM (fun e => do sel <- mapM (arg_at ms e) kw; Ok (fname f, sym_app f sel)) (all_indices (ext_of mask sh))
    | _, _ => Err AssertionError
    end
  else Ok [(fname f, sym_app f kw)].

Definition expected_calls (c : case) : result (list (str * str)) :=
  do r <- fold_left (fun acc f => do a <- acc;
                                 do cs <- calls_of_func (fst a) (q_internal c) f;
                                 do st' <- denote_func sym_body (q_internal c) (fst a) f;
                                 Ok (st', snd a ++ cs))
                    (q_funcs c)
                    (Ok ({| d_env := q_inputs c; d_shapes := init_shapes (q_inputs c); d_out := [] |}, []));
  Ok (snd r).

Fixpoint remove_one (x : str) (l : list str) : option (list str) :=
  match l with
  | [] => None
  | y :: t => if str_eqb x y then Some t else match remove_one x t with Some t' => Some (y :: t') | None => None end
  end.
Fixpoint multiset_eqb (a b : list str) : bool :=
  match a with
  | [] => match b with [] => true | _ => false end
  | x :: a' => match remove_one x b with Some b' => multiset_eqb a' b' | None => false end
  end.

Fixpoint is_prefix (p x : str) : bool :=
  match p, x with
  | [], _ => true
  | a :: p', b :: x' => Ascii.eqb a b && is_prefix p' x'
  | _ :: _, [] => false
  end.
Fixpoint is_substr (p x : str) : bool :=
  is_prefix p x || match x with [] => false | _ :: t => is_substr p t end.

(* g consumes a value produced by f *)
Definition consumes (funcs : list mfunc) (g f : str) : bool :=
  match find (fun h => str_eqb (fname h) g) funcs, find (fun h => str_eqb (fname h) f) funcs with
  | Some hg, Some hf => existsb (fun p => mem_str p (fouts hf)) (fparams hg)
  | _, _ => false
  end.

(* A structural value carries the invocation that produced it: the call `P` of a producer whose value is consumed by
   the call `L` of a consumer occurs inside `L`'s arguments.  Barrier: every such P stands before L in the log. *)
Fixpoint barrier_ok (funcs : list mfunc) (want : list (str * str)) (before : list str) (log : list (str * str)) : bool :=
  match log with
  | [] => true
  | e :: t =>
      forallb (fun w => negb (consumes funcs (fst e) (fst w) && is_substr (snd w) (snd e))
                        || mem_str (snd w) before) want
      && barrier_ok funcs want (snd e :: before) t
  end.

Definition sx_pairs (l : list sx) : option (list (str * str)) :=
  fold_right (fun x acc => match x, acc with
                           | SL [SS a; SS b], Some r => Some ((a, b) :: r)
                           | _, _ => None end) (Some []) l.

(* The property: a valid request is answered, whatever the executor / storage / schedule, with exactly the denoted
   arrays (returned and stored); the log of invocations is exactly the expected multiset (each (function, index)
   once); no invocation stands before an invocation whose value it consumes.  The dump list is not judged. *)
Definition spec_ok (c : case) (o : sx) : bool :=
  if negb (request_ok (q_funcs c) (q_inputs c)) then true else
  match expected_outs c, expected_calls c with
  | Ok want, Ok calls =>
      match o with
      | SL [SS t; got; SL log; _] =>
          str_eqb t (s "ok") && sx_eqb got want
          && match sx_pairs log with
             | Some l => multiset_eqb (map snd l) (map snd calls) && barrier_ok (q_funcs c) calls [] l
             | None => false
             end
      | _ => false
      end
  | _, _ => true
  end.
