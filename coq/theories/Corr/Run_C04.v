(* C04 correspondence: a map request with a storage configuration, run into a folder, then reloaded twice
   (in the same interpreter or in a fresh one); the model's observation and the executable statement. *)
From Verif Require Export Base.Prelude Base.StrUtil Base.Index Base.NdArr Model.MapSpec Model.MapSpecSpec
  Model.MapRun Model.MapDenote Model.SymBody Model.RunInfoCodec Model.FSStore.

(* data = json.load(run_info.json); <edit>; json.dump(data) *)
Inductive mutation :=
| MNone
| MDel (k : str)                        (* del data[k] *)
| MSet (k : str) (j : json)             (* data[k] = j *)
| MSetIn (k k2 : str) (j : json)        (* data[k][k2] = j *)
| MRemove (p : path).                   (* os.remove(<file of an output>) *)

Definition mutate_obj (m : mutation) (o : list (str * json)) : list (str * json) :=
  match m with
  | MNone => o
  | MDel k => filter (fun kv => negb (str_eqb (fst kv) k)) o
  | MSet k j => dict_set o k j
  | MSetIn k k2 j => map (fun kv => if str_eqb (fst kv) k
                                    then (fst kv, match snd kv with JObj o2 => JObj (dict_set o2 k2 j) | x => x end)
                                    else kv) o
  | MRemove _ => o
  end.
Definition mutate_world (m : mutation) (w : world) : world :=
  match m, fs_get (w_files w) PRunInfo with
  | MRemove p, _ => with_files w (filter (fun pc => negb (path_eqb p (fst pc))) (w_files w))
  | MNone, _ => w
  | _, Some (Json (JObj o)) => write w PRunInfo (Json (JObj (mutate_obj m o)))
  | _, _ => w
  end.

(* an earlier request run into the same folder (always with cleanup=True) *)
Record request := {
  q_funcs : list mfunc; q_inputs : env; q_internal : shape_dict; q_user_int : list str; q_func_int : list str;
  q_storage : storage_cfg; q_persist : bool
}.

Record case := {
  c_funcs : list mfunc;
  c_inputs : env;
  c_internal : shape_dict;          (* internal_shapes argument of map (as tuples) *)
  c_user_int : list str;            (* ... entries passed as a bare int *)
  c_func_int : list str;            (* functions whose internal_shape attribute is a bare int *)
  c_storage : storage_cfg;
  c_persist : bool;                 (* persist_memory *)
  c_fresh : bool;                   (* reload in a fresh interpreter *)
  c_xr : str;                       (* "ok" or the exception class of pipefunc's in-memory xarray labelling *)
  c_mut : mutation;                 (* negative stream: an edit of run_info.json made between the run and the reload *)
  c_xr_coords : list str;           (* the 1-D root inputs pipefunc's in-memory labelling turns into coordinates *)
  c_prev : list request;            (* folder re-use: requests run (and reloaded) before, in the same process, same folder *)
  c_cleanup : bool                  (* cleanup argument of this (the last) run *)
}.

Definition root_name : str := s "F".
Definition version_name : str := s "V".

(* ---------- canonical observations ---------- *)
Definition sx_val (v : val) : sx :=
  match v with
  | VS x => SL [SS (s "val"); SS x]
  | VA a => SL [SS (s "arr"); SL (map SN (shp a)); SL (map SS (dat a))]
  end.
Definition sx_env (e : env) : sx := SL (map (fun kv => SL [SS (fst kv); sx_val (snd kv)]) e).
Definition sx_pyv (p : pyv) : sx :=
  match p with
  | PVal v => sx_val v
  | PEnv e => sx_env e
  | PDict d => SL (map (fun kv => SL [SL (map SN (fst kv)); sx_val (snd kv)]) d)
  end.

(* sort an association list by its string key (sorted(d.items())) *)
Fixpoint insert_kv {V} (k : str) (v : V) (l : list (str * V)) : list (str * V) :=
  match l with
  | [] => [(k, v)]
  | (k', v') :: t => if str_ltb k' k then (k', v') :: insert_kv k v t else (k, v) :: l
  end.
Definition sort_kv {V} (l : list (str * V)) : list (str * V) := fold_right (fun kv acc => insert_kv (fst kv) (snd kv) acc) [] l.

Definition sx_okey (k : okey) : sx := match k with KName n => SS n | KTup l => SL (map SS l) end.
Definition sx_odict {V} (f : V -> sx) (d : list (okey * V)) : sx :=
  SL (map (fun kv => snd kv) (sort_kv (map (fun kv => (tuple_to_str (fst kv), SL [sx_okey (fst kv); f (snd kv)])) d))).
Definition sx_ishape (i : ishape) : sx := match i with IInt n => SN n | ITup l => SL (map SN l) end.
Definition sx_storage (st : storage_cfg) : sx :=
  match st with StUni n => SS n | StDict d => sx_odict SS d end.

Definition sx_run_info (ri : run_info) : sx :=
  SL [ SL (map SS (ri_all_output_names ri));
       sx_odict (fun sh => SL (map SN sh)) (ri_shapes ri);
       sx_odict (fun m => SL (map SB m)) (ri_shape_masks ri);
       match ri_internal_shapes ri with
       | None => SNone
       | Some d => SL (map (fun kv => SL [SS (fst kv); sx_ishape (snd kv)]) (sort_kv d))
       end;
       sx_storage (ri_storage ri);
       SL (map SS (sort_set (ri_mapspecs ri)));
       SS (ri_run_folder ri);
       SS (ri_version ri) ].

Definition sx_inputs (l : list (str * pyv)) : sx := SL (map (fun kv => SL [SS (fst kv); sx_pyv (snd kv)]) (sort_kv l)).
Definition sx_defaults (p : pyv) : sx :=
  match p with PEnv e => sx_env (sort_kv e) | _ => sx_pyv p end.

(* ---------- the run ---------- *)
Definition user_internal (c : case) : list (str * ishape) :=
  map (fun kv => (fst kv, ishape_of (mem_str (fst kv) (c_user_int c)) (snd kv))) (c_internal c).

Definition output_names (c : case) : list str := flat_map fouts (c_funcs c).

Record finished := { f_info : run_info; f_outs : list out_desc; f_world : world; f_state : run_state }.

(* legacy = true: the persist protocol of shared_memory_dict before the repair (a pickled DictProxy) *)
Definition finish (legacy : bool) (c : case) : result finished :=
  do st <- map_run sym_body (c_funcs c) (c_inputs c) (c_internal c);
  do ri <- create_run_info root_name version_name (c_funcs c) (c_inputs c) (user_internal c) (c_func_int c)
                           (c_storage c) (r_shapes st);
  do outs <- outs_of_run (c_funcs c) (normalize_storage (c_storage c)) st;
  do w <- world_of legacy (c_persist c) root_name ri (map (fun kv => (fst kv, PVal (snd kv))) (c_inputs c))
                   (PEnv (pipeline_defaults (c_funcs c))) outs;
  Ok {| f_info := ri; f_outs := outs; f_world := w; f_state := st |}.

(* ---------- folder re-use ---------- *)
Definition case_of_request (q : request) : case :=
  {| c_funcs := q_funcs q; c_inputs := q_inputs q; c_internal := q_internal q; c_user_int := q_user_int q;
     c_func_int := q_func_int q; c_storage := q_storage q; c_persist := q_persist q; c_fresh := false;
     c_xr := s "ok"; c_mut := MNone; c_xr_coords := []; c_prev := []; c_cleanup := true |}.

(* Pipeline.map(..., run_folder=F, cleanup=True) when F is in state w0 *)
Definition finish_in (legacy : bool) (w0 : world) (c : case) : result finished :=
  do st <- map_run sym_body (c_funcs c) (c_inputs c) (c_internal c);
  do ri <- create_run_info root_name version_name (c_funcs c) (c_inputs c) (user_internal c) (c_func_int c)
                           (c_storage c) (r_shapes st);
  do outs <- outs_of_run (c_funcs c) (normalize_storage (c_storage c)) st;
  do w <- world_after_cleanup w0 legacy (c_persist c) ri (map (fun kv => (fst kv, PVal (snd kv))) (c_inputs c))
                              (PEnv (pipeline_defaults (c_funcs c))) outs;
  Ok {| f_info := ri; f_outs := outs; f_world := w; f_state := st |}.

Definition empty_world : world := {| w_root := root_name; w_files := []; w_live := [] |}.

(* the folder after a sequence of runs, each with cleanup=True *)
Definition run_sequence (legacy : bool) (w0 : world) (cs : list case) : result world :=
  fold_left (fun acc c => do w <- acc; do f <- finish_in legacy w c; Ok (f_world f)) cs (Ok w0).

(* load_xarray_dataset, structure only: for every output name its dims (the axes of its MapSpec output, () otherwise);
   whether pipefunc's labelling succeeds for this request at all is an input of the case (c_xr) *)
Definition xr_dims (ri : run_info) : result sx :=
  do specs <- mapM parse (ri_mapspecs ri);
  Ok (SL (map (fun n =>
                 let axes := match find (fun a => str_eqb (aname a) n) (flat_map outs specs) with
                             | Some a => indices a | None => [] end in
                 SL [SS n; SL (map SS axes)]) (ri_all_output_names ri))).

(* the coordinate values load_xarray_dataset takes from the reloaded inputs *)
Definition xr_coords (names : list str) (inputs : list (str * pyv)) : sx :=
  SL (map (fun n => SL [SS n; match find (fun kv => str_eqb (fst kv) n) inputs with
                              | Some kv => sx_pyv (snd kv) | None => SNone end]) names).

(* one complete reload: load_outputs for every output, RunInfo.load, load_xarray_dataset
   (which itself loads every output: a failing load_outputs makes it fail with the same class) *)
Definition reload (c : case) (w : world) : sx * world :=
  let step := fun (acc : list sx * option err * world) o =>
                let '(l, fe, w0) := acc in
                match load_outputs version_name w0 o with
                | Ok (v, w') => (l ++ [SL [SS o; SL [SS (s "ok"); match v with Some p => sx_pyv p | None => SNone end]]], fe, w')
                | Err e => (l ++ [SL [SS o; SErr e]], match fe with Some e0 => Some e0 | None => Some e end, w0)
                end in
  let '(outs, first_err, w1) := fold_left step (output_names c) ([], None, w) in
  let '(info, w2) :=
    match runinfo_load version_name w1 with
    | Ok (li, w') => (SL [SS (s "ok"); SL [sx_run_info (li_info li); sx_inputs (li_inputs li); sx_defaults (li_defaults li)]], w')
    | Err e => (SErr e, w1)
    end in
  let xr :=
    match runinfo_load version_name w2, first_err with
    | Err e, _ => SErr e
    | Ok _, Some e => SErr e
    | Ok (li, _), None =>
        if str_eqb (c_xr c) (s "ok")
        then match xr_dims (li_info li) with
             | Ok d => SL [SS (s "ok"); d; xr_coords (c_xr_coords c) (li_inputs li)] | Err e => SErr e end
        else SL [SS (s "err"); SS (c_xr c)]
    end in
  (SL [SL outs; info; xr], w2).

Fixpoint json_eqb (a b : json) : bool :=
  match a, b with
  | JNull, JNull => true
  | JBool x, JBool y => Bool.eqb x y
  | JInt x, JInt y => Z.eqb x y
  | JStr x, JStr y => str_eqb x y
  | JArr x, JArr y =>
      (fix go (x y : list json) : bool :=
         match x, y with
         | [], [] => true
         | a :: x', b :: y' => json_eqb a b && go x' y'
         | _, _ => false
         end) x y
  | JObj x, JObj y =>
      (fix go (x y : list (str * json)) : bool :=
         match x, y with
         | [], [] => true
         | (k, a) :: x', (k', b) :: y' => str_eqb k k' && json_eqb a b && go x' y'
         | _, _ => false
         end) x y
  | _, _ => false
  end.
Definition content_eqb (a b : content) : bool :=
  match a, b with
  | Pickled x, Pickled y => sx_eqb (sx_pyv x) (sx_pyv y)
                            && match x, y with PVal _, PVal _ | PEnv _, PEnv _ | PDict _, PDict _ => true | _, _ => false end
  | Json x, Json y => json_eqb x y
  | ProxyHandle x, ProxyHandle y => x =? y
  | Dir, Dir => true
  | _, _ => false
  end.
Definition files_eqb (a b : files) : bool :=
  list_eqb (fun x y => path_eqb (fst x) (fst y) && content_eqb (snd x) (snd y)) a b.

Definition listing (w : world) : sx := SL (map SS (sort_set (map (fun pc => path_rel (fst pc)) (w_files w)))).

(* ---------- consistency of what a run recorded with what it stored ---------- *)
(* A decidable check on the RunInfo and the outputs of a finished run: the recorded MapSpec strings parse, every
   output of a mapped MapSpec has its shape / mask / storage class recorded under its output_name key and is stored
   as an array of that shape, every other output is a single value.  Theorem C04_reload_eq_results is stated for
   runs that pass this check; the model evaluates it on every correspondence case (last component of `run`). *)
Definition skind_eqb (a b : skind) : bool :=
  match a, b with FileArrayK, FileArrayK | DictK, DictK | SharedDictK, SharedDictK => true | _, _ => false end.

Definition spec_consistentb (ri : run_info) (descs : list out_desc) (x : str) : bool :=
  match parse x with
  | Err _ => false
  | Ok ms =>
      let names := map aname (outs ms) in
      match name_mapping_get (ri_shapes ri) names with
      | None => false
      | Some key =>
          match ins ms with
          | [] => true
          | _ :: _ =>
              match odict_get (ri_shapes ri) key, odict_get (ri_shape_masks ri) key, storage_class (ri_storage ri) key with
              | Some sh, Some mask, Ok kind =>
                  list_eqb str_eqb (at_least_tuple key) names
                  && forallb (fun o => existsb (fun d => match d with
                                                         | OMapped o' k' m' a =>
                                                             str_eqb o o' && skind_eqb k' kind && list_eqb Bool.eqb m' mask
                                                             && list_eqb Nat.eqb (shp a) sh && nd_wf a
                                                             && (length mask =? length sh)
                                                         | OSingle _ _ => false end) descs) names
              | _, _, _ => false
              end
          end
      end
  end.

Definition desc_consistentb (ri : run_info) (d : out_desc) : bool :=
  let mapped := flat_map mapped_outs (ri_mapspecs ri) in
  match d with
  | OMapped o _ mask a => mem_str o mapped && nd_wf a && (length mask =? length (shp a))
  | OSingle o _ => mem_str o (ri_all_output_names ri) && negb (mem_str o mapped)
  end.

Definition run_consistentb (root : str) (ri : run_info) (inputs : list (str * pyv)) (descs : list out_desc) : bool :=
  wf_run_info ri && str_eqb (ri_run_folder ri) root
  && list_eqb str_eqb (ri_input_names ri) (map fst inputs)
  && forallb (fun n => negb (mem_char "/"%char n)) (ri_input_names ri)
  && nodup_str_list (map od_name descs)
  && forallb (spec_consistentb ri descs) (ri_mapspecs ri)
  && forallb (desc_consistentb ri) descs.

Definition finished_consistent (c : case) (f : finished) : bool :=
  run_consistentb root_name (f_info f) (map (fun kv => (fst kv, PVal (snd kv))) (c_inputs c)) (f_outs f).

(* cleanup=False: _compare_to_previous_run_info against the RunInfo found in the folder *)
Definition sx_internal (o : option (list (str * ishape))) : sx :=
  match o with
  | None => SNone
  | Some d => SL (map (fun kv => SL [SS (fst kv); sx_ishape (snd kv)]) (sort_kv d))
  end.
Definition resume_check (c : case) (f : finished) (w : world) : result unit :=
  match fs_get (w_files w) PRunInfo with
  | None => Ok tt                                                     (* no previous run in the folder *)
  | Some _ =>
      match runinfo_load version_name w with
      | Err _ => Err ValueError                                        (* "Could not load previous run info" *)
      | Ok (li, _) =>
          let old := li_info li in
          (* the constructed internal shapes (argument + PipeFunc.internal_shape), as recorded for this run *)
          if sx_eqb (sx_internal (ri_internal_shapes (f_info f))) (sx_internal (ri_internal_shapes old))
             && list_eqb str_eqb (ri_mapspecs (f_info f)) (ri_mapspecs old)
             && sx_eqb (sx_odict (fun sh => SL (map SN sh)) (ri_shapes (f_info f))) (sx_odict (fun sh => SL (map SN sh)) (ri_shapes old))
             && sx_eqb (sx_inputs (map (fun kv => (fst kv, PVal (snd kv))) (c_inputs c))) (sx_inputs (li_inputs li))
             && sx_eqb (sx_defaults (PEnv (pipeline_defaults (c_funcs c)))) (sx_defaults (li_defaults li))
          then Ok tt else Err ValueError
      end
  end.

(* the last run of the case, into the folder left by the earlier ones.  cleanup=True: the folder is emptied first.
   cleanup=False (accepted only when internal shapes, MapSpecs, shapes, inputs and defaults equal the recorded ones):
   everything already stored is kept and nothing is recomputed; the folder ends with the same contents as a clean run
   of the same request (resume = uninterrupted run is C05), which is how it is modelled. *)
Definition last_run (legacy : bool) (w0 : world) (c : case) : result finished :=
  do f <- finish_in legacy w0 c;
  if c_cleanup c then Ok f else do _ <- resume_check c f w0; Ok f.

(* observation:  ok [ [returned outputs; RunInfo of the run; inputs; defaults]; listing; load 1; load 2 | "same"; unchanged;
                     model-side: the run passes finished_consistent (the implementation side reports the constant true);
                     number of earlier runs into the same folder ] *)
Definition run_with (legacy : bool) (c : case) : sx :=
  match run_sequence legacy empty_world (map case_of_request (c_prev c)) with
  | Err e => SErr e
  | Ok w0 =>
  match last_run legacy w0 c with
  | Err e => SErr e
  | Ok f =>
      let st := f_state f in
      let ran := SL [ SL (map (fun x => SL [SS (fst (fst x)); sx_val (snd (fst x))]) (r_out st));
                      sx_run_info (f_info f);
                      sx_inputs (map (fun kv => (fst kv, PVal (snd kv))) (c_inputs c));
                      sx_defaults (PEnv (pipeline_defaults (c_funcs c))) ] in
      let w := mutate_world (c_mut c) (if c_fresh c then reopen (f_world f) else f_world f) in
      let '(l1, w1) := reload c w in
      let '(l2, w2) := reload c w1 in
      SL [SS (s "ok");
          SL [ran; listing (f_world f); l1; (if sx_eqb l1 l2 then SS (s "same") else l2);
              SB (files_eqb (w_files w) (w_files w2));
              SB (finished_consistent c f);
              SN (length (c_prev c))]]
  end end.

Definition run (c : case) : sx := run_with false c.

(* ---------- the statement ---------- *)
(* Written against the request's denotation (Model/MapDenote.v) and the observation itself:
   for a valid request, (1) what the run returned is the denotation; (2) every output whose storage persists
   reloads to exactly what the run returned, in both loads; (3) RunInfo.load gives field-wise what the run's own
   RunInfo held, with the storage choice (a 1-tuple key denoting the bare name) and MapSpec strings of the request, and the inputs/defaults that were given;
   (4) load_xarray_dataset succeeds whenever pipefunc's own in-memory labelling of the same run does, and its coordinates
       carry the values of THIS request's inputs;
   (5) loading leaves the folder's contents unchanged.
   All of it regardless of what was run into (and loaded from) the same folder before (c_prev): every reload returns the
   values of the run that last wrote the folder, never anything of an earlier run. *)
Definition kind_persists (c : case) (f : mfunc) : bool :=
  if negb (is_mapped f) then true else
  match storage_class (normalize_storage (c_storage c)) (output_key_of f) with
  | Ok FileArrayK => true
  | Ok _ => c_persist c
  | Err _ => false
  end.
Definition persisting_outputs (c : case) : list str :=
  flat_map (fun f => if kind_persists c f then fouts f else []) (c_funcs c).

Fixpoint sx_assoc (l : list sx) (k : str) : option sx :=
  match l with
  | SL [SS k'; v] :: t => if str_eqb k k' then Some v else sx_assoc t k
  | _ :: t => sx_assoc t k
  | [] => None
  end.

Definition load_ok (c : case) (ran_outs : list sx) (ran_info ran_inputs ran_defaults : sx) (l : sx) : bool :=
  match l with
  | SL [SL louts; SL [SS t; SL [info; inputs; defaults]]; xr] =>
      forallb (fun o => match sx_assoc ran_outs o, sx_assoc louts o with
                        | Some want, Some (SL [SS t'; got]) => str_eqb t' (s "ok") && sx_eqb got want
                        | _, _ => false end) (persisting_outputs c)
      && str_eqb t (s "ok") && sx_eqb info ran_info && sx_eqb inputs ran_inputs && sx_eqb defaults ran_defaults
      && (if str_eqb (c_xr c) (s "ok")
          then match xr with
               | SL [SS t'; SL vars; coords] =>
                   str_eqb t' (s "ok")
                   && sx_eqb coords (xr_coords (c_xr_coords c) (map (fun kv => (fst kv, PVal (snd kv))) (c_inputs c)))
                   && forallb (fun f => match fspec f with
                                        | Some ms => forallb (fun a => match sx_assoc vars (aname a) with
                                                                       | Some d => sx_eqb d (SL (map SS (indices a)))
                                                                       | None => false end) (outs ms)
                                        | None => true end) (c_funcs c)
               | _ => false end
          else true)
  | _ => false
  end.

(* a storage dict must name a backend for every mapped output (or have the "" default): otherwise map itself refuses *)
Definition storage_complete (c : case) : bool :=
  forallb (fun f => negb (is_mapped f)
                    || is_ok (storage_class (normalize_storage (c_storage c)) (output_key_of f))) (c_funcs c).

Definition spec_ok (c : case) (o : sx) : bool :=
  if negb (request_ok (c_funcs c) (c_inputs c) && storage_complete c) then true else
  match c_mut c with MNone => false | _ => true end ||
  match denote_run sym_body (c_funcs c) (c_inputs c) (c_internal c) with
  | Err _ => true
  | Ok d =>
      match o with
      | SL [SS t; SL [SL [SL ran_outs; ran_info; ran_inputs; ran_defaults]; _; l1; l2; unchanged; _; _]] =>
          str_eqb t (s "ok")
          (* (1) *)
          && sx_eqb (SL ran_outs) (SL (map (fun x => SL [SS (fst x); sx_val (snd x)]) (d_out d)))
          (* (3), request side *)
          && sx_eqb ran_inputs (sx_inputs (map (fun kv => (fst kv, PVal (snd kv))) (c_inputs c)))
          && match ran_info with
             | SL [_; _; _; _; st; specs; _; _] =>
                 sx_eqb st (sx_storage (normalize_storage (c_storage c)))
                 && sx_eqb specs (SL (map SS (sort_set (flat_map (fun f => match fspec f with
                                                                           | Some ms => [print ms] | None => [] end) (c_funcs c)))))
             | _ => false end
          (* (2) (3) (4) for both loads *)
          && load_ok c ran_outs ran_info ran_inputs ran_defaults l1
          && (match l2 with SS x => str_eqb x (s "same") | _ => load_ok c ran_outs ran_info ran_inputs ran_defaults l2 end)
          (* (5) *)
          && sx_eqb unchanged (SB true)
      | _ => false
      end
  end.
