(* C05 correspondence: file-system event traces of runs, crash injection at every event, resume.
   Model observation `run`, executable statement `spec_ok`. *)
From Verif Require Export Base.Prelude Base.StrUtil Base.Index Base.NdArr Base.PyRange Base.StrSeq
  Model.MapSpec Model.MapSpecSpec Model.MapRun Model.MapDenote Model.SymBody Model.MapResume Model.FixedSpec
  Model.CrashFS Model.CrashExec.
From Verif Require Export Corr.Run_C06.

Inductive case :=
| CEvents (q : req) (st : storage) (old : bool)
    (* a first run (cleanup=True, fresh folder) and a second run with cleanup=False on the completed folder:
       event traces and outcomes.  old = the write protocol before the repair, re-created by the harness *)
| CCrash (q : req) (st : storage) (old : bool) (fail : option (str * nat)) (k1 : option nat) (k2 : option nat)
    (* first run: the n-th call of function `fail` raises (if given); the process is killed at event k1 (if given);
       then (if k2 is given) a resume with cleanup=False killed at event k2; then a final resume with cleanup=False *)
| CChain (q : req) (st : storage) (steps : list (str * nat * bool)).
    (* a chain of interruptions by a RAISING user function: the first run (cleanup=True) and every following resumed
       run (cleanup=False) raises at the n-th call (numbered as in an uninterrupted run) of the named function - a
       transient fault: only that run raises there; the flag = the run uses the reverse-order executor of
       Model/CrashExec.v, else it is sequential (parallel=False); then a final sequential resume with cleanup=False *)

Definition variant_of (old : bool) : variant := if old then OldCode else NewCode.

(* ------------------------------------------------------------------ rendering *)
Definition sx_event (e : event) : sx :=
  match e with
  | Mkdir p => SL [SS (s "mkdir"); SS p]
  | Create p => SL [SS (s "create"); SS p]
  | Append p _ => SL [SS (s "append"); SS p]
  | Close p => SL [SS (s "close"); SS p]
  | Replace t p => SL [SS (s "replace"); SS t; SS p]
  | Rmtree p => SL [SS (s "rmtree"); SS p]
  | Call l => SL [SS (s "call"); SS l]
  end.

Definition sx_outcome (q : req) (r : result (list (str * val))) : sx :=
  match r with
  | Err e => SL [SS (s "err"); SS (s (err_name e))]
  | Ok outs => SL [SS (s "ok");
                   SL (flat_map (fun o => match dict_get outs o with
                                          | Some v => [SL [SS o; Run_C06.sx_val v]]
                                          | None => [] end) (out_names q))]
  end.

(* external shape of the mapped output o *)
Definition ext_shape_of (q : req) (o : str) : list nat :=
  match mk_ctx q, producer (q_funcs q) o with
  | Ok cx, Some f => match shape_of cx f with Ok sm => ext_of (snd sm) (fst sm) | Err _ => [] end
  | _, _ => []
  end.

(* the keys of a persisted dict: external positions that hold an element *)
Definition dict_keys (q : req) (s0 : fs) (p : path) : sx :=
  match dict_get (files s0) p with
  | Some (Complete (PDict cells)) =>
      let o := flat_map (fun name => if str_eqb (p_dict name) p then [name] else []) (out_names q) in
      match o with
      | name :: _ =>
          let ext := ext_shape_of q name in
          SL (flat_map (fun ic => match snd ic with
                                  | Some _ => [SL (map SN (unravel ext (fst ic)))]
                                  | None => [] end) (combine (seq 0 (length cells)) cells))
      | [] => SL []
      end
  | _ => SL []
  end.

(* the files below the run folder (temporary files excluded), whether they are complete, and for a persisted dict its
   keys; sorted by path *)
Definition listing (q : req) (s0 : fs) : sx :=
  let fl := filter (fun pc => negb (is_tmp (fst pc))) (files s0) in
  SL (map (fun p => SL [SS p; SN (if is_complete s0 p then 1 else 0); dict_keys q s0 p]) (sort_str (map fst fl))).

Definition call_lines (evs : list event) : list str :=
  flat_map (fun e => match e with Call l => [l] | _ => [] end) evs.

(* the n-th call of function fn in an uninterrupted run *)
Definition nth_call_line (q : req) (fn : str) (n : nat) : option str :=
  match map_run_sel sym_body (q_funcs q) (q_inputs q) (q_internal q) None empty_store with
  | ROk ps => nth_error (flat_map (fun a => match a with
                                            | ACall f _ kw => if str_eqb f fn then [app_str f kw] else []
                                            | _ => [] end) (p_tr ps)) n
  | RErr _ _ => None
  end.
Definition fail_body (line : option str) (f : mfunc) (kw : env) : result (list val) :=
  match line with
  | Some l => if str_eqb (app_str (fname f) kw) l then Err RuntimeError else sym_body f kw
  | None => sym_body f kw
  end.

Definition run_on (b : mfunc -> env -> result (list val)) (v : variant) (st : storage) (q : req) (cleanup : bool) (s0 : fs)
  : outcome := run_fs b v st (q_funcs q) (q_inputs q) (q_internal q) cleanup s0.
Definition run_on_exec (b : mfunc -> env -> result (list val)) (v : variant) (st : storage) (q : req) (cleanup : bool) (s0 : fs)
  : outcome := run_fs_exec b v st (q_funcs q) (q_inputs q) (q_internal q) cleanup s0.

(* the interrupted runs of a chain: the file system they leave and the user calls they made *)
Definition run_chain (q : req) (st : storage) (steps : list (str * nat * bool)) : fs * list str :=
  let r := fold_left (fun (acc : fs * list str * bool) (step : str * nat * bool) =>
                        let '(s0, calls, first) := acc in
                        let '(fn, n, exec) := step in
                        let b := fail_body (nth_call_line q fn n) in
                        let r := (if exec then run_on_exec else run_on) b NewCode st q first s0 in
                        (o_fs r, calls ++ call_lines (o_events r), false))
                     steps (empty_fs, [], true) in
  (fst (fst r), snd (fst r)).

(* load_outputs on the folder the final run left: every output read back through init_store *)
Definition sx_reload (q : req) (v : variant) (st : storage) (r : outcome) : sx :=
  match o_result r with
  | Err _ => SNone
  | Ok _ =>
      match mk_ctx q with
      | Err e => SErr e
      | Ok cx =>
          match init_store v st cx (o_fs r, []) with
          | Err e => SErr e
          | Ok (_, rs) =>
              SL (flat_map (fun f => match stored_view cx rs f with
                                     | Ok l => map (fun ov => SL [SS (fst ov); Run_C06.sx_val (snd ov)]) l
                                     | Err e => map (fun o => SL [SS o; SErr e]) (fouts f)
                                     end) (q_funcs q))
          end
      end
  end.

Definition cut (evs : list event) (k : option nat) : list event :=
  match k with Some n => firstn n evs | None => evs end.

(* the decidable hypotheses of C05_resume_eq_uninterrupted (order conditions; distinct files have distinct names) hold
   for every request that satisfies C01's request_ok; the implementation side of this component is the constant True *)
Definition hyps_ok (q : req) : bool :=
  negb (MapDenote.request_ok (q_funcs q) (q_inputs q))
  || match mk_ctx q with
     | Ok cx => pipeline_order_ok (q_funcs q) && paths_ok cx (map fst (q_inputs q))
     | Err _ => true
     end.

Definition run (c : case) : sx :=
  match c with
  | CEvents q st old =>
      let v := variant_of old in
      let r1 := run_on sym_body v st q true empty_fs in
      let r2 := run_on sym_body v st q false (o_fs r1) in
      SL [SL (map sx_event (o_events r1)); sx_outcome q (o_result r1);
          SL (map sx_event (o_events r2)); sx_outcome q (o_result r2); SB (hyps_ok q)]
  | CCrash q st old fail k1 k2 =>
      let v := variant_of old in
      let line := match fail with Some (fn, n) => nth_call_line q fn n | None => None end in
      let r1 := run_on (fail_body line) v st q true empty_fs in
      let e1 := cut (o_events r1) k1 in
      let s1 := apply_evs empty_fs e1 in
      match k2 with
      | None =>
          let r := run_on sym_body v st q false s1 in
          SL [listing q s1; sx_outcome q (o_result r);
              Run_C06.sx_calls (call_lines e1); Run_C06.sx_calls (call_lines (o_events r)); sx_reload q v st r]
      | Some k =>
          let r2 := run_on sym_body v st q false s1 in
          let e2 := firstn k (o_events r2) in
          let s2 := apply_evs s1 e2 in
          let r := run_on sym_body v st q false s2 in
          SL [listing q s2; sx_outcome q (o_result r);
              Run_C06.sx_calls (call_lines e1 ++ call_lines e2); Run_C06.sx_calls (call_lines (o_events r)); sx_reload q v st r]
      end
  | CChain q st steps =>
      let sc := run_chain q st steps in
      let r := run_on sym_body NewCode st q false (fst sc) in
      SL [listing q (fst sc); sx_outcome q (o_result r);
          Run_C06.sx_calls (snd sc); Run_C06.sx_calls (call_lines (o_events r)); sx_reload q NewCode st r]
  end.

(* ------------------------------------------------------------------ the executable statement *)
Definition expected_outcome (q : req) (o : oracle) : sx :=
  SL [SS (s "ok");
      SL (flat_map (fun x => match x with SL [n; v; _] => [SL [n; v]] | _ => [] end)
                   (match o_results o with SL l => l | _ => [] end))].

Definition listed_complete (lst : sx) (p : path) : bool :=
  match lst with
  | SL l => existsb (fun x => match x with
                              | SL [SS p'; SI z; _] => str_eqb p p' && (z =? 1)%Z
                              | _ => false end) l
  | _ => false
  end.
(* the complete dict file p lists the key `pos` *)
Definition listed_key (lst : sx) (p : path) (pos : list nat) : bool :=
  match lst with
  | SL l => existsb (fun x => match x with
                              | SL [SS p'; SI z; SL keys] =>
                                  str_eqb p p' && (z =? 1)%Z && existsb (fun k => sx_eqb k (SL (map SN pos))) keys
                              | _ => false end) l
  | _ => false
  end.

(* the call lines of the elements that were completely stored when the final resume started *)
Definition stored_calls (q : req) (o : oracle) (st : storage) (lst : sx) : list str :=
  flat_map (fun f =>
              let pl := match dict_get (o_calls o) (fname f) with Some l => l | None => [] end in
              let lines := map snd pl in
              if is_mapped f then
                match st with
                | FileSt =>
                    flat_map (fun il => if forallb (fun out => listed_complete lst (p_elem out (fst il))) (fouts f)
                                        then [snd il] else [])
                             (combine (seq 0 (length lines)) lines)
                | _ =>
                    (* an element is stored when every output's persisted dict has its key *)
                    flat_map (fun el => if forallb (fun out => listed_key lst (p_dict out) (fst el)) (fouts f)
                                        then [snd el] else []) pl
                end
              else if forallb (fun out => listed_complete lst (p_single out)) (fouts f) then lines else [])
           (q_funcs q).

(* the statement for an interrupted and then resumed run; obs = [files before the final resume; outcome of the final
   resume; calls before; calls of the final resume; the folder read back] - whatever interrupted the earlier runs
   (a kill at any file-system event, a raising user function, sequentially or behind an out-of-order executor,
   once or several times in a row) *)
Definition resumed_ok (q : req) (st : storage) (obs : sx) : bool :=
      match mk_oracle q, obs with
  | None, _ => true
  | Some o, SL [lst; out; _; calls; reload] =>
      match un_strs calls with
      | Some cl =>
          (* the resumed run completes and yields exactly the uninterrupted results (hence no partial or stale value) *)
          sx_eqb out (expected_outcome q o)
          (* ... also as read back from the folder afterwards *)
          && sx_eqb (SL [SS (s "ok"); reload]) (expected_outcome q o)
          (* and recomputes no element that was completely stored *)
          && forallb (fun l => negb (mem_str l cl)) (stored_calls q o st lst)
      | None => false
      end
  | Some _, _ => false
  end.

Definition spec_ok (c : case) (obs : sx) : bool :=
  match c with
  | CEvents q st old =>
      if old then true else
      match mk_oracle q, obs with
      | None, _ => true
      | Some o, SL [_; out1; SL evs2; out2; _] =>
          (* an uninterrupted run yields the denotation; re-running it with cleanup=False yields the same and calls nothing *)
          sx_eqb out1 (expected_outcome q o) && sx_eqb out2 (expected_outcome q o)
          && negb (existsb (fun e => match e with SL [SS k; _] => str_eqb k (s "call") | _ => false end) evs2)
      | Some _, _ => false
      end
  | CCrash q st old _ _ _ => if old then true else resumed_ok q st obs
      (* the old protocol is only documented (see Props/C05.v, resume_refuted_inplace) *)
  | CChain q st _ => resumed_ok q st obs
  end.
