(* C06 correspondence: runs of a map in pieces (fixed_indices) and through learners; the exhaustive
   slice/int table.  Model observation `run`, executable statement `spec_ok`. *)
From Verif Require Export Base.Prelude Base.StrUtil Base.Index Base.NdArr Base.PyRange Base.StrSeq
  Model.MapSpec Model.MapSpecSpec Model.MapRun Model.MapDenote Model.SymBody Model.MapResume Model.FixedSpec.


Record req := { q_funcs : list mfunc; q_inputs : env; q_internal : shape_dict }.

Inductive case :=
| CParts (q : req) (parts : list fixed)
    (* each part: map(fixed_indices=part, cleanup=False) on the same folder, then one full run *)
| CLearners (q : req) (split : bool) (order : list (nat * nat * nat)) (rev_points : bool)
    (* create_learners(split_independent_axes=split); learners (key, generation, position) run in `order` *)
| CRange (n : nat)
    (* slice(a,b,c).indices(n) for a,b,c in {None,-4..4}; seq[k] for k in -6..6 *)
| CLink (q : req).
    (* link between the two models: Model/MapRun.map_run (C01) and map_run_sel on the empty store without a request
       give the same observation (outputs, stored arrays, number of calls / error class) *)

(* ------------------------------------------------------------------ rendering *)
Definition sx_val (v : val) : sx :=
  match v with
  | VS x => SL [SS (s "val"); SS x]
  | VA a => SL [SS (s "arr"); SL (map SN (shp a)); SL (map SS (dat a))]
  end.
Definition sx_bits (l : list bool) : sx := SL (map (fun b : bool => SN (if b then 1 else 0)) l).

(* the call-log line of the structural functions: name(p=<canon>,...) *)
Definition app_str (fn : str) (kw : env) : str :=
  fn ++ s "(" ++ join (s ",") (map (fun pv => fst pv ++ s "=" ++ canon (snd pv)) kw) ++ s ")".
Definition call_strs (tr : list action) : list str :=
  flat_map (fun a => match a with ACall f _ kw => [app_str f kw] | _ => [] end) tr.
Definition sx_calls (l : list str) : sx := SL (map SS (sort_str l)).

Definition out_names (q : req) : list str := flat_map fouts (q_funcs q).

Definition mk_ctx (q : req) : result ctx :=
  do shapes <- all_shapes (q_internal q) (q_inputs q) (q_funcs q);
  Ok {| x_p := q_funcs q; x_inputs := q_inputs q; x_shapes := shapes |}.

Definition sx_masks (c : ctx) (rs : rstore) : result sx :=
  do l <- mapM (masks_view c rs) (x_p c);
  Ok (SL (map (fun om => SL [SS (fst om); sx_bits (snd om)]) (concat l))).

(* Result.output of a partial run: where it still holds None (mapped outputs only) *)
Definition none_pattern (q : req) (ps : pstate) : sx :=
  SL (flat_map (fun f =>
        map (fun o => SL [SS o;
                          match dict_get (p_out ps) o with
                          | Some (VA a) => if is_mapped f then sx_bits (map (fun x => str_eqb x none_str) (dat a))
                                           else sx_bits [false]
                          | _ => sx_bits [false]
                          end]) (fouts f)) (q_funcs q)).

Definition sx_results (c : ctx) (ps : pstate) : result sx :=
  do l <- mapM (stored_view c (p_store ps)) (x_p c);
  Ok (SL (map (fun ov => SL [SS (fst ov);
                              match dict_get (p_out ps) (fst ov) with Some v => sx_val v | None => SL [SS (s "missing")] end;
                              sx_val (snd ov)]) (concat l))).

(* ------------------------------------------------------------------ model observation *)
Fixpoint run_parts (q : req) (c : ctx) (parts : list (option fixed)) (rs : rstore) : list sx :=
  match parts with
  | [] => []
  | fx :: rest =>
      match map_run_sel sym_body (q_funcs q) (q_inputs q) (q_internal q) fx rs with
      | RErr e tr => [SL [SErr e; SN (length (call_strs tr))]]
      | ROk ps =>
          match fx with
          | Some _ =>
              match sx_masks c (p_store ps) with
              | Ok m => SL [SS (s "part"); sx_calls (call_strs (p_tr ps)); m; none_pattern q ps]
                        :: run_parts q c rest (p_store ps)
              | Err e => [SL [SS (s "view"); SErr e]]
              end
          | None =>
              match sx_results c ps with
              | Ok r => SL [SS (s "final"); sx_calls (call_strs (p_tr ps)); r] :: run_parts q c rest (p_store ps)
              | Err e => [SL [SS (s "view"); SErr e]]
              end
          end
      end
  end.

Definition sx_fsel (f : fsel) : sx :=
  let o (x : option Z) := match x with Some z => SI z | None => SNone end in
  match f with
  | FInt k => SI k
  | FSlice a b c => SL [SS (s "s"); o a; o b; o c]
  end.

Definition sx_struct (ls : list (fixed * list (list learner))) : sx :=
  SL (map (fun kg =>
             SL [SL (map (fun af => SL [SS (fst af); sx_fsel (snd af)]) (fst kg));
                 SL (map (fun g => SL (map (fun l => SL [SS (fname (l_f l));
                                                         SL (map (fun x => match x with Some i => SN i | None => SI (-1) end)
                                                                 (l_seq l))]) g))
                         (snd kg))]) ls).

Definition run_learners_case (q : req) (split : bool) (order : list (nat * nat * nat)) (rev_points : bool) : sx :=
  match create_learners (q_funcs q) (q_inputs q) (q_internal q) None split with
  | Err e => SL [SS (s "create"); SErr e]
  | Ok (c, ls) =>
      match run_learners sym_body c ls order rev_points {| ls_store := empty_store; ls_tr := [] |} with
      | RErr e tr => SL [SS (s "run"); sx_struct ls; SErr e; SN (length (call_strs tr))]
      | ROk st =>
          match sx_masks c (ls_store st),
                mapM (fun f => if single_exists (ls_store st) f || is_mapped f
                               then stored_view c (ls_store st) f
                               else Ok (map (fun o => (o, VS (s "<missing>"))) (fouts f))) (x_p c) with
          | Ok m, Ok l =>
              SL [SS (s "ok"); sx_struct ls; sx_calls (call_strs (ls_tr st)); m;
                  SL (map (fun ov => SL [SS (fst ov);
                                         match snd ov with
                                         | VS x => if str_eqb x (s "<missing>") then SL [SS (s "missing")] else sx_val (snd ov)
                                         | v => sx_val v end]) (concat l))]
          | Err e, _ => SL [SS (s "view"); SErr e]
          | _, Err e => SL [SS (s "view"); SErr e]
          end
      end
  end.

Definition zvals : list (option Z) := None :: map (fun k => Some (Z.of_nat k - 4)%Z) (seq 0 9).
Definition run_range (n : nat) : sx :=
  SL [SL (flat_map (fun a => flat_map (fun b => map (fun c =>
            match slice_indices a b c n with
            | Ok l => SL (map SN l)
            | Err e => SErr e
            end) zvals) zvals) zvals);
      SL (map (fun k => match norm_int (Z.of_nat k - 6)%Z n with Ok i => SN i | Err e => SErr e end) (seq 0 13))].

(* the observation of C01 (Corr/Run_C01.v) computed from either model *)
Definition obs_map_run (q : req) : sx :=
  match map_run sym_body (q_funcs q) (q_inputs q) (q_internal q) with
  | Ok st => SL [SS (s "ok");
                 SL (map (fun x => SL [SS (fst (fst x)); sx_val (snd (fst x)); sx_val (snd x)])
                         (flat_map (fun o => filter (fun x => str_eqb (fst (fst x)) o) (r_out st)) (out_names q)));
                 SN (r_calls st)]
  | Err e => SErr e
  end.
Definition obs_map_run_sel (q : req) : sx :=
  match mk_ctx q, map_run_sel sym_body (q_funcs q) (q_inputs q) (q_internal q) None empty_store with
  | Ok cx, ROk ps =>
      match sx_results cx ps with
      | Ok r => SL [SS (s "ok"); r; SN (length (call_strs (p_tr ps)))]
      | Err e => SErr e
      end
  | _, RErr e _ => SErr e
  | Err e, _ => SErr e
  end.

Definition run (c : case) : sx :=
  match c with
  | CParts q parts =>
      match mk_ctx q with
      | Ok cx => SL (run_parts q cx (map Some parts ++ [None]) empty_store)
      | Err e => SL [SL [SErr e; SN 0]]
      end
  | CLearners q split order rev_points => run_learners_case q split order rev_points
  | CRange n => run_range n
  | CLink q => SB (sx_eqb (obs_map_run q) (obs_map_run_sel q)
                  (* and the order conditions of the link theorem hold for the request *)
                  && (negb (request_ok (q_funcs q) (q_inputs q))
                      || (pipeline_order_ok (q_funcs q) && consistent_axesb (arrayspecs (q_funcs q)))))
  end.

(* ------------------------------------------------------------------ the executable statement *)
Definition un_strs (x : sx) : option (list str) :=
  match x with
  | SL l => (fix go (l : list sx) : option (list str) :=
               match l with
               | [] => Some []
               | SS t :: r => match go r with Some r' => Some (t :: r') | None => None end
               | _ => None
               end) l
  | _ => None
  end.
Fixpoint nodup_strs (l : list str) : bool :=
  match l with [] => true | x :: t => negb (mem_str x t) && nodup_strs t end.

(* the denotation of the full run and, from it, the call every element makes *)
Record oracle := {
  o_den : den_state;
  o_results : sx;                                 (* expected [name; output; stored] of a complete run *)
  o_calls : list (str * list (list nat * str));   (* per function name: external position -> call line *)
  o_funcs : list (mfunc * list str * list nat)    (* mapped functions: external axis names, external shape *)
}.

Definition expected_calls (d : den_state) (f : mfunc) : result (list (list nat * str)) :=
  do kw <- func_kwargs f (d_env d);
  if is_mapped f then
    match fspec f, match fouts f with o :: _ => dict_get (d_shapes d) o | [] => None end with
    | Some ms, Some (sh, mask) =>
        mapM (fun e => do sel <- mapM (arg_at ms e) kw; Ok (e, app_str (fname f) sel)) (all_indices (ext_of mask sh))
    | _, _ => Err KeyError
    end
  else Ok [([], app_str (fname f) kw)].

Definition mk_oracle (q : req) : option oracle :=
  if negb (request_ok (q_funcs q) (q_inputs q)) then None else
  match denote_run sym_body (q_funcs q) (q_inputs q) (q_internal q) with
  | Err _ => None
  | Ok d =>
      match mapM (fun f => do l <- expected_calls d f; Ok (fname f, l)) (q_funcs q) with
      | Err _ => None
      | Ok calls =>
          Some {| o_den := d;
                  o_results := SL (flat_map (fun o => match dict_get (d_out d) o with
                                                      | Some v => [SL [SS o; sx_val v; sx_val v]]
                                                      | None => [] end) (out_names q));
                  o_calls := calls;
                  o_funcs := flat_map (fun f =>
                               match fspec f, match fouts f with o :: _ => dict_get (d_shapes d) o | [] => None end with
                               | Some ms, Some (sh, mask) =>
                                   if is_mapped f then [(f, external_indices ms, ext_of mask sh)] else []
                               | _, _ => [] end) (q_funcs q) |}
      end
  end.

(* presence of the elements of every function: mapped -> one bit per external position (row-major),
   unmapped -> one bit *)
Definition presence := list (str * list bool).
Definition init_presence (q : req) (o : oracle) : presence :=
  map (fun f => (fname f,
                 match find (fun x => str_eqb (fname (fst (fst x))) (fname f)) (o_funcs o) with
                 | Some (_, _, ext) => repeat false (prod ext)
                 | None => [false]
                 end)) (q_funcs q).

(* the positions a part selects in function f (all of them without a request / for an unmapped function) *)
Definition sel_bits (o : oracle) (fx : option fixed) (f : mfunc) (n : nat) : list bool :=
  match fx, find (fun x => str_eqb (fname (fst (fst x))) (fname f)) (o_funcs o) with
  | Some d, Some (_, names, ext) => part_positions d names ext
  | _, _ => repeat true n
  end.

Definition or_bits (a b : list bool) : list bool := map (fun xy => fst xy || snd xy) (combine a b).

(* one successful run: new presence and the call lines it must have made *)
Definition step_expect (q : req) (o : oracle) (fx : option fixed) (pr : presence) : presence * list str :=
  fold_left (fun acc f =>
               let before := match dict_get pr (fname f) with Some b => b | None => [] end in
               let sel := sel_bits o fx f (length before) in
               let lines := match dict_get (o_calls o) (fname f) with Some l => map snd l | None => [] end in
               let new := flat_map (fun bsl => if negb (fst (fst bsl)) && snd (fst bsl) then [snd bsl] else [])
                                   (combine (combine before sel) lines) in
               (fst acc ++ [(fname f, or_bits before sel)], snd acc ++ new))
            (q_funcs q) ([], []).

(* masks as the implementation reports them: per output name, 1 = missing *)
Definition expected_masks (q : req) (pr : presence) : sx :=
  SL (flat_map (fun f => map (fun o => SL [SS o; sx_bits (map negb (match dict_get pr (fname f) with Some b => b | None => [] end))])
                             (fouts f)) (q_funcs q)).

Definition shapes_of (o : oracle) : shapes_t := d_shapes (o_den o).

Fixpoint parts_ok (q : req) (o : oracle) (parts : list (option fixed)) (pr : presence) (seen : list str) (obs : list sx) : bool :=
  match parts, obs with
  | [], [] => true
  | fx :: rest, step :: obs' =>
      let st := match fx with
                | Some d => request_status (q_funcs q) (q_inputs q) (shapes_of o) d
                | None => Valid end in
      match st with
      | Unspecified => true
      | Rejected =>
          (* rejected with an exception before any user function is called; nothing else is observed *)
          match step, obs' with
          | SL [e; SI n], [] => sx_is_err e && (n =? 0)%Z
          | _, _ => false
          end
      | Valid =>
          let ex := step_expect q o fx pr in
          match step with
          | SL [SS t; calls; m; _] =>
              match un_strs calls, fx with
              | Some cl, Some _ =>
                  str_eqb t (s "part")
                  && list_eqb str_eqb cl (sort_str (snd ex))            (* computes precisely the selected, missing elements *)
                  && sx_eqb m (expected_masks q (fst ex))               (* exactly those are present afterwards *)
                  && nodup_strs (cl ++ seen)                            (* nothing is computed twice *)
                  && parts_ok q o rest (fst ex) (cl ++ seen) obs'
              | _, _ => false
              end
          | SL [SS t; calls; r] =>
              match un_strs calls, fx with
              | Some cl, None =>
                  str_eqb t (s "final")
                  && list_eqb str_eqb cl (sort_str (snd ex))            (* a full run computes only what is still missing *)
                  && sx_eqb r (o_results o)                             (* returned and stored = denotation of the full run *)
                  && nodup_strs (cl ++ seen)
                  && parts_ok q o rest (fst ex) (cl ++ seen) obs'
              | _, _ => false
              end
          | _ => false
          end
      end
  | _, _ => false
  end.

(* learners: `order` must run every learner of the observed structure once, generations in order per key *)
Definition un_nat (x : sx) : option nat := match x with SI z => if (z <? 0)%Z then None else Some (Z.to_nat z) | _ => None end.
Definition struct_shape (st : sx) : list (list nat) :=   (* per key: number of learners per generation *)
  match st with
  | SL keys => map (fun k => match k with
                             | SL [_; SL gens] => map (fun g => match g with SL ls => length ls | _ => 0 end) gens
                             | _ => [] end) keys
  | _ => []
  end.
Definition triple_eqb (a b : nat * nat * nat) : bool :=
  (fst (fst a) =? fst (fst b)) && (snd (fst a) =? snd (fst b)) && (snd a =? snd b).
Fixpoint order_respects (order : list (nat * nat * nat)) : bool :=
  match order with
  | [] => true
  | x :: t => forallb (fun y => negb ((fst (fst y) =? fst (fst x)) && (snd (fst y) <? snd (fst x)))) t
              && negb (existsb (triple_eqb x) t) && order_respects t
  end.
Definition order_complete (shape : list (list nat)) (order : list (nat * nat * nat)) : bool :=
  forallb (fun kgs => forallb (fun gn => forallb (fun l => existsb (triple_eqb (fst kgs, fst gn, l)) order)
                                                  (seq 0 (snd gn)))
                              (combine (seq 0 (length (snd kgs))) (snd kgs)))
          (combine (seq 0 (length shape)) shape)
  && forallb (fun x => match nth_error shape (fst (fst x)) with
                       | Some gs => match nth_error gs (snd (fst x)) with Some n => snd x <? n | None => false end
                       | None => false end) order.

(* split_independent_axes is in the property's domain when no axis of a supplied input is reduced *)
Definition split_domain (q : req) : bool :=
  forallb (fun f => match fspec f with
                    | Some m => forallb (fun sp => match dict_get (q_inputs q) (aname sp) with
                                                   | Some _ => forallb (fun a => negb (axis_reduced (q_funcs q) a)) (indices sp)
                                                   | None => true end) (ins m)
                    | None => true end) (q_funcs q).

Definition learners_ok (q : req) (o : oracle) (split : bool) (order : list (nat * nat * nat)) (obs : sx) : bool :=
  if split && negb (split_domain q) then true else
  match obs with
  | SL [SS t; st; calls; m; stored] =>
      if negb (order_respects order && order_complete (struct_shape st) order) then true
      else
        let all := step_expect q o None (init_presence q o) in
        match un_strs calls with
        | Some cl =>
            str_eqb t (s "ok")
            && list_eqb str_eqb cl (sort_str (snd all))          (* every element exactly once *)
            && sx_eqb m (expected_masks q (fst all))              (* everything present *)
            && sx_eqb stored (SL (flat_map (fun ov => match ov with SL [n; _; v] => [SL [n; v]] | _ => [] end)
                                           (match o_results o with SL l => l | _ => [] end)))
        | None => false
        end
  | _ => false
  end.

Definition spec_ok (c : case) (obs : sx) : bool :=
  match c with
  | CParts q parts =>
      match mk_oracle q with
      | None => true
      | Some o =>
          match obs with
          | SL steps => parts_ok q o (map Some parts ++ [None]) (init_presence q o) [] steps
          | _ => false
          end
      end
  | CLearners q split order _ =>
      match mk_oracle q with
      | None => true
      | Some o => learners_ok q o split order obs
      end
  | CRange _ => true
  | CLink _ => true
  end.
