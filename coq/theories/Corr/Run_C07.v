(* C07 correspondence: case type, model run (as sx observation), executable statement spec_ok.

   A store case = backend, external shape, internal shape, shape_mask, operation list (elements: ints, None, strings);
   its observation = the list of canonical outputs of the operations:
     array / scalar / masked  ->  [shape; flat cells]   cell: int | str | none (= a Python None) | [] (= masked)
     mask_linear              ->  list of bools,   has_index -> bool,   dump / persist -> none,   exception -> err class
   The other kinds are the table comparisons of the Python-semantics definitions (Base/PySlice.v, Base/Index.v) with
   CPython / NumPy ("pre_checks"): they carry no statement of the property (spec_ok = true), a disagreement shows as a
   correspondence failure. *)
From Verif Require Export Base.Prelude Base.Index Base.PySlice Model.Store.

Inductive backend := BFile | BDict | BShm.

(* the elements stored by the cases: ints (incl. the falsy 0), the Python value None (a stored None is a value, it is
   NOT a masked / missing element), strings (incl. the falsy "").  In an observation a stored None and the None of a
   never-assigned np.empty cell look the same (both are Python's None); the reference never shows the latter. *)
Inductive elem := EI (z : Z) | EN | ES (x : str).
Coercion EI : Z >-> elem.
Definition sx_elem (e : elem) : sx := match e with EI z => SI z | EN => SNone | ES x => SS x end.

Inductive case :=
| CStore (b : backend) (ext int : list nat) (mask : list bool) (ops : list (op elem))
| CSliceTab (a b c : option Z)        (* [list(range( *slice(a,b,c).indices(n))) for n in 0..5] *)
| CNormTab (n : nat)                  (* normalisation of the ints -7..7 on an axis of size n *)
| CCart (ls : list (list nat))        (* itertools.product *)
| CUnravel (sh : list nat).           (* [np.unravel_index(i, sh) for i < prod sh], iterate_shape_indices, strides *)

(* short names used by the generated case files *)
Definition Ki := KInt.
Definition Ks := KSlice.

Definition sx_nats (l : list nat) : sx := SL (map SN l).
Definition sx_masked : sx := SL [].
Definition sx_cell (c : cell elem) : sx := match c with Val e => sx_elem e | Masked => sx_masked | Uninit => SNone end.
Definition sx_out (o : out elem) : sx :=
  match o with
  | OArr sh cells => SL [sx_nats sh; SL (map sx_cell cells)]
  | OMask sh missing => SL [sx_nats sh; SL (map (fun b : bool => if b then sx_masked else SB false) missing)]
  | OBools l => SL (map SB l)
  | OBool b => SB b
  | ONone => SNone
  | OErr e => SErr e
  end.

Definition mk_geom (ext int : list nat) (mask : list bool) : geom := {| g_ext := ext; g_int := int; g_mask := mask |}.

Definition run_store (b : backend) (g : geom) (ops : list (op elem)) : list (out elem) :=
  match b with
  | BFile => run_ops elem (stepF elem g) [] ops
  | BDict | BShm => run_ops elem (stepD elem g) [] ops
  end.

Definition sx_res_nats (r : result (list nat)) : sx := sx_of_result sx_nats r.

Definition run (c : case) : sx :=
  match c with
  | CStore b ext int mask ops => SL (map sx_out (run_store b (mk_geom ext int mask) ops))
  | CSliceTab a b c => SL (map (fun n => sx_res_nats (slice_indices a b c n)) (seq 0 6))
  | CNormTab n => SL (map (fun k => sx_of_result SN (norm_int (Z.of_nat k - 7) n)) (seq 0 15))
  | CCart ls => SL (map sx_nats (cart ls))
  | CUnravel sh => SL [SL (map (fun i => sx_nats (unravel sh i)) (seq 0 (prod sh)));
                       SL (map sx_nats (all_indices sh)); sx_nats (strides sh)]
  end.

(* ---------- the executable statement ----------
   Reference = the masked n-d array MaskedNd, started all-masked.  For every operation of a case in the scope of the
   property (geometry consistent, values of the internal shape, linear indices < size) the canonical output must be
   the reference's output; get_from_index of a missing element must raise (class not fixed by the property). *)
Definition ref_outs (g : geom) (ops : list (op elem)) : list (out elem) :=
  run_ops elem (stepM elem OtherError g) (absent elem g) ops.

Definition out_ok (expected : out elem) (o : sx) : bool :=
  match expected with
  | OErr OtherError => sx_is_err o
  | _ => sx_eqb (sx_out expected) o
  end.

Fixpoint forallb2 {A B} (f : A -> B -> bool) (l : list A) (m : list B) : bool :=
  match l, m with
  | [], [] => true
  | a :: l', b :: m' => f a b && forallb2 f l' m'
  | _, _ => false
  end.

Definition spec_ok (c : case) (o : sx) : bool :=
  match c with
  | CStore b ext int mask ops =>
      let g := mk_geom ext int mask in
      if negb (geom_ok g && forallb (valid_op elem g) ops) then true
      else match o with
           | SL outs => forallb2 out_ok (ref_outs g ops) outs
           | _ => false
           end
  | _ => true
  end.
