(* C08 correspondence: case type, model run (as sx observation), executable statement spec_ok. *)
From Verif Require Import Base.Prelude Base.StrUtil Base.Index Model.MapSpec Model.MapSpecSpec Model.IndexOps Model.MapSpecAxes.
From Verif Require Model.XrLabelSpec.

Definition raw := list (str * list (option str)).

Inductive case :=
| CParse (x : str)                                   (* MapSpec.from_string(x) *)
| CBuild (i o : raw)                                 (* MapSpec(ArraySpec.., ..): str, round trip *)
| CShape (i o : raw) (ishapes internal : shape_dict)  (* MapSpec(..).shape(..) *)
| CKeys (i o : raw) (sh : list nat)                   (* output_key / input_keys for all linear indices *)
| CRename (i o : raw) (ren : list (str * str))
| CAddAxes (i o : raw) (ax : list (option str))
| CAxes (specs : list (raw * raw))                    (* validate_consistent_axes / mapspec_axes / mapspec_dimensions *)
| CIdx (c : idx_call)                                 (* direct call of one index helper *)
| CGen (fn : str).
    (* translator obligation for the function `fn` ("corollaries" = the transfer theorems): harness/translate_index.py
       regenerates coq/gen/Gen_Index.v from the Python source, coqc re-checks coq/gen/Check_Index.v against it.
       observed: [translation status; proof status] *)

Definition gen_expected : sx := SL [SS (s "translated"); SS (s "proved")].

Definition sx_axis (a : option str) : sx := match a with None => SNone | Some i => SS i end.
Definition sx_aspec (a : aspec) : sx := SL [SS (aname a); SL (map sx_axis (axes a))].
Definition sx_mapspec (m : mapspec) : sx := SL [SL (map sx_aspec (ins m)); SL (map sx_aspec (outs m))].
Definition sx_nats (l : list nat) : sx := SL (map SN l).
Definition sx_kitem (k : kitem) : sx := match k with KInt n => SN n | KAll => SS (s ":") end.
Definition sx_keys (d : list (str * list kitem)) : sx :=
  SL (map (fun kv => SL [SS (fst kv); SL (map sx_kitem (snd kv))]) d).

Definition sx_axes_dict (d : list (str * list (option str))) : sx :=
  SL (map (fun kv => SL [SS (fst kv); SL (map sx_axis (snd kv))]) d).
Definition sx_dims (d : list (str * nat)) : sx := SL (map (fun kv => SL [SS (fst kv); SN (snd kv)]) d).

Definition run_keys (m : mapspec) (sh : list nat) : sx :=
  let n := prod sh in
  SL [ sx_of_result sx_nats (output_key m sh n);
       sx_of_result sx_keys (input_keys m sh n);
       sx_of_result (fun l => SL (map sx_nats l)) (mapM (output_key m sh) (seq 0 n));
       sx_of_result (fun l => SL (map sx_keys l)) (mapM (input_keys m sh) (seq 0 n)) ].

Definition run (c : case) : sx :=
  match c with
  | CParse x => sx_of_result sx_mapspec (parse x)
  | CBuild i o =>
      sx_of_result (fun m => SL [SS (print m); sx_of_result sx_mapspec (parse (print m))]) (build i o)
  | CShape i o ish int =>
      match build i o with
      | Ok m => sx_of_result (fun r => SL [sx_nats (fst r); SL (map SB (snd r))]) (shape m ish int)
      | Err e => SL [SS (s "bad-case"); SErr e]
      end
  | CKeys i o sh =>
      match build i o with Ok m => run_keys m sh | Err e => SL [SS (s "bad-case"); SErr e] end
  | CRename i o ren =>
      match build i o with
      | Ok m => sx_of_result sx_mapspec (rename m ren)
      | Err e => SL [SS (s "bad-case"); SErr e]
      end
  | CAddAxes i o ax =>
      match build i o with
      | Ok m => sx_of_result sx_mapspec (add_axes m ax)
      | Err e => SL [SS (s "bad-case"); SErr e]
      end
  | CAxes specs =>
      match mapM (fun io => build (fst io) (snd io)) specs with
      | Err e => SL [SS (s "bad-case"); SErr e]
      | Ok ms => SL [sx_of_result (fun _ => SL []) (validate_consistent_axes ms);
                     sx_axes_dict (mapspec_axes ms);
                     sx_dims (mapspec_dimensions ms)]
      end
  | CIdx c => sx_of_result sx_nats (idx_run c)
  | CGen _ => gen_expected
  end.

(* ---------- decoding of observations ---------- *)
Definition un_ok (o : sx) : option sx :=
  match o with SL [SS t; v] => if str_eqb t (s "ok") then Some v else None | _ => None end.
Definition un_axis (x : sx) : option (option str) :=
  match x with SS i => Some (Some i) | SL [SS _] => Some None | _ => None end.
Fixpoint optM {A B} (f : A -> option B) (l : list A) : option (list B) :=
  match l with
  | [] => Some []
  | x :: t => match f x, optM f t with Some y, Some ys => Some (y :: ys) | _, _ => None end
  end.
Definition un_aspec (x : sx) : option aspec :=
  match x with
  | SL [SS n; SL ax] => option_map (fun a => {| aname := n; axes := a |}) (optM un_axis ax)
  | _ => None
  end.
Definition un_mapspec (x : sx) : option mapspec :=
  match x with
  | SL [SL i; SL o] =>
      match optM un_aspec i, optM un_aspec o with
      | Some i', Some o' => Some {| ins := i'; outs := o' |}
      | _, _ => None
      end
  | _ => None
  end.
Definition un_nat (x : sx) : option nat := match x with SI z => if (z <? 0)%Z then None else Some (Z.to_nat z) | _ => None end.
Definition un_nats (x : sx) : option (list nat) := match x with SL l => optM un_nat l | _ => None end.
Definition un_bool (x : sx) : option bool :=
  match x with SL [SS _; SI z] => Some (negb (z =? 0)%Z) | _ => None end.
Definition un_kitem (x : sx) : option kitem :=
  match x with SI _ => option_map KInt (un_nat x) | SS _ => Some KAll | _ => None end.
Definition un_keys (x : sx) : option (list (str * list kitem)) :=
  match x with
  | SL l => optM (fun kv => match kv with
                            | SL [SS n; SL ks] => option_map (fun k => (n, k)) (optM un_kitem ks)
                            | _ => None end) l
  | _ => None
  end.

(* ---------- the executable statement ---------- *)
Definition wf_for_keys (m : mapspec) : bool :=
  wf_decl m && nodup_str (map aname (ins m)) && nodup_str (output_indices m).

Definition keys_ok (m : mapspec) (sh : list nat) (o : sx) : bool :=
  (* only for requests the property speaks about: right rank, all sizes >= 1 *)
  if negb (wf_for_keys m && (length sh =? length (external_indices m)) && forallb (fun d => 0 <? d) sh)
  then true
  else match o with
       | SL [_; _; oks; iks] =>
           match un_ok oks, un_ok iks with
           | Some (SL oks'), Some (SL iks') =>
               match optM un_nats oks', optM un_keys iks' with
               | Some okeys, Some ikeys =>
                   list_eqb (list_eqb Nat.eqb) okeys (all_indices sh)
                   && forallb2 (fun pos ik => input_keys_ok m pos ik) (all_indices sh) ikeys
               | _, _ => false
               end
           | _, _ => false
           end
       | _ => false
       end.

Definition shape_ok (m : mapspec) (ish int : shape_dict) (o : sx) : bool :=
  if negb (wf_decl m && forallb nodup_axes (ins m) && nodup_str (map aname (ins m))
           && nodup_str (map fst ish) && nodup_str (map fst int))
  then true
  else if shape_request_ok m ish int then
    match un_ok o with
    | Some (SL [shx; SL maskx]) =>
        match un_nats shx, optM un_bool maskx with
        | Some sh, Some mask => shape_result_ok m ish int sh mask
        | _, _ => false
        end
    | _ => false
    end
  else sx_is_err o.

(* a list of MapSpecs (as a pipeline holds them).  `XrLabelSpec.consistent` is the declarative reading of "the axes of
   the mapspecs are consistent": two occurrences of one array name have the same rank and the same name wherever both
   name a position.  Then validate_consistent_axes must pass, mapspec_axes must have, for every array, one entry per
   dimension that agrees with every occurrence on every named position and is a name only if some occurrence uses
   that name there (None for ':'-only dimensions), and mapspec_dimensions must give the rank; otherwise
   validate_consistent_axes must raise. *)
Definition un_axes_dict (x : sx) : option (list (str * list (option str))) :=
  match x with
  | SL l => optM (fun kv => match kv with
                            | SL [SS n; SL ax] => option_map (fun a => (n, a)) (optM un_axis ax)
                            | _ => None end) l
  | _ => None
  end.
Definition un_dims (x : sx) : option (list (str * nat)) :=
  match x with
  | SL l => optM (fun kv => match kv with
                            | SL [SS n; r] => option_map (fun k => (n, k)) (un_nat r)
                            | _ => None end) l
  | _ => None
  end.

Definition axes_entry_ok (all : list aspec) (d : list (str * list (option str))) (a : aspec) : bool :=
  match dict_get d (aname a) with
  | Some ax =>
      (length ax =? rank a)
      && forallb2 (fun own got => match own with Some x => opt_eqb str_eqb got (Some x) | None => true end) (axes a) ax
      && forallb (fun ig => match snd ig with
                            | Some x => existsb (fun b => str_eqb (aname b) (aname a)
                                                          && opt_eqb (opt_eqb str_eqb) (nth_error (axes b) (fst ig))
                                                                     (Some (Some x))) all
                            | None => true end) (combine (seq 0 (length ax)) ax)
  | None => false
  end.

Definition axes_ok (ms : list mapspec) (o : sx) : bool :=
  if negb (forallb wf_decl ms) then true else
  let all := all_aspecs ms in
  match o with
  | SL [v; axx; dimx] =>
      if XrLabelSpec.consistent all then
        match un_ok v, un_axes_dict axx, un_dims dimx with
        | Some _, Some d, Some dd =>
            forallb (fun a => axes_entry_ok all d a && opt_eqb Nat.eqb (dict_get dd (aname a)) (Some (rank a))) all
        | _, _, _ => false
        end
      else sx_is_err v
  | _ => false
  end.

(* direct calls of the index helpers, judged against what their docstrings / the property say:
   strides[k] = product of the later dimensions; _shape_to_key(sh, n) = the n-th position in row-major
   (itertools.product) order; select_by_mask interleaves such that the masked / unmasked entries of the result are the
   two tuples (too short a tuple must raise); external/internal_shape_from_mask keep the entries with mask True/False *)
Definition idx_ok (c : idx_call) (o : sx) : bool :=
  match c with
  | IStrides sh =>
      match un_ok o with
      | Some x => match un_nats x with
                  | Some st => list_eqb Nat.eqb st (map (fun k => prod (skipn (S k) sh)) (seq 0 (length sh)))
                  | None => false end
      | None => false
      end
  | IKey sh n =>
      if forallb (fun d => 0 <? d) sh && (n <? prod sh) then
        match un_ok o with
        | Some x => match un_nats x with
                    | Some key => opt_eqb (list_eqb Nat.eqb) (nth_error (all_indices sh) n) (Some key)
                    | None => false end
        | None => false
        end
      else true
  | ISelect mask e i =>
      if (length e =? n_true mask) && (length i =? n_false mask) then
        match un_ok o with
        | Some x => match un_nats x with
                    | Some r => (length r =? length mask)
                                && list_eqb Nat.eqb (ext_of mask r) e && list_eqb Nat.eqb (int_of mask r) i
                    | None => false end
        | None => false
        end
      else if (length e <? n_true mask) || (length i <? n_false mask) then sx_is_err o
      else true
  | IExt sh mask =>
      if length sh =? length mask then
        match un_ok o with
        | Some x => match un_nats x with
                    | Some r => list_eqb Nat.eqb r (map fst (filter (fun dm => snd dm) (combine sh mask)))
                    | None => false end
        | None => false
        end
      else true
  | IInt sh mask =>
      if length sh =? length mask then
        match un_ok o with
        | Some x => match un_nats x with
                    | Some r => list_eqb Nat.eqb r (map fst (filter (fun dm => negb (snd dm)) (combine sh mask)))
                    | None => false end
        | None => false
        end
      else true
  end.

Definition renamed (ren : list (str * str)) (a : aspec) : aspec :=
  {| aname := match dict_get ren (aname a) with Some n => n | None => aname a end; axes := axes a |}.

Definition spec_ok (c : case) (o : sx) : bool :=
  match c with
  | CParse x =>
      (* whatever is accepted is well-formed (malformed strings are rejected) *)
      match un_ok o with
      | Some mx => match un_mapspec mx with Some m => wf_decl m | None => false end
      | None => sx_is_err o
      end
  | CBuild i o' =>
      let m := {| ins := raw_of i; outs := raw_of o' |} in
      if wf_decl m then
        match un_ok o with
        | Some (SL [SS p; rt]) =>
            str_eqb p (print m)
            && (if printable m then
                  match un_ok rt with
                  | Some mx => match un_mapspec mx with Some m' => mapspec_eqb m' m | None => false end
                  | None => false
                  end
                else true)
        | _ => false
        end
      else sx_is_err o
  | CShape i o' ish int => shape_ok {| ins := raw_of i; outs := raw_of o' |} ish int o
  | CKeys i o' sh => keys_ok {| ins := raw_of i; outs := raw_of o' |} sh o
  | CRename i o' ren =>
      match Ok {| ins := raw_of i; outs := raw_of o' |} with
      | Ok m =>
          if negb (wf_decl m) then true else
          let m' := {| ins := map (renamed ren) (ins m); outs := map (renamed ren) (outs m) |} in
          if wf_decl m' then
            match un_ok o with
            | Some mx => match un_mapspec mx with Some r => mapspec_eqb r m' | None => false end
            | None => false
            end
          else sx_is_err o
      | Err _ => true
      end
  | CAddAxes i o' ax =>
      match Ok {| ins := raw_of i; outs := raw_of o' |} with
      | Ok m =>
          if negb (wf_decl m) then true else
          let ext (a : aspec) := {| aname := aname a; axes := axes a ++ ax |} in
          let m' := {| ins := map ext (ins m); outs := map ext (outs m) |} in
          let fresh := forallb (fun a => forallb (fun x => match x with
                                                          | Some _ => negb (existsb (axis_eqb x) (axes a))
                                                          | None => true end) ax) (ins m ++ outs m) in
          if fresh && wf_decl m' then
            match un_ok o with
            | Some mx => match un_mapspec mx with Some r => mapspec_eqb r m' | None => false end
            | None => false
            end
          else sx_is_err o
      | Err _ => true
      end
  | CAxes specs => axes_ok (map (fun io => {| ins := raw_of (fst io); outs := raw_of (snd io) |}) specs) o
  | CIdx c => idx_ok c o
  | CGen _ => sx_eqb o gen_expected
  end.
