(* C09 correspondence: a history on TWIN pipelines (cached / uncached), the model's observation `run`, and the
   executable statement `spec_ok` written from the property text ("each call that succeeds without caching returns
   an equal value with caching enabled; a repeated call with equal arguments does not re-execute a cached function
   whose entry is still resident").  spec_ok never calls CacheSem.crun / exec_hist. *)
From Verif Require Export Base.Prelude Base.StrOrd Base.Graph Model.Pipe Corr.PipeObs Model.CacheSem Model.CacheSemSpec.
From Verif Require Corr.Run_C09Map.

Inductive case :=
| CHist (p : pipeline) (ct : nat) (lmax : nat) (h : list step)
    (* ct: 0 = SimpleCache; 1 = LRUCache(max_size=lmax, shared=False); 2 = a cache that never evicts in this run
       (DiskCache without max_size: behaves as SimpleCache); 3 = a policy that is not modelled (HybridCache,
       DiskCache with max_size): only the values of the cached twin are observed *)
| CMap (m : Run_C09Map.mcase).

(* user code: the structural function of harness/symfuncs.py, except that a function whose name starts with "nn"
   returns Python's None (it logs its call like every other one; consumers print the value as `None`) - a cached
   None must be told apart from a miss *)
Definition returns_none (f : str) : bool :=
  match f with a :: b :: _ => Ascii.eqb a "n"%char && Ascii.eqb b "n"%char | _ => false end.
Definition body (f : str) (args : alist) : result str :=
  if returns_none f then Ok none_val else Sym.body f args.
Definition pick := Sym.pick.

Definition sx_outcome (x : outcome) : sx :=
  match x with Value v => SS v | Full d => sx_sorted_dict d end.
Definition sx_res (r : result outcome) : sx := sx_of_result sx_outcome r.
Definition sx_unit (r : result unit) : sx := sx_of_result (fun _ => SNone) r.
Definition sx_is_ok (x : sx) : bool :=
  match x with SL [SS t; _] => str_eqb t (s "ok") | _ => false end.
Definition skip : sx := SS (s "skip").

(* one step of both twins *)
Definition step_obs (modelled : bool) (u c : sobs) : sx :=
  match u, c with
  | OCall ru lu, OCall rc lc =>
      if modelled then SL [sx_res ru; sx_log lu; sx_res rc; sx_log lc]
      else SL [sx_res ru; sx_log lu; if is_ok ru then sx_res rc else skip]
  | OMut ru, OMut rc => SL [sx_unit ru; sx_unit rc]
  | _, _ => bad_case
  end.

Definition hist_obs {C} (P : policy C) (c0 : C) (modelled : bool) (p : pipeline) (h : list step) : sx :=
  SL (map (fun uc => step_obs modelled (fst uc) (snd uc))
          (combine (exec_hist_checked body pick P false false p c0 h) (exec_hist_checked body pick P false true p c0 h))).

Definition run (c : case) : sx :=
  match c with
  | CHist p ct lmax h =>
      if negb (hist_wfb p h) then bad_case
      else match ct with
           | 0 => hist_obs simple_policy [] true p h
           | 1 => hist_obs lru_policy (lru_empty lmax) true p h
           | 2 => hist_obs simple_policy [] true p h
           | _ => hist_obs simple_policy [] false p h
             (* values of the cached twin = values of the uncached twin wherever that one succeeds
                (theorem cache_transparent, any lawful policy); nothing else is observed for these policies *)
           end
  | CMap m => Run_C09Map.run m
  end.

(* ------------------------------------------------------------------ the executable statement *)
(* transparency, per call step: [res_u; log_u; res_c; ...] *)
Definition call_transparent (o : sx) : bool :=
  match o with
  | SL (ru :: _ :: rc :: _) => if sx_is_ok ru then sx_eqb ru rc else true
  | SL [_; _] => true                                      (* a mutation step *)
  | _ => false
  end.

(* "a repeated call with equal arguments does not re-execute a cached function whose entry is still resident".
   Judged for caches that never evict (ct 0 and 2) and inside the mutation-free prefix of the history: if an
   earlier successful call had the same (output, keywords, full_output), supplied only root arguments and supplied
   every root argument the output depends on (then every cached function it needs has a cacheable argument set and
   its entry exists after the first call), the later call executes no cached function. *)
Definition is_call (st : step) : bool := match st with Call _ _ _ => true | _ => false end.
Fixpoint call_prefix (h : list step) : list step :=
  match h with st :: t => if is_call st then st :: call_prefix t else [] | [] => [] end.
Definition true_roots (p : pipeline) (o : str) : list str :=
  dedup (flat_map (fun f => filter (fun cur => negb (ahas (bound f) cur) && negb (is_output p cur)) (pnames f))
                  (needed_top p [] o)).
Definition covers_roots (p : pipeline) (o : str) (kw : alist) : bool :=
  is_output p o && negb (supplies_output p kw) && subset_str (true_roots p o) (akeys kw).
Definition same_call (a b : step) : bool :=
  match a, b with
  | Call o1 k1 f1, Call o2 k2 f2 => str_eqb o1 o2 && alist_eqb k1 k2 && Bool.eqb f1 f2
  | _, _ => false
  end.
Fixpoint prefix_of (a b : str) : bool :=
  match a, b with [] , _ => true | x :: a', y :: b' => Ascii.eqb x y && prefix_of a' b' | _, [] => false end.
Definition cached_names (p : pipeline) : list str := map (fun f => fname f ++ s "(") (filter cached p).
Definition log_has_cached (p : pipeline) (lg : sx) : bool :=
  match un_strs lg with
  | Some l => existsb (fun line => existsb (fun n => prefix_of n line) (cached_names p)) l
  | None => true
  end.
(* steps paired with their observations, earlier ones first *)
Fixpoint no_reexec (p : pipeline) (earlier : list (step * sx)) (rest : list (step * sx)) : bool :=
  match rest with
  | [] => true
  | (st, ob) :: t =>
      (match st, ob with
       | Call o kw _, SL [_; _; rc; lc] =>
           if covers_roots p o kw
              && existsb (fun e => same_call (fst e) st
                                   && match snd e with SL (ru :: _) => sx_is_ok ru | _ => false end) earlier
           then sx_is_ok rc && negb (log_has_cached p lc)
           else true
       | _, _ => true
       end)
      && no_reexec p (earlier ++ [(st, ob)]) t
  end.

Definition hist_ok (p : pipeline) (ct : nat) (h : list step) (obs : sx) : bool :=
  match obs with
  | SL l =>
      (length l =? length h)
      && forallb call_transparent l
      && (if (ct =? 0) || (ct =? 2) then no_reexec p [] (combine (call_prefix h) l) else true)
  | _ => false
  end.

Definition spec_ok (c : case) (obs : sx) : bool :=
  match c with
  | CHist p ct _ h =>
      if hist_wfb p h then hist_ok p ct h obs else true
  | CMap m => Run_C09Map.spec_ok m obs
  end.
