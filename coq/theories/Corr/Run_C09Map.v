(* C09, map path: sequential Pipeline.map runs of TWIN pipelines (with / without a pipeline cache) on inputs with
   repeated values.  The uncached observation is Run_C01.run (Model/MapRun.v); with a cache every invocation goes
   through _get_or_set_cache, which returns the value the user function would return (theorem
   map_cache_transparent), so the results are the same and - for a cache that never evicts - the user functions run
   once per DISTINCT (function, keyword arguments).
   Kept in its own module because Model/MapRun.v and Model/Pipe.v use the same field names. *)
From Verif Require Export Corr.Run_C01.

(* constructors with positional arguments (record syntax would clash with Model/Pipe.v in Run_C09 case files) *)
Definition mkarr (n : str) (ax : list (option str)) : aspec := {| aname := n; axes := ax |}.
Definition mkspec (i o : list aspec) : mapspec := {| ins := i; outs := o |}.
Definition vs (x : str) : val := VS x.
Definition va (sh : list nat) (d : list str) : val := VA {| shp := sh; dat := d |}.
Definition mkmf (n : str) (o ps : list str) (b d : list (str * val)) (sp : option mapspec) (int ret : list nat) : mfunc :=
  {| fname := n; fouts := o; fparams := ps; fbound := b; fdefaults := d; fspec := sp; fint := int; fret := ret |}.
Definition mkreq (fs : list mfunc) (inp : env) (internal : shape_dict) : Run_C01.case :=
  {| c_funcs := fs; c_inputs := inp; c_internal := internal |}.

Record mcase := { m_req : Run_C01.case;
                  m_second : option (Run_C01.case * bool);
                    (* a second map run on the same pipeline object: the request (the same one, or the one with a
                       replaced function) and whether a mutation (which clears the cache) happened in between *)
                  m_noevict : bool   (* the cache of the cached twin never evicts (SimpleCache, DiskCache without
                                        max_size): the number of executions is observed *) }.

(* the keyword arguments of every invocation of f, given the state before f (mirrors MapRun.run_func) *)
Definition calls_of_func (user : shape_dict) (st : run_state) (f : mfunc) : result (list str) :=
  do shm <- func_shape user (r_shapes st) f;
  do kw <- func_kwargs f (r_env st);
  if is_mapped f then
    match fspec f, shm with
    | Some ms, Some (sh, mask) =>
        let ext := ext_of mask sh in
        mapM (fun i => do sel <- select_kwargs ms kw ext i; Ok (sym_app f sel)) (seq 0 (prod ext))
    | _, _ => Err AssertionError
    end
  else Ok [sym_app f kw].

Definition all_calls (c : Run_C01.case) : result (list str) :=
  do r <- fold_left (fun acc f =>
                       do a <- acc;
                       do cs <- calls_of_func (c_internal c) (fst a) f;
                       do st' <- run_func sym_body (c_internal c) (fst a) f;
                       Ok (st', snd a ++ cs))
                    (c_funcs c)
                    (Ok ({| r_env := c_inputs c; r_shapes := init_shapes (c_inputs c); r_out := []; r_calls := 0 |}, []));
  Ok (snd r).

(* observation per run: [ uncached: ok [results; ncalls] | err ;  cached: ok results | err ;  executions with cache or -1 ] *)
Definition results_of (o : sx) : sx :=
  match o with
  | SL [SS t; res; SI _] => SL [SS t; res]
  | _ => o
  end.
(* `seen`: the invocations whose entries are resident (never-evicting cache) *)
Definition run_one (noev : bool) (seen : list str) (c : Run_C01.case) : sx * list str :=
  let u := Run_C01.run c in
  match all_calls c with
  | Ok cs =>
      let fresh := filter (fun x => negb (mem_str x seen)) (dedup cs) in
      (SL [u; results_of u; if noev then SN (length fresh) else SI (-1)], seen ++ fresh)
  | Err _ => (SL [u; results_of u; SI (-1)], seen)
  end.
Definition run (m : mcase) : sx :=
  let '(o1, seen) := run_one (m_noevict m) [] (m_req m) in
  match m_second m with
  | None => SL [o1]
  | Some (r2, cleared) => SL [o1; fst (run_one (m_noevict m) (if cleared then [] else seen) r2)]
  end.

(* the statement: whenever the uncached run succeeds, the cached run returns the same results, and it never
   executes more *)
Definition one_ok (o : sx) : bool :=
  match o with
  | SL [SL [SS t; res; SI nu]; c; SI nc] =>
      if str_eqb t (s "ok") then sx_eqb c (SL [SS t; res]) && (nc <=? nu)%Z else true
  | SL [_; _; _] => true              (* the uncached run failed *)
  | _ => false
  end.
Definition spec_ok (m : mcase) (o : sx) : bool :=
  match o with
  | SL l => (length l =? (match m_second m with None => 1 | Some _ => 2 end)) && forallb one_ok l
  | _ => false
  end.
