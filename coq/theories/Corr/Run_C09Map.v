(* C09, map path: sequential Pipeline.map runs of TWIN pipelines (with / without a pipeline cache) on inputs with
   repeated values.  The uncached observation is Run_C01.run (Model/MapRun.v); with a cache every invocation goes
   through _get_or_set_cache, which returns the value the user function would return (theorem
   map_cache_transparent), so the results are the same and - for a cache that never evicts - the user functions run
   once per DISTINCT (function, keyword arguments).
   Kept in its own module because Model/MapRun.v and Model/Pipe.v use the same field names. *)
From Verif Require Export Corr.Run_C01 Model.MapRunCache.

(* constructors with positional arguments (record syntax would clash with Model/Pipe.v in Run_C09 case files) *)
Definition mkarr (n : str) (ax : list (option str)) : aspec := {| aname := n; axes := ax |}.
Definition mkspec (i o : list aspec) : mapspec := {| ins := i; outs := o |}.
Definition vs (x : str) : val := VS x.
Definition va (sh : list nat) (d : list str) : val := VA {| shp := sh; dat := d |}.
Definition mkmf (n : str) (o ps : list str) (b d : list (str * val)) (sp : option mapspec) (int ret : list nat) : mfunc :=
  {| fname := n; fouts := o; fparams := ps; fbound := b; fdefaults := d; fspec := sp; fint := int; fret := ret |}.
Definition mkreq (fs : list mfunc) (inp : env) (internal : shape_dict) : Run_C01.case :=
  {| c_funcs := fs; c_inputs := inp; c_internal := internal |}.

Record mcase := { m_req : Run_C01.case;
                  m_second : option (Run_C01.case * bool);
                    (* a second map run on the same pipeline object: the request (the same one, or the one with a
                       replaced function) and whether a mutation (which clears the cache) happened in between *)
                  m_noevict : bool   (* the cache of the cached twin never evicts (SimpleCache, DiskCache without
                                        max_size): the number of executions is observed *) }.

(* observation per run: [ uncached: ok [results; ncalls] | err ;  cached: ok results | err ;  executions with cache or -1 ]
   The uncached twin is MapRun.map_run (Run_C01.run); the cached twin is MapRunCache.map_run_c with a dict as cache
   (for caches that evict only the results are observed, and those do not depend on the policy: theorem
   C09_map_run_cache_transparent). *)
Definition cached_obs (r : result run_state) : sx :=
  match r with
  | Ok st => SL [SS (s "ok");
                 SL (map (fun x => SL [SS (fst (fst x)); sx_val (snd (fst x)); sx_val (snd x)]) (r_out st))]
  | Err e => SErr e
  end.
Definition results_of (o : sx) : sx :=
  match o with
  | SL [SS t; res; SI _] => SL [SS t; res]
  | _ => o
  end.
Definition run_one (noev : bool) (c0 : list (mkey * mval)) (c : Run_C01.case) : sx * list (mkey * mval) :=
  if noev then
    let '(r, c1, x) := map_run_c sym_body map_simple (c_funcs c) (c_inputs c) (c_internal c) c0 in
    (SL [Run_C01.run c; cached_obs r; if is_ok r then SN x else SI (-1)], c1)
  else
    (* a cache that evicts / a shared cache under a thread pool: only the results are observed, and they are those
       of the uncached run whatever the policy does (C09_map_run_cache_transparent) *)
    let u := Run_C01.run c in (SL [u; results_of u; SI (-1)], c0).
Definition run (m : mcase) : sx :=
  let '(o1, c1) := run_one (m_noevict m) [] (m_req m) in
  match m_second m with
  | None => SL [o1]
  | Some (r2, cleared) => SL [o1; fst (run_one (m_noevict m) (if cleared then [] else c1) r2)]
  end.

(* the statement: whenever the uncached run succeeds, the cached run returns the same results, and it never
   executes more *)
Definition one_ok (o : sx) : bool :=
  match o with
  | SL [SL [SS t; res; SI nu]; c; SI nc] =>
      if str_eqb t (s "ok") then sx_eqb c (SL [SS t; res]) && (nc <=? nu)%Z else true
  | SL [_; _; _] => true              (* the uncached run failed *)
  | _ => false
  end.
Definition spec_ok (m : mcase) (o : sx) : bool :=
  match o with
  | SL l => (length l =? (match m_second m with None => 1 | Some _ => 2 end)) && forallb one_ok l
  | _ => false
  end.
