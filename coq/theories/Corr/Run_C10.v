(* C10 correspondence: case types, model observation `run`, executable statement `spec_ok`.

   CRewrite p ops calls : build the pipeline p (harness/pipegen.py), apply the rewrites `ops` (<= 3) one after
     the other, then evaluate every request of `calls` on the ORIGINAL pipeline (c_o0, c_kw0) and on the
     REWRITTEN one (c_o1, c_kw1: renamed names, dotted keys or nested dicts).
     Observation:  [status; [struct after op 1; ...]; [[orig result; orig log; new result; new log] ...]]
       status = ["ok"] | [err e; index of the failing op]
       struct = per function, sorted by output names: [outs; params; defaults; bound; names of the fused user functions]
   spec_ok is written from the property text; it only relates the observations of the original and of the
   rewritten pipeline to each other (never calls `run` / `nrun` / `apply_op`). *)
From Verif Require Export Base.Prelude Base.StrOrd Base.StrUtil Base.Graph Model.Pipe Model.Rewrite Model.Alias Corr.PipeObs.
From Verif Require Export Corr.Run_C10Map.

Record rcall := { c_o0 : str; c_kw0 : alist; c_o1 : str; c_kw1 : kwargs }.

(* aliasing probes: one rewrite, then one mutation of one side, the state of the other side around both *)
Inductive aop :=
| ACopy | APickle | AJoin (q : list Alias.fdesc) | ASimplify (o : str) (c : bool) | ASplit (o : str)   (* new pipeline *)
| ARename (r : alist) | AScope (sc : option str) (isel osel : option (list str)) (excl : list str)
| ANest (names : list str) (new_out : option (list str)).                                              (* in place *)
Inductive amut :=
| MDefaults (d : alist)               (* X.update_defaults(d) *)
| MBound (o : str) (b : alist)        (* X[o].update_bound(b) *)
| MRenames (r : alist)                (* X.update_renames(r) *)
| MDrop (o : str).                    (* X.drop(output_name=o) *)
Definition fd (n : str) (o : list str) (ps : list (str * str)) (sd df b : alist) (c : bool) : Alias.fdesc :=
  {| Alias.d_name := n; Alias.d_outs := o; Alias.d_params := ps; Alias.d_sigd := sd; Alias.d_defs := df;
     Alias.d_bound := b; Alias.d_cached := c |}.

Inductive case :=
| CRewrite (p : pipeline) (ops : list op) (calls : list rcall) (mapin : option (alist * alist))
    (* mapin: inputs of Pipeline.map (storage="dict", parallel=False) for the original / the rewritten pipeline *)
| CMap (c : mcase)
| CAliasMap (c : acase)
| CAlias (ds : list Alias.fdesc) (rw : aop) (mutate_original : bool) (m : amut)
         (callA callB : str * alist).     (* a request for the untouched side A / for the rewritten side B *)

Definition body := Sym.body.
Definition pick := Sym.pick.

(* ------------------------------------------------------------------ observations of the model *)
Definition sx_node (nd : node) : sx :=
  let f := nf nd in
  SL [sx_strs (outs f); sx_strs (pnames f); sx_sorted_dict (dflt f); sx_sorted_dict (bound f);
      sx_strs (sort_strs (prim_names nd))].
Definition sx_struct (p : npipe) : sx :=
  SL (map sx_node (sort (fun a b => strs_ltb (outs (nf a)) (outs (nf b))) p)).
(* the log is observed as a multiset (sorted): after a pickle round trip every user function logs separately *)
Definition sx_res (r : result str * list call) : list sx :=
  [sx_of_result SS (fst r); sx_strs (sort_strs (map Sym.show_call (snd r)))].
Definition sx_ok : sx := SL [SS (s "ok")].

(* apply the rewrites, remembering the pipeline after each successful one *)
Fixpoint apply_trace (ops : list op) (i : nat) (p : npipe) (acc : list npipe)
  : (option (err * nat)) * list npipe * npipe :=
  match ops with
  | [] => (None, acc, p)
  | x :: t =>
      match apply_op x p with
      | Err e => (Some (e, i), acc, p)
      | Ok p' => apply_trace t (S i) p' (acc ++ [p'])
      end
  end.

(* the modelled domain of the rename-like rewrites: one-to-one on the pipeline's names *)
Definition op_in_domain (x : op) (p : npipe) : bool :=
  match x with
  | ORename r => injective_on r (all_names (funcs p)) && nodup_strb (akeys r)
  | OScope sc i o e =>
      let t := scope_targets (funcs p) i o e in
      injective_on (map (fun n => (n, scope_name sc n)) t) (all_names (funcs p))
  | OJoin q _ => wf_pipelineb q
  | _ => true
  end.
Fixpoint ops_in_domain (ops : list op) (p : npipe) : bool :=
  match ops with
  | [] => true
  | x :: t => op_in_domain x p && match apply_op x p with Ok p' => ops_in_domain t p' | Err _ => true end
  end.

Definition run_orig (p : pipeline) (c : rcall) : result str * list call :=
  let r := Pipe.run_checked body pick p (c_o0 c) (c_kw0 c) false in
  (match fst r with Ok (Value v) => Ok v | Ok (Full _) => Err OtherError | Err e => Err e end, snd r).

(* ---- aliasing probes on the heap model ---- *)
Definition no_spec_ren (_ : alist) (m : str) : str := m.      (* the structural pipelines carry no MapSpec *)
Definition sx_view (v : Alias.fview) : sx :=
  let nd := Alias.v_node v in
  let f := nf nd in
  SL [sx_strs (outs f); sx_strs (pnames f); sx_sorted_dict (dflt f); sx_sorted_dict (bound f);
      sx_sorted_dict (filter (fun kv => negb (str_eqb (fst kv) (snd kv))) (Alias.v_renames v));
      SS (match Alias.v_spec v with Some m => m | None => s "None" end);
      sx_strs (sort_strs (prim_names nd))].
Definition sx_state (h : Alias.heap) (lp : Alias.loc) (call : str * alist) : option sx :=
  match Alias.pobs h lp, Alias.reify h lp with
  | Some vs, Some p =>
      Some (SL [SL (map sx_view (sort (fun a b => strs_ltb (outs (nf (Alias.v_node a))) (outs (nf (Alias.v_node b)))) vs));
                sx_of_result SS (fst (nrun_checked body pick p (fst call) (dotted (snd call))))])
  | _, _ => None
  end.
Definition hop_of (rw : aop) (p : Alias.loc) (q : Alias.loc) : Alias.hop :=
  match rw with
  | ACopy => Alias.HCopy p | APickle => Alias.HPickle p | AJoin _ => Alias.HJoin p q
  | ASimplify o c => Alias.HSimplify p o c | ASplit o => Alias.HSplit p o
  | ARename r => Alias.HUpdateRenames p r | AScope sc i o e => Alias.HUpdateScope p sc i o e
  | ANest names new_out => Alias.HNest p names new_out
  end.
Definition hop_of_mut (m : amut) (p : Alias.loc) : Alias.hop :=
  match m with
  | MDefaults d => Alias.HUpdateDefaults p d | MBound o b => Alias.HUpdateBound p o b
  | MRenames r => Alias.HUpdateRenames p r | MDrop o => Alias.HDrop p o
  end.
Definition run_alias (ds : list Alias.fdesc) (rw : aop) (side : bool) (m : amut) (callA callB : str * alist) : sx :=
  let res :=
    match Alias.build [] ds with
    | None => None
    | Some (h1, P) =>
        (* the second operand of a join is built first *)
        match (match rw with AJoin qd => Alias.build h1 qd | _ => Some (h1, O) end) with
        | None => None
        | Some (h1', Q) =>
            let newret := match Alias.target (hop_of rw P Q) with None => true | Some _ => false end in
            (* for an in-place rewrite the untouched side is a copy taken before *)
            match (if newret then Some (h1', P) else Alias.pipeline_copy h1' P) with
            | None => None
            | Some (h2, A) =>
                match sx_state h2 A callA, Alias.step no_spec_ren h2 (hop_of rw P Q) with
                | Some a0, Some (h3, r) =>
                    let B := match r with Some b => b | None => P end in
                    let X := if side then A else B in
                    let Y := if side then B else A in
                    let callY := if side then callB else callA in
                    match sx_state h3 A callA, sx_state h3 Y callY, Alias.step no_spec_ren h3 (hop_of_mut m X) with
                    | Some a1, Some y0, Some (h4, _) =>
                        match sx_state h4 Y callY with
                        | Some y1 => Some (SL [sx_ok; a0; a1; y0; y1])
                        | None => None
                        end
                    | _, _, _ => None
                    end
                | _, _ => None
                end
            end
        end
    end in
  match res with Some x => x | None => bad_case end.

(* Pipeline.map of a pipeline without MapSpecs on inputs for all its root arguments: every function runs once on
   the resolved arguments, i.e. every output has the value of its evaluation; observed sorted by name *)
Definition map_all (p : npipe) (inputs : alist) : sx :=
  match mapM (fun o => do v <- neval body pick (nfuel p) p inputs o; Ok (SL [SS o; SS v]))
             (sort_strs (all_outputs (funcs p))) with
  | Ok l => SL [SS (s "ok"); SL l]
  | Err e => SErr e
  end.

Definition run (c : case) : sx :=
  match c with
  | CRewrite p ops calls mapin =>
      if negb (wf_pipelineb p && ops_in_domain ops (lift p)) then bad_case
      else
        let '(status, trace, p') := apply_trace ops 0 (lift p) [] in
        match status with
        | Some (e, i) => SL [SL [SErr e; SN i]; SL (map sx_struct trace); SL []; SL []]
        | None =>
            SL [sx_ok; SL (map sx_struct trace);
                SL (map (fun c => SL (sx_res (run_orig p c) ++ sx_res (nrun_checked body pick p' (c_o1 c) (c_kw1 c)))) calls);
                match mapin with
                | None => SL []
                | Some (in0, in1) => SL [map_all (lift p) in0; map_all p' in1]
                end]
        end
  | CMap mc => run_map mc
  | CAliasMap ac => run_alias_map ac
  | CAlias ds rw side m callA callB => run_alias ds rw side m callA callB
  end.

(* ------------------------------------------------------------------ the executable statement *)
(* decoded struct of one function *)
Record fstruct := { s_outs : list str; s_params : list str; s_dflt : alist; s_bound : alist; s_prims : list str }.
Definition un_fstruct (x : sx) : option fstruct :=
  match x with
  | SL [o; p; d; b; pr] =>
      match un_strs o, un_strs p, un_alist d, un_alist b, un_strs pr with
      | Some o', Some p', Some d', Some b', Some pr' =>
          Some {| s_outs := o'; s_params := p'; s_dflt := d'; s_bound := b'; s_prims := pr' |}
      | _, _, _, _, _ => None
      end
  | _ => None
  end.
Definition un_struct (x : sx) : option (list fstruct) := match x with SL l => optM un_fstruct l | _ => None end.
Definition struct_of_pipeline (p : pipeline) : list fstruct :=
  map (fun f => {| s_outs := outs f; s_params := pnames f; s_dflt := dflt f; s_bound := bound f;
                   s_prims := [fname f] |}) p.
(* a Pipe.pipeline with the same names (for the graph notions of Model/Pipe.v) *)
Definition pipe_of_struct (sp : list fstruct) : pipeline :=
  map (fun x => mkf (match s_prims x with n :: _ => n | [] => [] end) (s_outs x)
                    (map (fun n => (n, n)) (s_params x)) (s_dflt x) (s_bound x) false) sp.
Definition st_names (sp : list fstruct) : list str := dedup (flat_map (fun x => s_params x ++ s_outs x) sp).
Definition st_outputs (sp : list fstruct) : list str := flat_map s_outs sp.
Definition st_rename (r : alist) (sp : list fstruct) : list fstruct :=
  map (fun x => {| s_outs := map (app_ren r) (s_outs x); s_params := map (app_ren r) (s_params x);
                   s_dflt := ren_keys r (s_dflt x); s_bound := ren_keys r (s_bound x); s_prims := s_prims x |}) sp.

(* the root arguments the evaluation of o reads when no keyword is supplied (copied from Run_C02.spec_roots) *)
Definition roots_of (p : pipeline) (o : str) : list str :=
  sort_strs (dedup (flat_map (fun f => filter (fun cur => negb (ahas (bound f) cur) && negb (is_output p cur))
                                              (pnames f)) (needed_top p [] o))).

(* the renaming an operation states, given the structure it is applied to *)
Definition op_renaming (x : op) (sp : list fstruct) : alist :=
  match x with
  | ORename r => r
  | OScope sc i o e => map (fun n => (n, scope_name sc n)) (scope_targets (pipe_of_struct sp) i o e)
  | _ => []
  end.

(* ---- which requests must be accepted (declarative, per operation; sp = structure it is applied to) ---- *)
Definition ren_request_ok (r : alist) (sp : list fstruct) : bool :=
  let names := st_names sp in
  nodup_strb (akeys r)
  && forallb (fun kv => mem_str (fst kv) names && valid_dotted (snd kv)) r
  && nodup_strb (map (app_ren r) names)
  && scopes_ok (pipe_of_struct (st_rename r sp)) None.

Definition scope_request_ok (sc : option str) (i o : option (list str)) (e : list str) (sp : list fstruct) : bool :=
  let p := pipe_of_struct sp in
  let r := map (fun n => (n, scope_name sc n)) (scope_targets p i o e) in
  scopes_ok p sc
  && match sc with
     | Some x => valid_dotted x && negb (mem_char dot x)
                 && negb (existsb (fun f => mem_str x (map unscoped (pnames f))) p)
     | None => true
     end
  && ren_request_ok r sp.

(* nest: >= 2 distinct functions, exactly one of them is not consumed by another one of them, the requested
   output names are among their outputs, and no function outside lies on a path between two of them *)
Definition nest_request_ok (names : list str) (new_out : option (list str)) (sp : list fstruct) : bool :=
  let p := pipe_of_struct sp in
  match optM (producer p) names with
  | None => false
  | Some fs =>
      let ids := map fid fs in
      let g := fgraph p in
      (2 <=? length fs) && nodup_strb ids
      && (length (filter (fun f => negb (existsb (fun h => mem_str (fid f) (preds g (fid h))) fs)) fs) =? 1)
      && match new_out with
         | Some l => subset_str l (flat_map outs fs) && negb (match l with [] => true | _ => false end)
                     && nodup_strb l
                     (* every output that a function outside the group consumes stays an output *)
                     && forallb (fun h => mem_str (fid h) ids
                                          || forallb (fun c => negb (mem_str c (flat_map outs fs)) || mem_str c l)
                                                     (unbound_params h)) p
         | None => true
         end
      && forallb (fun f => forallb (fun d => mem_str d ids
                                             || negb (existsb (fun h => mem_str (fid h) (descendants g d)) fs))
                                   (descendants g (fid f))) fs
  end.

Definition join_request_ok (q : pipeline) (sp : list fstruct) : bool :=
  let p := pipe_of_struct sp ++ q in
  nodup_strb (all_outputs p) && consistent_defaults p && acyclicb (fgraph p) && scopes_ok p None.

(* some function that o depends on (or o's own) has a function-predecessor with identical root arguments
   (conservative: all of its function-predecessors have) *)
Definition exists_combinable (o : str) (conservative : bool) (sp : list fstruct) : bool :=
  let p := pipe_of_struct sp in
  match producer p o with
  | None => false
  | Some f0 =>
      let g := fgraph p in
      let heads := fid f0 :: ancestors g (fid f0) in
      existsb (fun h =>
                 match node_func p h with
                 | None => false
                 | Some hf =>
                     let ps := flat_map (fun n => match node_func p n with Some x => [x] | None => [] end)
                                        (dedup (preds g h)) in
                     let same := filter (fun x => list_eqb str_eqb (roots_of p (fid x)) (roots_of p (fid hf))) ps in
                     negb (match same with [] => true | _ => false end)
                     && (negb conservative || (length ps =? length same))
                 end) heads
  end.

Definition must_accept (x : op) (sp : list fstruct) : bool :=
  match x with
  | OCopy | OPickle => true
  | ORename r => ren_request_ok r sp
  | OScope sc i o e => scope_request_ok sc i o e sp
  | OJoin q _ => join_request_ok q sp
  | ONest names new_out => nest_request_ok names new_out sp
  | OSimplify o c => exists_combinable o c sp
  | OSplit o => mem_str o (st_outputs sp) && (2 <=? length (components (pipe_of_struct sp)))
  end.

(* the outputs an accepted rewrite certainly retains (a guard against vacuous rewrites) *)
Definition retains_ok (x : op) (sp sp' : list fstruct) : bool :=
  let r := op_renaming x sp in
  match x with
  | OCopy | OPickle | ORename _ | OScope _ _ _ _ =>
      seteq_str (st_outputs sp') (map (app_ren r) (st_outputs sp))
  | OJoin q _ => subset_str (st_outputs sp ++ all_outputs q) (st_outputs sp')
  | ONest names new_out =>
      subset_str (match new_out with Some l => l | None => [] end) (st_outputs sp')
      && forallb (fun f => existsb (fun n => mem_str n (s_outs f)) names || subset_str (s_outs f) (st_outputs sp')) sp
  | OSimplify o _ => mem_str o (st_outputs sp')
  | OSplit o => mem_str o (st_outputs sp')
  end.

(* dotted keys and nested dicts denote the same keyword set *)
Definition flat_simple (kw : kwargs) : alist :=
  flat_map (fun kv => match snd kv with
                      | KV v => [(fst kv, v)]
                      | KD d => map (fun nv => (fst kv ++ dot :: fst nv, snd nv)) d
                      end) kw.
Definition alist_eqb (a b : alist) : bool :=
  list_eqb (fun x y => str_eqb (fst x) (fst y) && str_eqb (snd x) (snd y)) (sort_by_key a) (sort_by_key b).

(* functions of the final structure that the evaluation of o reads, cut at supplied names *)
Fixpoint visit (fuel : nat) (sp : list fstruct) (kw : list str) (o : str) : list fstruct :=
  match fuel with
  | O => []
  | S n =>
      match find (fun x => mem_str o (s_outs x)) sp with
      | None => []
      | Some x =>
          x :: flat_map (fun c => if ahas (s_bound x) c || mem_str c kw then [] else visit n sp kw c) (s_params x)
      end
  end.

Definition call_ok (p : pipeline) (rho : str -> str) (spF : list fstruct) (c : rcall) (ob : sx) : bool :=
  match ob with
  | SL [r0; l0; r1; l1] =>
      let flat1 := flat_simple (c_kw1 c) in
      if negb (str_eqb (c_o1 c) (rho (c_o0 c))
               && alist_eqb flat1 (map (fun kv => (rho (fst kv), snd kv)) (c_kw0 c))
               && nodup_strb (akeys (c_kw0 c)) && nodup_strb (akeys flat1)) then false   (* ill-formed case *)
      else if negb (mem_str (c_o1 c) (st_outputs spF)) then true         (* not retained *)
      else
        match un_ok r0 with
        | None => true                                                   (* the original gives no value *)
        | Some v0 =>
            if negb (subset_str (akeys (c_kw0 c)) (kw_names_read p (c_kw0 c) (c_o0 c))) then true
            else
              let vis := visit (S (length spF)) spF (akeys flat1) (c_o1 c) in
              let prims := flat_map s_prims vis in
              if negb (subset_str prims (map fname p)) then true         (* reads a function foreign to p *)
              else
                let required :=
                  flat_map (fun f => if mem_str (fname f) prims
                                     then filter (fun x => negb (ahas (bound f) x) && negb (is_output p x)
                                                           && negb (ahas (pdefaults p) x)) (pnames f)
                                     else []) p in
                if negb (subset_str required (akeys (c_kw0 c))) then true   (* the fused function lacks an input *)
                else if negb (forallb (fun k0 =>
                                         let k := rho k0 in
                                         if is_output p k0
                                         then existsb (fun x => mem_str k (s_outs x) && (length (s_prims x) =? 1)) spF
                                         else existsb (fun x => mem_str k (s_params x) && negb (ahas (s_bound x) k)) spF)
                                      (akeys (c_kw0 c)))
                then true          (* a supplied name is hidden in, or recomputed by, a fused function *)
                else
                  sx_eqb r1 r0
                  && match un_strs l1 with Some b => nodup_strb b | None => false end
        end
  | _ => false
  end.

(* Pipeline.map: the rewritten pipeline gives every retained output that depends on functions of p only the value
   the original map gives it (inputs: all root arguments, renamed) *)
Definition un_named (x : sx) : option (list (str * str)) :=
  match un_ok x with
  | Some (SL l) => optM (fun y => match y with SL [SS n; SS v] => Some (n, v) | _ => None end) l
  | _ => None
  end.
Definition map_ok (p : pipeline) (rho : str -> str) (spF : list fstruct) (mapin : option (alist * alist)) (mobs : sx) : bool :=
  match mapin, mobs with
  | None, _ => true
  | Some (in0, in1), SL [m0; m1] =>
      if negb (alist_eqb in1 (map (fun kv => (rho (fst kv), snd kv)) in0)
                         || subset_str (akeys (map (fun kv => (rho (fst kv), snd kv)) in0)) (akeys in1)) then false
      else
        match un_named m0 with
        | None => true                                   (* the original map gives no values *)
        | Some r0 =>
            match un_named m1 with
            | None => false
            | Some r1 =>
                forallb (fun nv =>
                           let o1 := rho (fst nv) in
                           if negb (mem_str o1 (st_outputs spF)) then true
                           else
                             let vis := visit (S (length spF)) spF (akeys in1) o1 in
                             if negb (subset_str (flat_map s_prims vis) (map fname p)) then true
                             else match aget r1 o1 with Some v => str_eqb v (snd nv) | None => false end) r0
            end
        end
  | _, _ => false
  end.

(* a rewrite invents no inputs: a name that the original pipeline COMPUTES (an output of p, through the renamings) is
   never a root argument of the result - every unbound parameter of the final structure that is such a name is an
   output of the final structure (an output that a combined function hides while another function still takes it would
   silently be read from the keywords or from a default) *)
Definition no_new_roots (p : pipeline) (rho : str -> str) (spF : list fstruct) : bool :=
  let outsF := st_outputs spF in
  let old := map rho (all_outputs p) in
  forallb (fun x => forallb (fun c => ahas (s_bound x) c || mem_str c outsF || negb (mem_str c old)) (s_params x)) spF.

(* walk the operations: every request that must be accepted is accepted and retains what it must *)
Fixpoint ops_ok (ops : list op) (i : nat) (sp : list fstruct) (failed : option nat) (structs : list sx)
         (rho : str -> str) (k : list fstruct -> (str -> str) -> bool) : bool :=
  match ops with
  | [] => match failed with None => k sp rho | Some _ => false end
  | x :: t =>
      if negb (must_accept x sp) then true                   (* nothing is demanded of this request *)
      else if match failed with Some j => j =? i | None => false end
      then false                                             (* a request that must be accepted was refused *)
      else
        match structs with
        | s1 :: rest =>
            match un_struct s1 with
            | Some sp' => retains_ok x sp sp'
                          && let r := op_renaming x sp in
                             ops_ok t (S i) sp' failed rest (fun n => app_ren r (rho n)) k
            | None => false
            end
        | [] => false
        end
  end.

Definition spec_ok (c : case) (obs : sx) : bool :=
  match c with
  | CRewrite p ops calls mapin =>
      if negb (wf_pipelineb p) then true
      else
        match obs with
        | SL [status; SL structs; SL cobs; mobs] =>
            let failed := match status with SL [_; SI z] => Some (Z.to_nat z) | _ => None end in
            ops_ok ops 0 (struct_of_pipeline p) failed structs (fun n => n)
                   (fun spF rho =>
                      (length cobs =? length calls)
                      && no_new_roots p rho spF
                      && forallb (fun co => call_ok p rho spF (fst co) (snd co)) (combine calls cobs)
                      && map_ok p rho spF mapin mobs)
        | _ => false
        end
  | CMap mc => spec_map mc obs
  | CAliasMap ac => spec_alias_map ac obs
  | CAlias _ _ _ _ _ _ =>
      (* the untouched side is the same before and after the rewrite; the side that is not mutated is the same
         before and after the mutation of the other one *)
      match obs with
      | SL [status; a0; a1; y0; y1] => negb (sx_eqb status sx_ok) || (sx_eqb a0 a1 && sx_eqb y0 y1)
      | _ => false
      end
  end.
