(* C10 correspondence, map side: rewrites of MapSpec pipelines observed through Pipeline.map
   (storage="dict", parallel=False).

   A case: a map request (harness/mapgen.py), one rewrite, the inputs for the rewritten pipeline, and the
   input variants of the ORIGINAL pipeline it is compared with (one variant, or for add_mapspec_axis one per
   position n of the new axis: the parameter takes its n-th value).
   Observation: [status; [[outs; mapspec string] per function]; [original results per variant]; rewritten results]
     results = ["ok"; [[name; value] ...]] | err      value = ["val"; s] | ["arr"; shape; flat data]
   spec_ok is written from the property text against the observations only. *)
From Verif Require Import Model.Pipe Model.Rewrite Corr.PipeObs.
From Verif Require Import Base.Prelude Base.StrUtil Base.Index Base.NdArr Model.MapSpec Model.MapSpecSpec
  Model.MapRun Model.SymBody Model.RewriteMap.

Inductive mop :=
| MCopy | MPickle
| MRename (r : mren)                              (* update_renames(r) *)
| MScope (sc : option str)                        (* update_scope(sc, "*", "*") *)
| MAddAxis (params : list str) (axis : str)       (* add_mapspec_axis( *params, axis=axis) *)
| MSimplify (o : str).                            (* simplified_pipeline(o): refused for MapSpecs *)

Record mcase := { m_funcs : mpipe; m_inputs1 : env; m_internal : shape_dict; m_op : mop;
                  m_variants : list env }.

(* constructors for the generated literals (the field names of MapRun / MapSpec clash with Model/Pipe.v) *)
Definition mar (n : str) (ax : list (option str)) : aspec := {| aname := n; axes := ax |}.
Definition msp (i o : list aspec) : mapspec := {| ins := i; outs := o |}.
Definition mvs (x : str) : val := VS x.
Definition mva (sh : list nat) (d : list str) : val := VA {| shp := sh; dat := d |}.
Definition mf (n : str) (o p : list str) (b d : env) (sp : option mapspec) (i r : list nat) : mfunc :=
  {| fname := n; fouts := o; fparams := p; fbound := b; fdefaults := d; fspec := sp; fint := i; fret := r |}.
(* aliasing probe on a MapSpec pipeline: rewrite rw gives B from (a copy of) A; then one side is mutated *)
Record acase := { a_funcs : mpipe; a_rw : mop; a_side : bool }.
Definition acs (fs : mpipe) (x : mop) (side : bool) : acase := {| a_funcs := fs; a_rw := x; a_side := side |}.
Definition mcs (fs : mpipe) (in1 : env) (internal : shape_dict) (x : mop) (vars : list env) : mcase :=
  {| m_funcs := fs; m_inputs1 := in1; m_internal := internal; m_op := x; m_variants := vars |}.

(* ------------------------------------------------------------------ model *)
Definition produced (p : mpipe) : list str := flat_map fouts p.
Definition m_unbound (f : mfunc) : list str :=
  filter (fun q => negb (is_ok (match dict_get (fbound f) q with Some v => Ok v | None => Err KeyError end))) (fparams f).
Definition m_roots (p : mpipe) : list str :=
  MapSpec.dedup (flat_map (fun f => filter (fun q => negb (mem_str q (produced p))) (m_unbound f)) p).
Definition scope_ren (sc : option str) (p : mpipe) : mren :=
  map (fun n => (n, Rewrite.scope_name sc n)) (m_roots p ++ produced p).

(* functions (strictly) upstream of output o *)
Fixpoint upstream (fuel : nat) (p : mpipe) (o : str) : list mfunc :=
  match fuel with
  | O => []
  | S n =>
      match find (fun f => mem_str o (fouts f)) p with
      | None => []
      | Some f => flat_map (fun q => match find (fun g => mem_str q (fouts g)) p with
                                     | Some g => g :: upstream n p q
                                     | None => [] end) (m_unbound f)
      end
  end.

Definition apply_mop (x : mop) (p : mpipe) : result mpipe :=
  match x with
  | MCopy | MPickle => Ok p
  | MRename r => Ok (mrename r p)
  | MScope sc => Ok (mrename (scope_ren sc p) p)
  | MAddAxis ps axis => add_axis ps axis p
  | MSimplify o =>
      if negb (mem_str o (produced p)) then Err KeyError
      else
        let up := upstream (S (length p)) p o in
        if existsb (fun f => match fspec f with Some _ => true | None => false end) up then Err NotImplementedError
        else Err ValueError                      (* modelled only for requests without combinable nodes *)
  end.
Definition op_ren (x : mop) (p : mpipe) : mren :=
  match x with MRename r => r | MScope sc => scope_ren sc p | _ => [] end.

Definition sx_val (v : val) : sx :=
  match v with
  | VS x => SL [SS (s "val"); SS x]
  | VA a => SL [SS (s "arr"); SL (map SN (shp a)); SL (map SS (dat a))]
  end.
Definition sx_results (r : result run_state) : sx :=
  match r with
  | Ok st => SL [SS (s "ok"); SL (map (fun x => SL [SS (fst (fst x)); sx_val (snd (fst x))]) (r_out st))]
  | Err e => SErr e
  end.
Definition sorted_ins (m : mapspec) : mapspec :=
  {| ins := StrOrd.sort (fun a b => StrOrd.str_ltb (aname a) (aname b)) (ins m); outs := outs m |}.
Definition sx_specs (p : mpipe) : sx :=
  SL (map (fun f => SL [SL (map SS (fouts f));
                        SS (match fspec f with Some m => print (sorted_ins m) | None => s "None" end)])
          (StrOrd.sort (fun a b => StrOrd.strs_ltb (fouts a) (fouts b)) p)).

Definition run_map (c : mcase) : sx :=
  let p := m_funcs c in
  match apply_mop (m_op c) p with
  | Err e => SL [SErr e; SL []; SL []; SL []]
  | Ok p' =>
      let r := op_ren (m_op c) p in
      SL [SL [SS (s "ok")]; sx_specs p';
          SL (map (fun v => sx_results (map_run sym_body p v (m_internal c))) (m_variants c));
          sx_results (map_run (body_via sym_body p) p' (m_inputs1 c) (ren_env r (m_internal c)))]
  end.

(* ------------------------------------------------------------------ statement *)
Definition un_results (x : sx) : option (list (str * sx)) :=
  match x with
  | SL [SS t; SL l] =>
      if str_eqb t (s "ok")
      then (fix go (l : list sx) : option (list (str * sx)) :=
              match l with
              | [] => Some []
              | SL [SS n; v] :: t' => match go t' with Some r => Some ((n, v) :: r) | None => None end
              | _ => None
              end) l
      else None
  | _ => None
  end.
Definition un_val (x : sx) : option val :=
  match x with
  | SL [SS t; SS v] => if str_eqb t (s "val") then Some (VS v) else None
  | SL [SS t; SL sh; SL d] =>
      if str_eqb t (s "arr") then
        let shn := flat_map (fun y => match y with SI z => [Z.to_nat z] | _ => [] end) sh in
        let dd := flat_map (fun y => match y with SS v => [v] | _ => [] end) d in
        if (length shn =? length sh) && (length dd =? length d) then Some (VA {| shp := shn; dat := dd |}) else None
      else None
  | _ => None
  end.
Fixpoint lookup {V} (l : list (str * V)) (k : str) : option V :=
  match l with [] => None | (k', v) :: t => if str_eqb k k' then Some v else lookup t k end.

(* does output o depend on one of the parameters qs? *)
Fixpoint depends_on (fuel : nat) (p : mpipe) (qs : list str) (o : str) : bool :=
  match fuel with
  | O => false
  | S n =>
      match find (fun f => mem_str o (fouts f)) p with
      | None => false
      | Some f => existsb (fun q => mem_str q qs || depends_on n p qs q) (m_unbound f)
      end
  end.

(* add_mapspec_axis with an axis name that some MapSpec entry of one of the parameters already carries (zipping) *)
Definition is_zip (p : mpipe) (qs : list str) (axis : str) : bool :=
  existsb (fun a => mem_str (aname a) qs && has_axis axis a)
          (flat_map (fun f => match fspec f with Some m => ins m | None => [] end) p).

Definition spec_map (c : mcase) (obs : sx) : bool :=
  let p := m_funcs c in
  match obs with
  | SL [status; _; SL origs; rew] =>
      match m_op c with
      | MSimplify _ => sx_is_err status                      (* documented refusal *)
      | MAddAxis qs axis =>
          if is_zip p qs axis then
            (* zipping onto an axis that a MapSpec of the parameter already has: no dimension is added.  The request
               (generated only where every MapSpec entry of the parameter ends with that axis) is accepted, the
               rewritten pipeline maps the SAME inputs, every output it had keeps being produced, and the outputs
               that do not depend on the parameter keep their values *)
            match origs with
            | [o1] =>
                match un_results o1 with
                | None => true
                | Some o0 =>
                    match un_results rew with
                    | Some rw =>
                        forallb (fun o => match lookup rw o with
                                          | None => false
                                          | Some rv => if depends_on (S (length p)) p qs o then true
                                                       else match lookup o0 o with Some want => sx_eqb rv want | None => false end
                                          end) (produced p)
                    | None => false
                    end
                end
            | _ => false
            end
          else
          match optM un_results origs with
          | None => true                                     (* the original gives no values *)
          | Some os =>
              match os, un_results rew with
              | o0 :: _, Some rw =>
                  forallb (fun o =>
                             match lookup rw o with
                             | None => false
                             | Some rv =>
                                 if depends_on (S (length p)) p qs o then
                                   match un_val rv with
                                   | Some v =>
                                       forallb (fun nr =>
                                                  match lookup (snd nr) o, slice_last (fst nr) v with
                                                  | Some want, Some got => sx_eqb (sx_val got) want
                                                  | _, _ => false
                                                  end) (combine (seq 0 (length os)) os)
                                       && match rev (val_shape_of v) with k :: _ => k =? length os | [] => false end
                                   | None => false
                                   end
                                 else match lookup o0 o with Some want => sx_eqb rv want | None => false end
                             end) (produced p)
              | _, _ => false
              end
          end
      | x =>
          let r := op_ren x p in
          match origs with
          | [o1] =>
              match un_results o1 with
              | None => true
              | Some o0 =>
                  match un_results rew with
                  | Some rw => forallb (fun nv => match lookup rw (mapp r (fst nv)) with
                                                  | Some v => sx_eqb v (snd nv) | None => false end) o0
                  | None => false
                  end
              end
          | _ => false
          end
      end
  | _ => false
  end.

(* ------------------------------------------------------------------ aliasing probes on MapSpec pipelines *)
(* observed state of a pipeline: per function (sorted by outputs) [outs; params; MapSpec string].
   The model is pure: whatever is done to the other object, the state of an object stays what it was. *)
Definition sx_mstate (p : mpipe) : sx :=
  SL (map (fun f => SL [SL (map SS (fouts f)); SL (map SS (fparams f));
                        SS (match fspec f with Some m => print (sorted_ins m) | None => s "None" end)])
          (StrOrd.sort (fun a b => StrOrd.strs_ltb (fouts a) (fouts b)) p)).
Definition run_alias_map (c : acase) : sx :=
  match apply_mop (a_rw c) (a_funcs c) with
  | Err e => SL [SErr e; SL []; SL []; SL []; SL []]
  | Ok b =>
      let sa := sx_mstate (a_funcs c) in
      let sy := if a_side c then sx_mstate b else sa in
      SL [SL [SS (s "ok")]; sa; sa; sy; sy]
  end.
Definition spec_alias_map (c : acase) (obs : sx) : bool :=
  match obs with
  | SL [status; a0; a1; y0; y1] => sx_is_err status || (sx_eqb a0 a1 && sx_eqb y0 y1)
  | _ => false
  end.
