(* C11 correspondence: case type, model observation, executable statement (written with Pipe.eval /
   Pipe.needed through SubPipe.needed_set / computableb; it never calls SubPipe.subpipeline / map_run). *)
From Verif Require Export Base.Prelude Base.StrOrd Base.Graph Model.Pipe Model.SubPipe Corr.PipeObs.

Inductive case :=
| CSub (p : pipeline) (I : list str) (S : list str)
    (* pipeline.subpipeline(inputs=set(I), output_names=set(S)): the functions of the result *)
| CMap (p : pipeline) (inputs : alist) (S : option (list str)) (auto : bool)
| CMap2 (p : pipeline) (in1 : alist) (S1 : option (list str)) (a1 : bool)
        (in2 : alist) (S2 : option (list str)) (a2 : bool).
    (* pipeline.map(in1, F, output_names=S1, auto_subpipeline=a1) into a fresh run folder F, then
       pipeline.map(in2, F, output_names=S2, auto_subpipeline=a2, cleanup=False) into the SAME folder *)
    (* pipeline.map(inputs, output_names=S, auto_subpipeline=auto, storage="dict", parallel=False) *)

(* Pipeline([...]) adds the functions one at a time and validates after every add; the consistency of defaults
   is judged against the outputs known SO FAR, so a listing order can be rejected although the whole list is fine *)
Definition constructible (p : pipeline) : bool :=
  wf_pipelineb p && forallb (fun k => consistent_defaults (firstn k p)) (seq 1 (length p)).

Definition body := Sym.body.
Definition pick := Sym.pick.

Definition sx_map_result (r : alist * list call) : sx :=
  SL [sx_sorted_dict (fst r); sx_strs (sort_strs (map Sym.show_call (snd r)))].

Definition run (c : case) : sx :=
  match c with
  | CSub p Iq Sq =>
      if constructible p then sx_of_result (fun p' => sx_strs (sort_strs (map fid p'))) (subpipeline p Iq (Some Sq))
      else bad_case
  | CMap p inputs Sq auto =>
      if constructible p then sx_of_result sx_map_result (map_run body pick p inputs Sq auto) else bad_case
  | CMap2 p in1 S1 a1 in2 S2 a2 =>
      if constructible p then
        let '(r1, r2) := map_twice body pick p in1 S1 a1 in2 S2 a2 in
        SL [sx_of_result sx_map_result r1;
            match r2 with Some r => sx_of_result sx_map_result r | None => SNone end]
      else bad_case
  end.

(* ------------------------------------------------------------------ the executable statement *)
Definition call_string (p : pipeline) (kw : alist) (f : pfunc) : option str :=
  match eval_args body pick p kw f with Ok a => Some (Sym.app (fname f) a) | Err _ => None end.

Definition needed_funcs (p : pipeline) (kw : alist) (S : list str) : list pfunc := flat_map (needed_top p kw) S.

(* results: for each requested output the value the full pipeline computes with the provided values substituted;
   calls: exactly the functions on a dependency path to S that are not cut off by the provided names *)
Definition map_ok (p : pipeline) (inputs : alist) (S : list str) (exact : bool) (obs : sx) : bool :=
  match un_ok obs with
  | Some (SL [d; lg]) =>
      match un_alist d, un_strs lg with
      | Some res, Some calls =>
          forallb (fun o => match aget res o, eval_top body pick p inputs o with
                            | Some v, Ok v' => str_eqb v v'
                            | _, _ => false
                            end) S
          && match optM (call_string p inputs) (needed_funcs p inputs S) with
             | Some expected => subset_str expected calls
                                && (if exact then nodup_strb calls && subset_str calls expected else true)
             | None => false
             end
      | _, _ => false
      end
  | _ => false
  end.

Definition sub_ok (p : pipeline) (I S : list str) (exact : bool) (obs : sx) : bool :=
  match un_ok obs with
  | Some fs => match un_strs fs with
               | Some l => subset_str (needed_set p I S) l && (if exact then subset_str l (needed_set p I S) else true)
               | None => false
               end
  | None => false
  end.

(* the three zones of the property: computable and every provided name read => success with exactly the needed
   work; not computable => rejected; computable but with provided names that nothing reads => the property does
   not say (a refusal is allowed; an accepted request must still give the right values) *)
Definition judge (p : pipeline) (I S : list str) (ok_exact ok_loose : sx -> bool) (obs : sx) : bool :=
  if negb (forallb (is_output p) S) || existsb (fun o => mem_str o I) S || match S with [] => true | _ => false end then true
  else if computableb p I S then
    if all_readb p I S then ok_exact obs else sx_is_err obs || ok_loose obs
  else sx_is_err obs.

Definition all_leaf_outputs (p : pipeline) : list str :=
  flat_map (fun f => if mem_str (fid f) (leaf_fids p) then outs f else []) p.

(* every value that a run returns is the value the full pipeline computes with the provided names substituted *)
Definition values_ok (p : pipeline) (inputs : alist) (obs : sx) : bool :=
  match un_ok obs with
  | Some (SL [d; _]) =>
      match un_alist d with
      | Some res => forallb (fun kv => negb (is_output p (fst kv))
                                       || match eval_top body pick p inputs (fst kv) with
                                          | Ok v => str_eqb v (snd kv)
                                          | Err _ => false
                                          end) res
      | None => false
      end
  | _ => sx_is_err obs
  end.
Definition requested_present (Sq : option (list str)) (obs : sx) : bool :=
  match Sq, un_ok obs with
  | Some l, Some (SL [d; _]) => match un_alist d with Some res => forallb (ahas res) l | None => false end
  | _, _ => true
  end.

Definition spec_ok (c : case) (obs : sx) : bool :=
  match c with
  | CSub p Iq Sq =>
      if constructible p then judge p Iq Sq (sub_ok p Iq Sq true) (sub_ok p Iq Sq false) obs else true
  | CMap p inputs Sq auto =>
      if negb (constructible p) then true
      else
        let Iq := akeys inputs in
        match Sq with
        | Some l => judge p Iq l (map_ok p inputs l true) (map_ok p inputs l false) obs
        | None =>
            if auto then
              (* no requested outputs: whatever is returned must carry the values of the full pipeline *)
              match un_ok obs with
              | Some (SL [d; _]) =>
                  match un_alist d with
                  | Some res => forallb (fun kv => negb (is_output p (fst kv))
                                                   || match eval_top body pick p inputs (fst kv) with
                                                      | Ok v => str_eqb v (snd kv)
                                                      | Err _ => false
                                                      end) res
                  | None => false
                  end
              | _ => sx_is_err obs
              end
            else
              (* the plain map: all outputs of the pipeline *)
              judge p Iq (all_outputs p) (map_ok p inputs (all_outputs p) true) (map_ok p inputs (all_outputs p) false) obs
        end
  | CMap2 p in1 S1 a1 in2 S2 a2 =>
      (* the second request into the used folder is either refused, or it returns - for every requested output -
         the value of the full pipeline with ITS provided values substituted (never a stale value of the first run);
         the first run is only required to return right values when it succeeds *)
      if negb (constructible p) then true
      else match obs with
           | SL [o1; o2] =>
               values_ok p in1 o1
               && (match o2 with
                   | SL [SS _] => true                                   (* no second run (the first one failed) *)
                   | _ => values_ok p in2 o2 && requested_present S2 o2
                   end)
           | _ => false
           end
  end.
