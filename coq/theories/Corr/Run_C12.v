(* C12 correspondence: case type, model observation `run`, executable statement `spec_ok`.
   spec_ok is written from the property text against the declarative fault classes of Model/ValidateSpec.v
   (wfc_b / wfm_b) and the ordering predicate of Model/PrepareSteps.v; it never calls the validators. *)
From Verif Require Export Base.Prelude Base.StrOrd Base.StrUtil Base.Graph Model.MapSpec Model.MapSpecSpec
  Model.PrepareSteps Model.Validate Model.ValidateSpec Model.Mutate.
From Verif Require Model.Pipe.      (* the model of Pipeline.run of C02; used qualified (its field names clash) *)

(* how the mutated pipeline is used next *)
Inductive use_t :=
| URun (fs : list raw_func)      (* pipeline(o, **root_args(o)) for the last function's first output *)
| UMap (q : mreq).               (* pipeline.map on the folder of a previous valid run of q_funcs q, cleanup=False *)
Definition base_funcs (u : use_t) : list raw_func := match u with URun fs => fs | UMap q => q_funcs q end.

Inductive case :=
| CConstruct (fs : list raw_func) (claimed_valid : bool)
    (* PipeFunc(...) for every description, then Pipeline([]) and one add per function.
       observed: [accepted; #calls] | [rejected; class; stage; index; #calls] *)
| CMap (q : mreq) (claimed_valid : bool)
    (* pipeline.map(inputs, run_folder, ...) on the constructed pipeline.
       observed: [accepted] (prepare_run returned) | [rejected; class; #calls; folder changed?] *)
| CPrepOrder (cleanup : bool)
    (* the non-Pure steps of prepare_run extracted from the source by the translator + did coqc accept
       gen/Check_PrepareSteps.v on the regenerated term *)
| CRunOrder
    (* the non-Pure steps of Pipeline.run extracted from the source (the Effect is the first call of user code) *)
| CClassify (tag : nat)
| CCall (p : Pipe.pipeline) (o : str) (kw : Pipe.alist) (claimed_valid : bool)
| CMutate (mu : mutation) (u : use_t).
    (* "mutate-then-use": a valid pipeline is built, ONE mutation is applied through the PipeFunc / Pipeline API,
       then it is used.  observed: [never; state] (mutation and use accepted) |
       [mutation; class; #calls; changed] (the mutating call raised) |
       [use; class; #calls; folder changed?; state] (the next run / map raised); state = func_state of every
       function after the mutation *)
    (* pipeline(o, **kw) on a constructed pipeline without MapSpecs (Pipe.run, the model validated by C02).
       observed: [accepted] | [rejected; class; #calls made before the exception] *)
    (* dynamic validation of the translator's classification table on valid request #tag:
       observed = the list of callees classified Check/Pure/Rewrite that were seen to alter the run folder *)

Definition claimed_valid_flag (c : case) : bool :=
  match c with CConstruct _ b => b | CMap _ b => b | CCall _ _ _ b => b | _ => false end.

Definition sx_step (st : step) : sx :=
  match st with
  | Check l => SL [SS (s "Check"); SS l]
  | Effect l => SL [SS (s "Effect"); SS l]
  | Rewrite l => SL [SS (s "Rewrite"); SS l]
  | Pure l => SL [SS (s "Pure"); SS l]
  | Unknown l => SL [SS (s "Unknown"); SS l]
  end.
Definition un_step (x : sx) : step :=
  match x with
  | SL [SS k; SS l] =>
      if str_eqb k (s "Check") then Check l
      else if str_eqb k (s "Effect") then Effect l
      else if str_eqb k (s "Rewrite") then Rewrite l
      else if str_eqb k (s "Pure") then Pure l
      else Unknown l
  | _ => Unknown []
  end.

Definition stage_name (st : stage) : str := match st with SFunc => s "func" | SAdd => s "add" end.

Definition sx_pairs (d : list (str * str)) : sx := SL (map (fun kv => SL [SS (fst kv); SS (snd kv)]) d).
Definition sx_state (fs : list raw_func) : sx :=
  SL (map (fun f => match func_state f with
                    | (names, dflt, bnd, sp) => SL [SL (map (fun l => SL (map SS l)) names); sx_pairs dflt; sx_pairs bnd; SS sp]
                    end) fs).
Definition run_mutate (mu : mutation) (u : use_t) : sx :=
  match apply_mutation (base_funcs u) mu with
  | Err e => SL [SS (s "mutation"); SS (s (err_name e)); SI 0; SI 0]
  | Ok fs' =>
      match u with
      | URun _ =>
          match use_run fs' with
          | Err e => SL [SS (s "use"); SS (s (err_name e)); SI 0; SI 0; sx_state fs']
          | Ok _ => SL [SS (s "never"); sx_state fs']
          end
      | UMap q =>
          match map_model (fun _ => []) (with_funcs q fs') with
          | (Ok _, _, _) => SL [SS (s "never"); sx_state fs']
          | (Err e, tr, calls) =>
              SL [SS (s "use"); SS (s (err_name e)); SN (length calls); SI (match tr with [] => 0 | _ => 1 end);
                  sx_state fs']
          end
      end
  end.

Definition run (c : case) : sx :=
  match c with
  | CConstruct fs _ =>
      match construct_outcome fs with
      | None => SL [SS (s "accepted"); SI 0]
      | Some (st, i, e) => SL [SS (s "rejected"); SS (s (err_name e)); SS (stage_name st); SN i; SI 0]
      end
  | CMap q _ =>
      match map_model (fun _ => []) q with
      | (Ok _, _, _) => SL [SS (s "accepted")]
      | (Err e, tr, calls) =>
          SL [SS (s "rejected"); SS (s (err_name e)); SN (length calls);
              SI (match tr with [] => 0 | _ => 1 end)]
      end
  | CPrepOrder cleanup => SL [SL (map sx_step (map_steps cleanup)); SB true]
  | CRunOrder => SL [SL (map sx_step run_entry_steps); SB true]
  | CClassify _ => SL []
  | CMutate mu u => run_mutate mu u
  | CCall p o kw _ =>
      if Pipe.wf_pipelineb p then
        match Pipe.run_checked Pipe.Sym.body Pipe.Sym.pick p o kw false with
        | (Ok _, _) => SL [SS (s "accepted")]
        | (Err e, lg) => SL [SS (s "rejected"); SS (s (err_name e)); SN (length lg)]
        end
      else SL [SS (s "bad-case")]
  end.

(* ------------------------------------------------------------------ the executable statement *)
(* pipeline(o, **kw): a needed argument has no value (the specification's own evaluation `Pipe.eval` fails) /
   a keyword names no parameter of any function the output depends on *)
Definition call_missing (p : Pipe.pipeline) (o : str) (kw : Pipe.alist) : bool :=
  negb (is_ok (Pipe.eval_top Pipe.Sym.body Pipe.Sym.pick p kw o)).
Definition call_surplus (p : Pipe.pipeline) (o : str) (kw : Pipe.alist) : bool :=
  negb (subset_str (Pipe.akeys kw) (Pipe.param_names_needed p kw o)).
Definition call_in_scope (p : Pipe.pipeline) (o : str) (kw : Pipe.alist) : bool :=
  Pipe.wf_pipelineb p && Pipe.is_output p o && negb (Pipe.ahas kw o).
Definition steps_ok (cleanup : bool) (steps : list step) : bool :=
  if cleanup
  then (* the requested removal of the old folder is the only effect that may precede a check *)
       no_effect_before_checks (without_effect E_cleanup steps)
  else no_effect_before_checks steps.

(* The property: a request exhibiting one of the listed fault classes raises, before any user function is invoked
   and without altering a run folder opened with cleanup=False.  Nothing is demanded of requests without such a
   fault, except that the generator's own valid cases (`claimed`) are accepted (guards against a vacuous
   implementation that rejects everything). *)
Definition spec_ok (c : case) (obs : sx) : bool :=
  match c with
  | CConstruct fs claimed =>
      if negb (wfc_b fs) then
        match obs with
        | SL [SS t; SS _; SS _; SI _; SI n] => str_eqb t (s "rejected") && (n =? 0)%Z
        | _ => false
        end
      else
        match obs with
        | SL [SS t; SI n] => str_eqb t (s "accepted")
        | _ => negb claimed
        end
  | CMap q claimed =>
      if negb (wfm_b q) then
        match obs with
        | SL [SS t; SS _; SI n; SI ch] =>
            str_eqb t (s "rejected") && (n =? 0)%Z            (* before any user function is invoked *)
            && (q_cleanup q || (ch =? 0)%Z)                   (* a folder opened with cleanup=False is unaltered *)
        | _ => false
        end
      else
        match obs with
        | SL [SS t] => str_eqb t (s "accepted")
        | _ => negb claimed
        end
  | CPrepOrder cleanup =>
      match obs with
      | SL [SL steps; flag] => steps_ok cleanup (map un_step steps) && sx_eqb flag (SB true)
      | _ => false
      end
  | CRunOrder =>
      match obs with
      | SL [SL steps; flag] => no_effect_before_checks (map un_step steps) && sx_eqb flag (SB true)
      | _ => false
      end
  | CClassify _ => match obs with SL [] => true | _ => false end
  | CMutate mu u =>
      (* the state the mutation leaves behind, judged by the same fault classes as a freshly built pipeline /
         a fresh request: if ill-formed, it must be rejected at the mutation or at the start of the next run / map,
         before any user function runs and without altering the run folder (opened with cleanup=False) *)
      let fs' := mutate_desc (base_funcs u) mu in
      let faulty := negb (wfc_b fs') || match u with URun _ => false | UMap q => negb (wfm_b (with_funcs q fs')) end in
      if faulty then
        match obs with
        | SL (SS t :: SS _ :: SI n :: SI ch :: _) =>
            (str_eqb t (s "mutation") || str_eqb t (s "use")) && (n =? 0)%Z
            && ((ch =? 0)%Z || match u with URun _ => false | UMap q => q_cleanup q end)
        | _ => false
        end
      else true
  | CCall p o kw claimed =>
      if negb (call_in_scope p o kw) then true
      else if call_missing p o kw || call_surplus p o kw then
        match obs with
        | SL [SS t; SS _; SI n] => str_eqb t (s "rejected") && (n =? 0)%Z   (* before any user function is invoked *)
        | _ => false
        end
      else
        match obs with
        | SL [SS t] => str_eqb t (s "accepted")
        | _ => negb claimed
        end
  end.
