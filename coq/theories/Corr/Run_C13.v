(* C13 correspondence: case type, model observation `run`, executable statement `spec_ok`.
   Two kinds of cases: a pipeline call (pipeline(...), Pipeline.run, Pipeline.func) and a map request
   (sequential / executor, in-process or process pool), each with ONE failing invocation, identified by its call
   string `tgt`, raising the exception `e`. *)
From Verif Require Export Base.Prelude Base.NdArr Model.MapSpec Model.MapRun Model.Exn.
From Verif Require Model.Pipe Corr.C13Pipe Corr.C13Map.

(* literals of map requests use the record fields of MapRun.mfunc / MapSpec / NdArr directly (exported above);
   Model.Pipe is NOT imported (its field names clash): pipeline literals go through this alias *)
Definition mkf := Pipe.mkf.

Inductive case :=
| CPipe (p : Pipe.pipeline) (o : str) (kw : Pipe.alist) (full : bool) (entry : nat) (tgt : str) (e : exn)
    (* entry 0: pipeline(o, **kw)   1: pipeline.run(o, full_output=full, kwargs=kw)   2: pipeline.func(o)( **kw ) *)
| CMap (gens : list (list MapRun.mfunc)) (inputs : MapRun.env) (internal : MapSpec.shape_dict)
       (dump_sub par inproc : bool) (entry : nat) (tgt : str) (e : exn).
    (* dump_sub: StorageBase.dump_in_subprocess of the storage;  par: an executor is used;  inproc: the user
       functions run in the calling process (sequential / threads);  entry: which API -- 0 map(parallel=False),
       1 map(executor=ThreadPoolExecutor), 2 map(executor=ProcessPoolExecutor), 3 map(parallel=True) with pipefunc's
       own pool, 4 / 5 map_async with a thread / process pool, 6 / 7 = 0 / 1 with output_names=<all outputs>
       (map executes a subpipeline copy; the snapshots are exposed on the pipeline map was called on) *)

Definition mkexn (c : str) (a : list str) : exn := {| cls := c; eargs := a |}.

(* prepare_run / _cannot_be_parallelized: map(parallel=True) WITHOUT an executor (entry 3) falls back to the
   sequential in-process path when no function has a MapSpec and every generation is a single function *)
Definition cannot_par (gens : list (list mfunc)) : bool :=
  forallb (fun f => match fspec f with None => true | Some _ => false end) (concat gens)
  && forallb (fun g => length g =? 1) gens.
Definition eff_flags (entry : nat) (gens : list (list mfunc)) (par inproc : bool) : bool * bool :=
  if (entry =? 3) && cannot_par gens then (false, true) else (par, inproc).

Definition run (c : case) : sx :=
  match c with
  | CPipe p o kw full _ tgt e => C13Pipe.pipe_run p o kw full tgt e
  | CMap gens inputs internal dump_sub par inproc entry tgt e =>
      let '(par', inproc') := eff_flags entry gens par inproc in
      C13Map.map_run gens inputs internal dump_sub par' inproc' tgt e
  end.

Definition spec_ok (c : case) (obs : sx) : bool :=
  match c with
  | CPipe p o kw full _ tgt e => C13Pipe.pipe_spec_ok p o kw full tgt e obs
  | CMap gens inputs internal dump_sub par inproc entry tgt e =>
      let '(par', inproc') := eff_flags entry gens par inproc in
      C13Map.map_spec_ok gens inputs internal dump_sub par' inproc' tgt e obs
  end.
