(* C14 correspondence: case type, model run (as sx observation), executable statement spec_ok.
   A case is a cache configuration plus either one operation sequence (CSeq) or the complete tree of all
   operation sequences over a small alphabet up to a depth (CTree, explored depth first; after every
   operation the harness also asks `k in cache` for every key of the alphabet and `len(cache)`).
   Observation = one character per output (see enc), so that coqc has little to parse. *)
From Coq Require Import Floats Uint63.
From Verif Require Import Base.Prelude Model.Caches Model.CachesSpec Model.SharedSteps.

(* durations / weights are dyadic rationals m * 2^e given by the harness (exactly the Python float) *)
Inductive dy := Dy (m e : Z).
Definition fdy (d : dy) : float :=
  match d with
  | Dy m e =>
      let a := PrimFloat.of_uint63 (Uint63.of_Z (Z.abs m)) in
      Z.ldexp (if (m <? 0)%Z then PrimFloat.opp a else a) e
  end.

(* IEEE binary64 instance of the arithmetic used by HybridCache._expire *)
Definition farith : arith :=
  mkArith float PrimFloat.add PrimFloat.mul PrimFloat.div PrimFloat.ltb
          (fun x => PrimFloat.eqb x PrimFloat.zero) PrimFloat.zero
          (fun n => PrimFloat.of_uint63 (Uint63.of_Z (Z.of_nat n))).

Inductive cfg :=
| KLru (mx : nat) (shared : bool)
| KSimple
| KHyb (mx : nat) (aw dw : dy) (shared : bool)
| KDisk (m : option nat) (with_lru : bool) (lru_size : nat) (shared : bool).

Definition gop := dop dy.
(* short names for the generated literals *)
Definition P (k v : nat) (m e : Z) : gop := DOp (Put k v (Dy m e)).
Definition G (k : nat) : gop := DOp (Get k).
Definition M (k : nat) : gop := DOp (Mem k).
Definition L : gop := DOp Len.
Definition X : gop := DOp Clear.
Definition R (m : option nat) : gop := Reopen m.

Inductive case :=
| CSeq (c : cfg) (ops : list gop)
| CTree (c : cfg) (keys : nat) (durs : list dy) (reopens : list (option nat)) (prefix : list gop) (depth : nat)
(* two clients a and b operate concurrently on one cache (after a sequential setup); the observation is the set
   of outcomes "outputs of a|outputs of b|final probe" over ALL schedules of the two clients, where every call
   on the cache's dict/list/lock is one scheduling step (harness: step scheduler over two threads) *)
| CConc (c : cfg) (keys : nat) (setup a b : list gop).

Definition conv (o : op dy) : op float :=
  match o with
  | Put k v d => Put k v (fdy d)
  | Get k => Get k
  | Mem k => Mem k
  | Len => Len
  | Clear => Clear
  end.

Record machine := mkM { m_st : Type; m_init : m_st; m_step : m_st -> gop -> m_st * out }.

(* Reopen only exists for DiskCache; a case using it on another class is ill-formed *)
Definition lift {T} (f : T -> op dy -> T * out) (st : T) (o : gop) : T * out :=
  match o with DOp o => f st o | Reopen _ => (st, Raised NotImplementedError) end.

(* the implementation model; Err = the constructor raises *)
Definition model_machine (c : cfg) : result machine :=
  match c with
  | KLru mx _ => if mx =? 0 then Err ValueError else Ok (mkM lru lru_empty (lift (lru_step mx)))
  | KSimple => Ok (mkM simple [] (lift simple_step))
  | KHyb mx aw dw _ =>
      Ok (mkM (hyb farith) hyb_empty
              (lift (fun st o => hyb_step farith (fdy aw) (fdy dw) mx true st (conv o))))
  | KDisk m wl ls _ =>
      if wl && (ls =? 0) then Err ValueError
      else Ok (mkM disk (disk_open [] 0 m) (disk_step wl ls true))
  end.

(* the abstract specification *)
Definition spec_machine (c : cfg) : machine :=
  match c with
  | KLru mx _ => mkM (list kv) [] (lift (lru_spec_step mx))
  | KSimple => mkM (list (op dy)) [] (lift simple_spec_step)
  | KHyb mx aw dw _ =>
      mkM (list (entry farith)) []
          (lift (fun st o => hyb_spec_step farith (fdy aw) (fdy dw) mx st (conv o)))
  | KDisk m wl ls _ => mkM disk_spec (mkDS [] [] m) (disk_spec_step wl ls)
  end.

(* configurations the property speaks about: max_size >= 1 *)
Definition in_scope (c : cfg) : bool :=
  match c with
  | KLru mx _ => 1 <=? mx
  | KSimple => true
  | KHyb mx _ _ _ => 1 <=? mx
  | KDisk m wl ls _ => negb (wl && (ls =? 0))
  end.

(* ---------- output encoding ---------- *)
Definition enc (o : out) : ascii :=
  match o with
  | ONone => "-"
  | OVal v => ascii_of_nat (48 + v)
  | OBool true => "t"
  | OBool false => "f"
  | OLen n => ascii_of_nat (48 + n)
  | Raised KeyError => "k"
  | Raised ZeroDivisionError => "z"
  | Raised FileNotFoundError => "n"
  | Raised ValueError => "v"
  | Raised IndexError => "i"
  | Raised _ => "x"
  end%char.
Definition err_char (a : ascii) : bool :=
  existsb (Ascii.eqb a) ["k"; "z"; "n"; "v"; "i"; "x"]%char.

Section Drive.
  Variable mc : machine.
  Let St := m_st mc.
  Let step := m_step mc.

  Fixpoint seq_outs (st : St) (ops : list gop) : str :=
    match ops with
    | [] => []
    | o :: t => let (st', r) := step st o in enc r :: seq_outs st' t
    end.

  (* `k in cache` for k = 0..keys-1 and len(cache), packed into one character; 'x' if one of them raises *)
  Fixpoint probe_mem (st : St) (k n : nat) (w acc : nat) : St * option nat :=
    match n with
    | 0 => (st, Some acc)
    | S n' =>
        let (st', r) := step st (M k) in
        match r with
        | OBool b => probe_mem st' (S k) n' (2 * w) (if b then acc + w else acc)
        | _ => (st', None)
        end
    end.
  Definition probe (st : St) (keys : nat) : St * ascii :=
    let (st1, bits) := probe_mem st 0 keys 1 0 in
    let (st2, r) := step st1 L in
    (st2, match bits, r with
          | Some b, OLen n => ascii_of_nat (40 + b + 16 * n)
          | _, _ => "x"%char
          end).
  Definition step_probed (keys : nat) (st : St) (o : gop) : St * str :=
    let (st1, r) := step st o in
    let (st2, p) := probe st1 keys in
    (st2, [enc r; p]).

  Fixpoint prefix_outs (keys : nat) (st : St) (ops : list gop) : St * str :=
    match ops with
    | [] => (st, [])
    | o :: t =>
        let (st1, x) := step_probed keys st o in
        let (st2, y) := prefix_outs keys st1 t in
        (st2, x ++ y)
    end.

  Definition alphabet (keys : nat) (durs : list dy) (reopens : list (option nat)) (pos : nat) : list gop :=
    flat_map (fun k => map (fun d => DOp (Put k pos d)) durs) (seq 0 keys)
    ++ map G (seq 0 keys) ++ [X] ++ map R reopens.

  Fixpoint explore (keys : nat) (durs : list dy) (reopens : list (option nat)) (d pos : nat) (st : St) : str :=
    match d with
    | 0 => []
    | S d' =>
        flat_map (fun o => let (st', x) := step_probed keys st o in
                           x ++ explore keys durs reopens d' (S pos) st')
                 (alphabet keys durs reopens pos)
    end.

  Definition drive (c : case) : str :=
    match c with
    | CSeq _ ops => seq_outs (m_init mc) ops
    | CTree _ keys durs reopens prefix depth =>
        let (st, x) := prefix_outs keys (m_init mc) prefix in
        x ++ explore keys durs reopens depth (length prefix) st
    | CConc _ _ _ _ _ => []
    end.

  (* one atomic interleaving: operations tagged with their client (true = a) *)
  Fixpoint run_tagged (st : St) (m : list (bool * gop)) (oa ob : str) : St * str * str :=
    match m with
    | [] => (st, rev oa, rev ob)
    | (who, o) :: t =>
        let (st', r) := step st o in
        if who then run_tagged st' t (enc r :: oa) ob else run_tagged st' t oa (enc r :: ob)
    end.
  Definition outcome (keys : nat) (st0 : St) (m : list (bool * gop)) : str :=
    match run_tagged st0 m [] [] with
    | (st, oa, ob) => let (_, p) := probe st keys in oa ++ ["|"%char] ++ ob ++ ["|"%char; p]
    end.
  Definition after_setup (setup : list gop) : St :=
    fold_left (fun st o => fst (step st o)) setup (m_init mc).
End Drive.

(* all order-preserving merges of the two clients' operation lists *)
Fixpoint merges {X} (a b : list X) : list (list (bool * X)) :=
  match a with
  | [] => [map (fun y => (false, y)) b]
  | x :: a' =>
      (fix inner (b : list X) : list (list (bool * X)) :=
         match b with
         | [] => [map (fun z => (true, z)) (x :: a')]
         | y :: b' => map (cons (true, x)) (merges a' b) ++ map (cons (false, y)) (inner b')
         end) b
  end.

(* sorted, duplicate-free list of strings (Python: sorted(set(...)) on ASCII strings) *)
Fixpoint str_leb (a b : str) : bool :=
  match a, b with
  | [], _ => true
  | _, [] => false
  | x :: a', y :: b' =>
      let nx := nat_of_ascii x in
      let ny := nat_of_ascii y in
      if nx <? ny then true else if ny <? nx then false else str_leb a' b'
  end.
Fixpoint ins_str (x : str) (l : list str) : list str :=
  match l with
  | [] => [x]
  | y :: t => if str_eqb x y then l else if str_leb x y then x :: l else y :: ins_str x t
  end.
Definition sort_set (l : list str) : list str := fold_right ins_str [] l.

Definition conc_outcomes (mc : machine) (keys : nat) (setup a b : list gop) : list str :=
  sort_set (map (outcome mc keys (after_setup mc setup)) (merges a b)).

Definition case_cfg (c : case) : cfg :=
  match c with CSeq k _ => k | CTree k _ _ _ _ _ => k | CConc k _ _ _ _ => k end.

(* ---------- two clients on the small-step model (Model/SharedSteps.v): EVERY schedule of the harness' step
   scheduler is replayed; observation = sorted list of "<schedule>:<outputs of a>|<outputs of b>|<final probe>"
   where <schedule> is the sequence of clients picked at the scheduling points *)
Definition probe_dict (keys : nat) (d : list (nat * nat)) : ascii :=
  let bits := fold_right (fun k acc => (if amem k d then 2 ^ k else 0) + acc) 0 (seq 0 keys) in
  ascii_of_nat (40 + bits + 16 * length d).

Section SmallStep.
  Variables St Op : Type.
  Variable code : Op -> prog St.
  Variable dict_of : St -> list (nat * nat).
  Definition outs_of (g : gstate St Op) (i : nat) : str :=
    map (fun x => enc (snd x)) (rev (c_done (g_cl g i))).
  Definition fin_str (keys : nat) (g : gstate St Op) : str :=
    outs_of g 0 ++ ["|"%char] ++ outs_of g 1 ++ ["|"%char; probe_dict keys (dict_of (g_data g))].
  Fixpoint scheds (fuel : nat) (keys : nat) (g : gstate St Op) (pre : str) : list str :=
    match fuel with
    | 0 => [pre ++ ["!"%char]]
    | S f =>
        match filter (fun i => runnable i g) [0; 1] with
        | [] => [pre ++ [":"%char] ++ fin_str keys g]
        | en => flat_map (fun i => scheds f keys (turn code 64 i g)
                                          (pre ++ [ascii_of_nat (48 + i)])) en
        end
    end.
  Definition two (a b : list Op) : nat -> list Op :=
    fun i => match i with 0 => a | 1 => b | _ => [] end.
End SmallStep.

Definition un_dop (l : list gop) : list (op dy) :=
  flat_map (fun o => match o with DOp x => [x] | Reopen _ => [] end) l.

Definition conc_small (c : cfg) (keys : nat) (setup a b : list gop) : list str :=
  match c with
  | KLru mx _ =>
      let d0 := final (lru_step mx) lru_empty (un_dop setup) in
      sort_set (scheds lru (op dy) (lru_code dy mx) l_dict 200 keys
                       (init d0 (two (op dy) (un_dop a) (un_dop b))) [])
  | KHyb mx aw dw _ =>
      let stp := hyb_step farith (fdy aw) (fdy dw) mx true in
      let d0 := final stp hyb_empty (map conv (un_dop setup)) in
      sort_set (scheds (hyb farith) (op float) (hyb_code farith (fdy aw) (fdy dw) mx) h_dict 200 keys
                       (init d0 (two (op float) (map conv (un_dop a)) (map conv (un_dop b)))) [])
  | _ => []
  end.

Definition obs_of (mc : machine) (c : case) : sx :=
  match c with
  | CConc k keys setup a b => SL (map SS (conc_small k keys setup a b))
  | _ => SS (drive mc c)
  end.

(* helpers to judge an observed "<schedule>:<a>|<b>|<p>" *)
Fixpoint after_colon (x : str) : str :=
  match x with [] => [] | c :: t => if Ascii.eqb c ":"%char then t else after_colon t end.
Fixpoint split_bar (x : str) (cur : str) : list str :=
  match x with
  | [] => [rev cur]
  | c :: t => if Ascii.eqb c "|"%char then rev cur :: split_bar t [] else split_bar t (c :: cur)
  end.
Definition lock_free (o : gop) : bool := match o with DOp (Mem _) | DOp Len => true | _ => false end.
(* results of the lock-free calls are not compared with the linearizations (they may see intermediate states) *)
Fixpoint mask (ops : list gop) (x : str) : str :=
  match ops, x with
  | o :: ops', c :: x' => (if lock_free o then "?"%char else c) :: mask ops' x'
  | _, _ => x
  end.
Definition masked (a b : list gop) (x : str) : str :=
  match split_bar x [] with
  | [oa; ob; p] => mask a oa ++ ["|"%char] ++ mask b ob ++ ["|"%char] ++ p
  | _ => x
  end.
(* every len() result is at most max_size, also in the middle of another client's put *)
Fixpoint lens_ok (mx : nat) (ops : list gop) (x : str) : bool :=
  match ops, x with
  | o :: ops', c :: x' =>
      (match o with DOp Len => nat_of_ascii c <=? 48 + mx | _ => true end) && lens_ok mx ops' x'
  | _, _ => true
  end.
Definition cfg_max (c : cfg) : nat :=
  match c with KLru mx _ => mx | KHyb mx _ _ _ => mx | _ => 0 end.

Definition run (c : case) : sx :=
  match model_machine (case_cfg c) with
  | Err e => SErr e
  | Ok mc => obs_of mc c
  end.

(* ---------- the executable statement ---------- *)
(* For configurations in scope: no operation raised, and every output is the one the abstract
   specification gives (bounded map with recency / score / creation order). *)
Definition clean (x : str) : bool := forallb (fun a => negb (err_char a)) x.

Definition spec_ok (c : case) (o : sx) : bool :=
  if negb (in_scope (case_cfg c)) then true
  else match c, o with
       | CConc _ keys setup a b, SL l =>
           (* every outcome of every schedule is the outcome of SOME sequential order of the operations on the
              abstract specification (each client's own order kept), and nothing raised *)
           let lin := map (masked a b) (conc_outcomes (spec_machine (case_cfg c)) keys setup a b) in
           negb (match l with [] => true | _ => false end)
           && forallb (fun y => match y with
                                | SS s =>
                                    let x := after_colon s in
                                    clean x && existsb (str_eqb (masked a b x)) lin
                                    && match split_bar x [] with
                                       | [oa; ob; _] => lens_ok (cfg_max (case_cfg c)) a oa
                                                        && lens_ok (cfg_max (case_cfg c)) b ob
                                       | _ => false
                                       end
                                | _ => false
                                end) l
       | CConc _ _ _ _ _, _ => false
       | _, SS x => clean x && str_eqb x (drive (spec_machine (case_cfg c)) c)
       | _, _ => false
       end.
