(* C14 correspondence: case type, model run (as sx observation), executable statement spec_ok.
   A case is a cache configuration plus either one operation sequence (CSeq) or the complete tree of all
   operation sequences over a small alphabet up to a depth (CTree, explored depth first; after every
   operation the harness also asks `k in cache` for every key of the alphabet and `len(cache)`).
   Observation = one character per output (see enc), so that coqc has little to parse. *)
From Coq Require Import Floats Uint63.
From Verif Require Import Base.Prelude Model.Caches Model.CachesSpec.

(* durations / weights are dyadic rationals m * 2^e given by the harness (exactly the Python float) *)
Inductive dy := Dy (m e : Z).
Definition fdy (d : dy) : float :=
  match d with
  | Dy m e =>
      let a := PrimFloat.of_uint63 (Uint63.of_Z (Z.abs m)) in
      Z.ldexp (if (m <? 0)%Z then PrimFloat.opp a else a) e
  end.

(* IEEE binary64 instance of the arithmetic used by HybridCache._expire *)
Definition farith : arith :=
  mkArith float PrimFloat.add PrimFloat.mul PrimFloat.div PrimFloat.ltb
          (fun x => PrimFloat.eqb x PrimFloat.zero) PrimFloat.zero
          (fun n => PrimFloat.of_uint63 (Uint63.of_Z (Z.of_nat n))).

Inductive cfg :=
| KLru (mx : nat) (shared : bool)
| KSimple
| KHyb (mx : nat) (aw dw : dy) (shared : bool)
| KDisk (m : option nat) (with_lru : bool) (lru_size : nat) (shared : bool).

Definition gop := dop dy.
(* short names for the generated literals *)
Definition P (k v : nat) (m e : Z) : gop := DOp (Put k v (Dy m e)).
Definition G (k : nat) : gop := DOp (Get k).
Definition M (k : nat) : gop := DOp (Mem k).
Definition L : gop := DOp Len.
Definition X : gop := DOp Clear.
Definition R (m : option nat) : gop := Reopen m.

Inductive case :=
| CSeq (c : cfg) (ops : list gop)
| CTree (c : cfg) (keys : nat) (durs : list dy) (reopens : list (option nat)) (prefix : list gop) (depth : nat)
(* two clients a and b operate concurrently on one cache (after a sequential setup); the observation is the set
   of outcomes "outputs of a|outputs of b|final probe" over ALL schedules of the two clients, where every call
   on the cache's dict/list/lock is one scheduling step (harness: step scheduler over two threads) *)
| CConc (c : cfg) (keys : nat) (setup a b : list gop).

Definition conv (o : op dy) : op float :=
  match o with
  | Put k v d => Put k v (fdy d)
  | Get k => Get k
  | Mem k => Mem k
  | Len => Len
  | Clear => Clear
  end.

Record machine := mkM { m_st : Type; m_init : m_st; m_step : m_st -> gop -> m_st * out }.

(* Reopen only exists for DiskCache; a case using it on another class is ill-formed *)
Definition lift {T} (f : T -> op dy -> T * out) (st : T) (o : gop) : T * out :=
  match o with DOp o => f st o | Reopen _ => (st, Raised NotImplementedError) end.

(* the implementation model; Err = the constructor raises *)
Definition model_machine (c : cfg) : result machine :=
  match c with
  | KLru mx _ => if mx =? 0 then Err ValueError else Ok (mkM lru lru_empty (lift (lru_step mx)))
  | KSimple => Ok (mkM simple [] (lift simple_step))
  | KHyb mx aw dw _ =>
      Ok (mkM (hyb farith) hyb_empty
              (lift (fun st o => hyb_step farith (fdy aw) (fdy dw) mx true st (conv o))))
  | KDisk m wl ls _ =>
      if wl && (ls =? 0) then Err ValueError
      else Ok (mkM disk (disk_open [] 0 m) (disk_step wl ls true))
  end.

(* the abstract specification *)
Definition spec_machine (c : cfg) : machine :=
  match c with
  | KLru mx _ => mkM (list kv) [] (lift (lru_spec_step mx))
  | KSimple => mkM (list (op dy)) [] (lift simple_spec_step)
  | KHyb mx aw dw _ =>
      mkM (list (entry farith)) []
          (lift (fun st o => hyb_spec_step farith (fdy aw) (fdy dw) mx st (conv o)))
  | KDisk m wl ls _ => mkM disk_spec (mkDS [] [] m) (disk_spec_step wl ls)
  end.

(* configurations the property speaks about: max_size >= 1 *)
Definition in_scope (c : cfg) : bool :=
  match c with
  | KLru mx _ => 1 <=? mx
  | KSimple => true
  | KHyb mx _ _ _ => 1 <=? mx
  | KDisk m wl ls _ => negb (wl && (ls =? 0))
  end.

(* ---------- output encoding ---------- *)
Definition enc (o : out) : ascii :=
  match o with
  | ONone => "-"
  | OVal v => ascii_of_nat (48 + v)
  | OBool true => "t"
  | OBool false => "f"
  | OLen n => ascii_of_nat (48 + n)
  | Raised KeyError => "k"
  | Raised ZeroDivisionError => "z"
  | Raised FileNotFoundError => "n"
  | Raised ValueError => "v"
  | Raised IndexError => "i"
  | Raised _ => "x"
  end%char.
Definition err_char (a : ascii) : bool :=
  existsb (Ascii.eqb a) ["k"; "z"; "n"; "v"; "i"; "x"]%char.

Section Drive.
  Variable mc : machine.
  Let St := m_st mc.
  Let step := m_step mc.

  Fixpoint seq_outs (st : St) (ops : list gop) : str :=
    match ops with
    | [] => []
    | o :: t => let (st', r) := step st o in enc r :: seq_outs st' t
    end.

  (* `k in cache` for k = 0..keys-1 and len(cache), packed into one character; 'x' if one of them raises *)
  Fixpoint probe_mem (st : St) (k n : nat) (w acc : nat) : St * option nat :=
    match n with
    | 0 => (st, Some acc)
    | S n' =>
        let (st', r) := step st (M k) in
        match r with
        | OBool b => probe_mem st' (S k) n' (2 * w) (if b then acc + w else acc)
        | _ => (st', None)
        end
    end.
  Definition probe (st : St) (keys : nat) : St * ascii :=
    let (st1, bits) := probe_mem st 0 keys 1 0 in
    let (st2, r) := step st1 L in
    (st2, match bits, r with
          | Some b, OLen n => ascii_of_nat (40 + b + 16 * n)
          | _, _ => "x"%char
          end).
  Definition step_probed (keys : nat) (st : St) (o : gop) : St * str :=
    let (st1, r) := step st o in
    let (st2, p) := probe st1 keys in
    (st2, [enc r; p]).

  Fixpoint prefix_outs (keys : nat) (st : St) (ops : list gop) : St * str :=
    match ops with
    | [] => (st, [])
    | o :: t =>
        let (st1, x) := step_probed keys st o in
        let (st2, y) := prefix_outs keys st1 t in
        (st2, x ++ y)
    end.

  Definition alphabet (keys : nat) (durs : list dy) (reopens : list (option nat)) (pos : nat) : list gop :=
    flat_map (fun k => map (fun d => DOp (Put k pos d)) durs) (seq 0 keys)
    ++ map G (seq 0 keys) ++ [X] ++ map R reopens.

  Fixpoint explore (keys : nat) (durs : list dy) (reopens : list (option nat)) (d pos : nat) (st : St) : str :=
    match d with
    | 0 => []
    | S d' =>
        flat_map (fun o => let (st', x) := step_probed keys st o in
                           x ++ explore keys durs reopens d' (S pos) st')
                 (alphabet keys durs reopens pos)
    end.

  Definition drive (c : case) : str :=
    match c with
    | CSeq _ ops => seq_outs (m_init mc) ops
    | CTree _ keys durs reopens prefix depth =>
        let (st, x) := prefix_outs keys (m_init mc) prefix in
        x ++ explore keys durs reopens depth (length prefix) st
    | CConc _ _ _ _ _ => []
    end.

  (* one atomic interleaving: operations tagged with their client (true = a) *)
  Fixpoint run_tagged (st : St) (m : list (bool * gop)) (oa ob : str) : St * str * str :=
    match m with
    | [] => (st, rev oa, rev ob)
    | (who, o) :: t =>
        let (st', r) := step st o in
        if who then run_tagged st' t (enc r :: oa) ob else run_tagged st' t oa (enc r :: ob)
    end.
  Definition outcome (keys : nat) (st0 : St) (m : list (bool * gop)) : str :=
    match run_tagged st0 m [] [] with
    | (st, oa, ob) => let (_, p) := probe st keys in oa ++ ["|"%char] ++ ob ++ ["|"%char; p]
    end.
  Definition after_setup (setup : list gop) : St :=
    fold_left (fun st o => fst (step st o)) setup (m_init mc).
End Drive.

(* all order-preserving merges of the two clients' operation lists *)
Fixpoint merges {X} (a b : list X) : list (list (bool * X)) :=
  match a with
  | [] => [map (fun y => (false, y)) b]
  | x :: a' =>
      (fix inner (b : list X) : list (list (bool * X)) :=
         match b with
         | [] => [map (fun z => (true, z)) (x :: a')]
         | y :: b' => map (cons (true, x)) (merges a' b) ++ map (cons (false, y)) (inner b')
         end) b
  end.

(* sorted, duplicate-free list of strings (Python: sorted(set(...)) on ASCII strings) *)
Fixpoint str_leb (a b : str) : bool :=
  match a, b with
  | [], _ => true
  | _, [] => false
  | x :: a', y :: b' =>
      let nx := nat_of_ascii x in
      let ny := nat_of_ascii y in
      if nx <? ny then true else if ny <? nx then false else str_leb a' b'
  end.
Fixpoint ins_str (x : str) (l : list str) : list str :=
  match l with
  | [] => [x]
  | y :: t => if str_eqb x y then l else if str_leb x y then x :: l else y :: ins_str x t
  end.
Definition sort_set (l : list str) : list str := fold_right ins_str [] l.

Definition conc_outcomes (mc : machine) (keys : nat) (setup a b : list gop) : list str :=
  sort_set (map (outcome mc keys (after_setup mc setup)) (merges a b)).

Definition case_cfg (c : case) : cfg :=
  match c with CSeq k _ => k | CTree k _ _ _ _ _ => k | CConc k _ _ _ _ => k end.

Definition obs_of (mc : machine) (c : case) : sx :=
  match c with
  | CConc _ keys setup a b => SL (map SS (conc_outcomes mc keys setup a b))
  | _ => SS (drive mc c)
  end.

Definition run (c : case) : sx :=
  match model_machine (case_cfg c) with
  | Err e => SErr e
  | Ok mc => obs_of mc c
  end.

(* ---------- the executable statement ---------- *)
(* For configurations in scope: no operation raised, and every output is the one the abstract
   specification gives (bounded map with recency / score / creation order). *)
Definition clean (x : str) : bool := forallb (fun a => negb (err_char a)) x.

Definition spec_ok (c : case) (o : sx) : bool :=
  if negb (in_scope (case_cfg c)) then true
  else match c, o with
       | CConc _ keys setup a b, SL l =>
           (* every outcome of every schedule is the outcome of SOME sequential order of the operations on the
              abstract specification (each client's own order kept), and nothing raised *)
           let lin := conc_outcomes (spec_machine (case_cfg c)) keys setup a b in
           negb (match l with [] => true | _ => false end)
           && forallb (fun y => match y with
                                | SS x => clean x && existsb (str_eqb x) lin
                                | _ => false
                                end) l
       | CConc _ _ _ _ _, _ => false
       | _, SS x => clean x && str_eqb x (drive (spec_machine (case_cfg c)) c)
       | _, _ => false
       end.
