(* C15 correspondence: case type, model run (as sx observation), executable statement spec_ok. *)
From Verif Require Export Model.PyVal.
From Verif Require Import Base.Prelude Base.PySort Model.ToHashable Model.ToHashableSpec.

Inductive case :=
| CPair (fp : bool) (v w : pyval)        (* to_hashable(v, fp) vs to_hashable(w, fp) *)
| CMemo (args : list pyval)              (* f = memoize()(body); each element is ONE CALL, the value (args, kwargs) =
                                            PTuple [PTuple positional; PDict [(PStr name, value); ..]] (kwargs in call
                                            order): f is called with them; which body run produced each result *)
| CPickle (v : pyval)                    (* _pickle_key(to_hashable(v)) (DiskCache file name) in two interpreters *)
| CRekey (v w : pyval).                  (* x = build v; k0 = key(x); mutate the SAME object x in place into w; k1 = key(x) *)

(* ---------- model observation ---------- *)
Definition obs_side (r : result pyval) : sx :=
  match r with Ok k => SL [SS (s "ok"); SB (py_hashable k)] | Err e => SErr e end.
Definition obs_stable (r : result pyval) : sx :=
  (* the model's to_hashable is a function of the value alone: it predicts "same key in the other process" *)
  match r with Ok _ => SB true | Err _ => SNone end.

Definition run_pair (fp : bool) (v w : pyval) : sx :=
  let kv := to_hashable fp v in
  let kw := to_hashable fp w in
  SL [ obs_side kv; obs_side kw;
       match kv, kw with Ok a, Ok b => SB (py_eq a b) | _, _ => SNone end;
       obs_stable kv; obs_stable kw ].

(* memoize with the default SimpleCache: key = try_to_hashable((args, kwargs)) - the PAIR of the positional tuple and
   the keyword dict, exactly the call value; `key in cache` hashes the key *)
Definition memo_key (call : pyval) : result pyval := to_hashable true call.
Fixpoint memo_find (k : pyval) (store : list (pyval * nat)) : option nat :=
  match store with
  | [] => None
  | (k', i) :: t => if py_eq k' k then Some i else memo_find k t
  end.
Fixpoint memo_run (i : nat) (args : list pyval) (store : list (pyval * nat)) : list sx :=
  match args with
  | [] => []
  | a :: t =>
      match memo_key a with
      | Err e => SErr e :: memo_run (S i) t store
      | Ok k =>
          if negb (py_hashable k) then SErr TypeError :: memo_run (S i) t store
          else match memo_find k store with
               | Some j => SN j :: memo_run (S i) t store
               | None => SN i :: memo_run (S i) t (store ++ [(k, i)])
               end
      end
  end.

Definition run (c : case) : sx :=
  match c with
  | CPair fp v w => run_pair fp v w
  | CMemo args => SL (memo_run 0 args [])
  | CPickle v =>
      match to_hashable true v with
      | Ok k => SL [SS (s "ok"); SB true]      (* _pickle_key orders the sets inside the key: a function of the key *)
      | Err e => SErr e
      end
  | CRekey v w =>
      (* the key is a function of the current VALUE: no memory of the object's identity or earlier contents, and
         (ndarray values carry no layout in the model) of its logical content only *)
      match to_hashable true v with
      | Err e => SErr e
      | Ok k0 =>
          match to_hashable true w with
          | Err e => SErr e
          | Ok k1 => SL [SB (py_eq k1 k1); SB (py_eq k1 k0)]     (* [k1 == key(fresh w); k1 == k0] *)
          end
      end
  end.

(* ---------- decoding ---------- *)
Definition un_bool (x : sx) : option bool :=
  match x with SL [SS t; SI z] => if str_eqb t (s "bool") then Some (negb (z =? 0)%Z) else None | _ => None end.
Definition side_is_ok_hashable (x : sx) : bool :=
  match x with
  | SL [SS t; b] => str_eqb t (s "ok") && match un_bool b with Some true => true | _ => false end
  | _ => false
  end.
Definition side_is_ok (x : sx) : bool :=
  match x with SL [SS t; _] => str_eqb t (s "ok") | _ => false end.

(* ---------- the executable statement (from the property text) ----------
   For supported values: a key is returned and it is hashable; for the natively handled types it is the same
   key in every process; equal values of the same type (py_same) get equal keys; all other pairs get unequal
   keys.  Values that need the pickle fallback make no demand when the fallback is switched off or the object
   cannot be pickled (the documented UnhashableError). *)
Definition side_ok (fp : bool) (v : pyval) (sv st : sx) : bool :=
  if negb (convertible fp v) then true
  else side_is_ok_hashable sv
       && (if has_opaque v then true else match un_bool st with Some true => true | _ => false end).

Fixpoint memo_ok (args : list pyval) (i : nat) (l : list sx) : bool :=
  match l with
  | [] => true
  | x :: t =>
      (if sx_is_err x then true
       else match x with
            | SI z =>
                let j := Z.to_nat z in
                (0 <=? z)%Z && (j <=? i)
                && (Nat.eqb j i
                    || match nth_error args j, nth_error args i with
                       | Some a, Some b => py_same a b           (* a stored result only for equal arguments *)
                       | _, _ => false
                       end)
            | _ => false
            end)
      && memo_ok args (S i) t
  end.

Definition spec_ok (c : case) (o : sx) : bool :=
  match c with
  | CPair fp v w =>
      if negb (supported v && supported w) then true else
      match o with
      | SL [sv; sw; eq; stv; stw] =>
          side_ok fp v sv stv && side_ok fp w sw stw
          && (if side_is_ok sv && side_is_ok sw
              then match un_bool eq with Some b => Bool.eqb b (py_same v w) | None => false end
              else true)
      | _ => false
      end
  | CMemo args =>
      if negb (forallb supported args) then true else
      match o with
      | SL l => Nat.eqb (length l) (length args) && memo_ok args 0 l
      | _ => false
      end
  | CPickle v =>
      (* natively handled types: the same key - also as the bytes the DiskCache derives its file name from - in
         every process (a raised error is judged by the pair cases) *)
      if negb (supported v && negb (has_opaque v)) then true else
      if sx_is_err o then true else
      match o with
      | SL [SS t; b] => str_eqb t (s "ok") && match un_bool b with Some true => true | _ => false end
      | _ => false
      end
  | CRekey v w =>
      (* after the in-place update the object IS the value w: its key equals the key of an independently built w
         (equal values of the same type), and equals the earlier key exactly when w is the same value as v
         (a raised error is judged by the pair cases) *)
      if negb (supported v && supported w) then true else
      if sx_is_err o then true else
      match o with
      | SL [a; b] =>
          match un_bool a, un_bool b with
          | Some fresh, Some same => fresh && Bool.eqb same (py_same w v)
          | _, _ => false
          end
      | _ => false
      end
  end.

(* ---------- short constructors for the generated case files (coqc parses ~40 KB/s of literals) ---------- *)
Definition vi (z : Z) : pyval := PA (AInt z).
Definition vb (b : bool) : pyval := PA (ABool b).
Definition vf (q : Z) : pyval := PA (AFloat q).
Definition vs (x : str) : pyval := PA (AStr x).
Definition vy (x : str) : pyval := PA (ABytes x).
Definition vn : pyval := PA ANone.
Definition vt (n : str) : pyval := PA (AType n).
Definition vm : pyval := PA AMasked.
Definition vo (c : str) (i : Z) (p : bool) : pyval := PA (AOpaque c i p).
Definition xT := PSeq KTuple.
Definition xL := PSeq KList.
Definition xQ (m : option Z) := PSeq (KDeque m).
Definition xB := PSeq KBytearray.
Definition xA (c : str) := PSeq (KArray c).
Definition xN (m : bool) (d : str) (sh : list Z) := PSeq (KNd m d sh).
Definition xS := PSetv KSet.
Definition xF := PSetv KFrozenset.
Definition xD := PMap KDict.
Definition xO := PMap KODict.
Definition xE (f : option str) := PMap (KDefault f).
Definition xC := PMap KCounter.
Arguments vi z%Z.
Arguments vf q%Z.
Arguments vo c i%Z p.
Arguments xQ m%Z l.
Arguments xN m d sh%Z l.
