(* C16 correspondence: case type, model run (as sx observation), executable statement spec_ok. *)
From Verif Require Import Base.Prelude Model.Ty Model.TyPipe Model.TySpec.

Inductive case :=
| CPair (a b : ty)                         (* is_type_compatible(a, b) *)
| CPipe (fs : list pfunc) (v : bool).      (* Pipeline(fs, validate_type_annotations=v) *)

(* short names for the generated literals *)
Definition tI := TCls CInt.   Definition tB := TCls CBool.  Definition tF := TCls CFloat.
Definition tS := TCls CStr.   Definition tY := TCls CBytes. Definition tN := TCls CNone.
Definition tO := TCls CObj.   Definition tA := TAny.        Definition tM := TNoAnn.
Definition U := TUnion.       Definition G := TGen.         Definition Ba := TBare.
Definition An := TAnnot.      Definition Ar := TArray.      Definition V := TVar.
Definition Un := TUnres.
Definition oL := OList. Definition oS := OSet. Definition oT := OTuple. Definition oD := ODict.
Definition oO := OODict. Definition oN := ONdarray. Definition oY := ODtype.
Definition mS (x : str) := MStr x.  Definition mI (z : Z) := MInt z.
Definition Fn (o : str) (r : ty) (ps : list (str * option ty)) (m : option mspec) : pfunc :=
  {| f_out := o; f_ret := r; f_params := ps; f_ms := m |}.
Definition Ms (i o : list araw) : mspec := {| ms_in := i; ms_out := o |}.

Definition obs_bool (b : bool) : sx := SL [SS (s "ok"); SB b].
Definition obs_unit (r : result unit) : sx := sx_of_result (fun _ => SNone) r.

Definition run (c : case) : sx :=
  match c with
  | CPair a b => obs_bool (compat a b)
  | CPipe fs v => if no_autogen fs then obs_unit (construct fs v) else SS (s "outside-fragment")
  end.

Definition un_ok_bool (o : sx) : option bool :=
  match o with
  | SL [SS t; SL [SS t2; SI z]] => if str_eqb t (s "ok") && str_eqb t2 (s "bool") then Some (negb (z =? 0)%Z) else None
  | _ => None
  end.

Definition accepted_of (o : sx) : option bool :=     (* Some true = constructed, Some false = TypeError *)
  match o with
  | SL [SS t; SL [SS t2]] => if str_eqb t (s "ok") && str_eqb t2 (s "none") then Some true else None
  | SL [SS t; SS e] => if str_eqb t (s "err") && str_eqb e (s "TypeError") then Some false else None
  | _ => None
  end.

Definition spec_ok (c : case) (o : sx) : bool :=
  match c with
  | CPair a b =>
      (* the answer is a bool (never an exception) and it is the reference's *)
      match un_ok_bool o with
      | Some r => Bool.eqb r (subb a b)
      | None => false
      end
  | CPipe fs v =>
      match accepted_of o with
      | Some acc => pipe_ok fs v acc
      | None => false
      end
  end.

(* the cases the theorems speak about (Props/C16.v): annotations in typing's normal form, outside the two known
   findings, pipelines inside the modelled fragment *)
Definition valid (c : case) : bool :=
  match c with
  | CPair a b => wf a && wf b && notv a
  | CPipe fs v => no_autogen fs && pipe_guard fs
  end.
