(* development-time only: correspondence of Model/TyOrig.v with the unrepaired code *)
From Verif Require Export Base.Prelude Model.Ty Model.TyOrig Corr.Run_C16.
Definition case := Run_C16.case.
Definition run (c : case) : sx :=
  match c with
  | CPair a b => sx_of_result SB (compat_orig a b)
  | CPipe _ _ => SS (s "n/a")
  end.
Definition spec_ok (c : case) (o : sx) : bool := true.
