(* C17 correspondence: case type, model run (as sx observation), executable statement spec_ok. *)
From Verif Require Import Base.Prelude Base.Index Model.SweepSpec.
From Verif Require Export Model.Sweep Model.SweepSeq.

(* structural user callables: both sides can evaluate them *)
Inductive dexpr :=
| DSub (tag : str) (ks : list str)   (* lambda c: (tag, tuple(c[k] for k in ks)) *)
| DAll (tag : str)                   (* lambda c: (tag, tuple(c.items())) : sees the whole dict, in dict order *)
| DConst (v : val)                   (* lambda c: v *)
| DGet (k : str).                    (* lambda c: c[k] *)
Inductive pexpr :=
| PIn (ks : list str) (table : list (list val))   (* lambda c: tuple(c[k] for k in ks) in table *)
| PEq (k1 k2 : str)                                (* lambda c: c[k1] == c[k2] *)
| PHas (k : str).                                  (* lambda c: k in c *)

Definition eval_d (d : dexpr) : deriver := fun c =>
  match d with
  | DSub tag ks => do vs <- mapM (dgetE c) ks; Ok (SL [SS tag; SL vs])
  | DAll tag => Ok (SL [SS tag; SL (map (fun kv => SL [SS (fst kv); snd kv]) c)])
  | DConst v => Ok v
  | DGet k => dgetE c k
  end.
Definition eval_p (p : pexpr) : predicate := fun c =>
  match p with
  | PIn ks table => do vs <- mapM (dgetE c) ks; Ok (mem_vals vs table)
  | PEq k1 k2 => do a <- dgetE c k1; do b <- dgetE c k2; Ok (sx_eqb a b)
  | PHas k => Ok (dhas c k)
  end.
(* keys a callable may look at; None = the whole dict *)
Definition reads_d (d : dexpr) : option (list str) :=
  match d with DSub _ ks => Some ks | DAll _ => None | DConst _ => Some [] | DGet k => Some [k] end.
Definition reads_p (p : pexpr) : option (list str) :=
  match p with PIn ks _ => Some ks | PEq a b => Some [a; b] | PHas k => Some [k] end.

Record rsweep := {
  r_items : list (str * list val);
  r_dims : option (list dimg);
  r_excl : option pexpr;
  r_consts : option (list (str * val));
  r_ders : option (list (str * dexpr)) }.

Definition mk_ders (l : list (str * dexpr)) : dict deriver :=
  dict_of (map (fun kd => (fst kd, eval_d (snd kd))) l).
Definition to_sweep (r : rsweep) : sweep :=
  {| items := dict_of (r_items r); dims := r_dims r; excl := option_map eval_p (r_excl r);
     consts := option_map (fun l => dict_of l) (r_consts r); ders := option_map mk_ders (r_ders r) |}.

Inductive mexpr := ELeaf (r : rsweep) | EAdd (a b : mexpr) | EMulti (l : list mexpr).
Fixpoint eval_m (e : mexpr) : msweep :=
  match e with
  | ELeaf r => MLeaf (to_sweep r)
  | EAdd a b => madd (eval_m a) (eval_m b)
  | EMulti l => MMulti (map eval_m l)
  end.
Fixpoint leaves (e : mexpr) : list rsweep :=
  match e with
  | ELeaf r => [r]
  | EAdd a b => leaves a ++ leaves b
  | EMulti l => flat_map leaves l
  end.

(* one operation on the slots (0.. = the base sweeps, then one slot per successful operation) *)
Inductive sop :=
| OProduct (i : nat) (js : list nat)
| OAdd (i j : nat)
| OFilter (i : nat) (keys : list str)
| OAddDer (i : nat) (d : list (str * dexpr)).

Inductive case :=
| CSweep (r : rsweep)                                   (* Sweep(...).list(), len *)
| CAddDer (r : rsweep) (d : list (str * dexpr))         (* Sweep(...).add_derivers( **d ) *)
| CProduct (r : rsweep) (others : list rsweep)          (* r.product( *others ) *)
| CMulti (e : mexpr)                                    (* + / MultiSweep *)
| CFilter (r : rsweep) (keys : list str)                (* filtered_sweep(keys) *)
| CFilterM (e : mexpr) (keys : list str)
| CCount (r : rsweep) (deps : list (str * list str))    (* count_sweep(Sweep object) and count_sweep(its .list()) *)
| CCountM (e : mexpr) (deps : list (str * list str))    (* the same for a MultiSweep object *)
| CSeq (base : list rsweep) (ops : list sop).           (* operations on shared objects, everything re-listed *)

(* ---------- observations ---------- *)
Definition sx_combo (c : combo) : sx := SL (map (fun kv => SL [SS (fst kv); snd kv]) c).
Definition res_list (r : result (list combo)) : sx := sx_of_result (fun l => SL (map sx_combo l)) r.
Definition res_nat (r : result nat) : sx := sx_of_result SN r.
Definition sx_deps (deps : list (str * list str)) : sx :=
  SL (map (fun da => SL [SS (fst da); SL (map SS (snd da))]) deps).
Definition sx_counts (l : list (str * list (list val * nat))) : sx :=
  SL (map (fun dc => SL [SS (fst dc); SL (map (fun kn => SL [SL (fst kn); SN (snd kn)]) (snd dc))]) l).

Definition obs_sweep (s : sweep) : sx := SL [res_list (generate s); res_nat (len s)].
Definition obs_msweep (m : msweep) : sx := SL [res_list (mgenerate m); res_nat (mlen m)].

(* ---------- operation sequences on shared objects ---------- *)
Definition to_mop (o : sop) : mop :=
  match o with
  | OProduct i js => MProduct i js
  | OAdd i j => MAdd i j
  | OFilter i keys => MFilter i keys
  | OAddDer i d => MAddDer i (mk_ders d)
  end.

(* list() and len() of one object; a MultiSweep that contains itself recurses until RecursionError *)
Definition obs_obj (h : heap) (id : nat) : sx :=
  match value h id with
  | Some m => obs_msweep m
  | None => SL [SErr OtherError; SErr OtherError]
  end.
Definition snapshot (h : heap) (slots : list nat) : sx := SL (map (obs_obj h) slots).

Fixpoint run_ops (h : heap) (slots : list nat) (ops : list sop) : list sx :=
  match ops with
  | [] => []
  | o :: t =>
      match step h slots (to_mop o) with
      | SNew h' id => SL [SS (s "ok"); snapshot h' (slots ++ [id])] :: run_ops h' (slots ++ [id]) t
      | SRaise e => SL [SErr e; snapshot h slots] :: run_ops h slots t
      | SBad => SL [SS (s "bad-case"); snapshot h slots] :: run_ops h slots t
      end
  end.
Definition run_seq (base : list rsweep) (ops : list sop) : sx :=
  let h := map (fun r => HSweep (to_sweep r)) base in
  let slots := seq 0 (length base) in
  SL (snapshot h slots :: run_ops h slots ops).

Definition run (c : case) : sx :=
  match c with
  | CSweep r => obs_sweep (to_sweep r)
  | CAddDer r d => obs_sweep (add_derivers (to_sweep r) (mk_ders d))
  | CProduct r others => sx_of_result obs_sweep (product (to_sweep r) (map to_sweep others))
  | CMulti e => obs_msweep (eval_m e)
  | CFilter r keys => sx_of_result obs_sweep (filtered (to_sweep r) keys)
  | CFilterM e keys => sx_of_result obs_msweep (mfiltered (eval_m e) keys)
  | CCount r deps =>
      (* the object form and the list form go through the same loop over list() *)
      let oc := sx_of_result sx_counts (do cs <- generate (to_sweep r); count_sweep deps cs) in
      SL [sx_deps deps; oc; oc]
  | CCountM e deps =>
      let oc := sx_of_result sx_counts (do cs <- mgenerate (eval_m e); count_sweep deps cs) in
      SL [sx_deps deps; oc; oc]
  | CSeq base ops => run_seq base ops
  end.

(* ---------- decoding of observations ---------- *)
Definition un_ok (o : sx) : option sx :=
  match o with SL [SS t; v] => if str_eqb t (s "ok") then Some v else None | _ => None end.
Fixpoint optM {A B} (f : A -> option B) (l : list A) : option (list B) :=
  match l with
  | [] => Some []
  | x :: t => match f x, optM f t with Some y, Some ys => Some (y :: ys) | _, _ => None end
  end.
Definition un_combo (x : sx) : option combo :=
  match x with
  | SL l => optM (fun kv => match kv with SL [SS k; v] => Some (k, v) | _ => None end) l
  | _ => None
  end.
Definition un_combos (x : sx) : option (list combo) :=
  match x with SL l => optM un_combo l | _ => None end.
Definition un_nat (x : sx) : option nat :=
  match x with SI z => if (z <? 0)%Z then None else Some (Z.to_nat z) | _ => None end.

(* ---------- the executable statement ---------- *)
Definition sublist_str (a b : list str) : bool := forallb (fun k => mem_str k b) a.

(* a callable of an operand is local when it only looks at keys the operand's own combinations carry *)
Definition local_r (r : rsweep) : bool :=
  let ks := combo_keys (to_sweep r) in
  match r_excl r with
  | None => true
  | Some p => match reads_p p with Some l => sublist_str l ks | None => false end
  end
  && match r_ders r with
     | None => true
     | Some l => forallb (fun kd => match reads_d (snd kd) with Some l' => sublist_str l' ks | None => false end) l
     end.

(* r_items etc. really are dicts (no repeated key), so that to_sweep does not collapse anything *)
(* a callable that looks at the whole dict sees the insertion order of its keys; the documented list fixes that
   order only when dims is omitted or in item order (otherwise combinations are compared as finite maps) *)
Definition has_global (r : rsweep) : bool :=
  match r_ders r with
  | None => false
  | Some l => existsb (fun kd => match reads_d (snd kd) with None => true | Some _ => false end) l
  end.

Definition wf_r (r : rsweep) : bool :=
  (in_item_order (to_sweep r) || negb (has_global r))
  && nodup_str (map fst (r_items r))
  && nodup_str (match r_consts r with None => [] | Some l => map fst l end)
  && nodup_str (match r_ders r with None => [] | Some l => map fst l end)
  && wf_sweep (to_sweep r).

(* whatever else happens: len(sweep) == len(sweep.list()) when both return *)
Definition len_ok (olist olen : sx) : bool :=
  match un_ok olist, un_ok olen with
  | Some l, Some n => match l, un_nat n with SL l', Some n' => length l' =? n' | _, _ => false end
  | _, _ => true
  end.

(* the observed list is `expected`: position by position when `ordered`, as a multiset otherwise *)
Definition list_ok (ordered : bool) (expected : list combo) (olist olen : sx) : bool :=
  match un_ok olist, un_ok olen with
  | Some lx, Some n =>
      match un_combos lx, un_nat n with
      | Some l, Some n' =>
          (if ordered then combos_eqb l expected else combos_perm_eqb l expected) && (length l =? n')
      | _, _ => false
      end
  | _, _ => false
  end.

Definition sweep_ok (r : rsweep) (s : sweep) (o : sx) : bool :=
  match o with
  | SL [olist; olen] =>
      len_ok olist olen
      && (if wf_r r && wf_sweep s then
            match spec_list s with
            | Ok l => list_ok (in_item_order s) l olist olen
            | Err _ => true
            end
          else true)
  | _ => false
  end.

Definition mapM_spec (rs : list rsweep) : result (list (list combo)) := mapM (fun r => spec_list (to_sweep r)) rs.

Definition product_ok (ops : list rsweep) (o : sx) : bool :=
  if forallb wf_r ops && nodup_str (concat (map (fun r => all_keys (to_sweep r)) ops)) && forallb local_r ops then
    match mapM_spec ops with
    | Ok ls =>
        match un_ok o with
        | Some (SL [olist; olen]) =>
            list_ok (forallb (fun r => in_item_order (to_sweep r)) ops) (cart_union ls) olist olen
        | _ => false
        end
    | Err _ => true
    end
  else match un_ok o with Some (SL [olist; olen]) => len_ok olist olen | _ => true end.

Definition multi_ok (rs : list rsweep) (o : sx) : bool :=
  match o with
  | SL [olist; olen] =>
      len_ok olist olen
      && (if forallb wf_r rs then
            match mapM_spec rs with
            | Ok ls => list_ok (forallb (fun r => in_item_order (to_sweep r)) rs) (concat ls) olist olen
            | Err _ => true
            end
          else true)
  | _ => false
  end.

(* premises of the filtered_sweep clause *)
Definition filter_pre (r : rsweep) (keys : list str) : bool :=
  let s := to_sweep r in
  wf_r r
  && match opt_keys (consts s) with [] => true | _ => false end
  && match r_excl r with None => true | Some _ => false end
  && forallb (fun kv => nodup_vals (snd kv)) (items s)
  && negb (match keys with [] => true | _ => false end) && nodup_str keys && sublist_str keys (combo_keys s).

Definition filter_ok (r : rsweep) (keys : list str) (o : sx) : bool :=
  match un_ok o with
  | Some (SL [olist; olen]) =>
      len_ok olist olen
      && (if filter_pre r keys then
            match spec_list (to_sweep r) with
            | Ok l =>
                match un_ok olist with
                | Some lx => match un_combos lx with
                             | Some got => nodup_combos got && same_set got (distinct (map (proj keys) l))
                             | None => false
                             end
                | None => false
                end
            | Err _ => true
            end
          else true)
  | _ => if filter_pre r keys then
           match spec_list (to_sweep r) with Ok _ => false | Err _ => true end
         else true
  end.

Definition filterm_ok (rs : list rsweep) (keys : list str) (o : sx) : bool :=
  match un_ok o with
  | Some (SL [olist; olen]) =>
      len_ok olist olen
      && (if forallb (fun r => filter_pre r keys) rs then
            match mapM_spec rs with
            | Ok ls =>
                match un_ok olist with
                | Some lx => match un_combos lx with
                             | Some got => combos_perm_eqb got (flat_map (fun l => distinct (map (proj keys) l)) ls)
                             | None => false
                             end
                | None => false
                end
            | Err _ => true
            end
          else true)
  | _ => if forallb (fun r => filter_pre r keys) rs then
           match mapM_spec rs with Ok _ => false | Err _ => true end
         else true
  end.

(* count_sweep: for each dependency, every root-argument tuple that occurs is reported once, with the number
   of combinations that share it *)
Definition un_counts (x : sx) : option (list (str * list (list val * nat))) :=
  match x with
  | SL l => optM (fun dc => match dc with
                            | SL [SS d; SL kns] =>
                                option_map (fun v => (d, v))
                                  (optM (fun kn => match kn with
                                                   | SL [SL k; n] => option_map (fun n' => (k, n')) (un_nat n)
                                                   | _ => None end) kns)
                            | _ => None end) l
  | _ => None
  end.
Fixpoint nodup_tuples (l : list (list val)) : bool :=
  match l with [] => true | x :: t => negb (mem_vals x t) && nodup_tuples t end.

(* one reported count table against the documented combination list cs *)
Definition counts_ok (deps : list (str * list str)) (cs : list combo) (oc : sx) : bool :=
  match un_ok oc with
  | Some cx =>
      match un_counts cx with
      | Some got =>
          list_eqb str_eqb (map fst got) (map fst deps)
          && forallb (fun dg =>
               let args := snd (fst dg) in
               let cnt := snd (snd dg) in
               nodup_tuples (map fst cnt)
               && forallb (fun kn => (0 <? snd kn) && (snd kn =? count_of args cs (fst kn))) cnt
               && forallb (fun c => mem_vals (tuple_of args c) (map fst cnt)) cs)
             (combine deps got)
      | None => false
      end
  | None => false
  end.

(* both forms - the sweep object and its .list() - must report the documented counts *)
Definition count_ok (r : rsweep) (deps : list (str * list str)) (o : sx) : bool :=
  let sw := to_sweep r in
  if wf_r r && nodup_str (map fst deps) && forallb (fun da => sublist_str (snd da) (combo_keys sw)) deps then
    match spec_list sw with
    | Ok cs =>
        match o with
        | SL [_; oc1; oc2] => counts_ok deps cs oc1 && counts_ok deps cs oc2
        | _ => false
        end
    | Err _ => true
    end
  else true.

Definition countm_ok (rs : list rsweep) (deps : list (str * list str)) (o : sx) : bool :=
  if forallb wf_r rs && nodup_str (map fst deps)
     && forallb (fun r => forallb (fun da => sublist_str (snd da) (combo_keys (to_sweep r))) deps) rs then
    match mapM_spec rs with
    | Ok ls =>
        match o with
        | SL [_; oc1; oc2] => counts_ok deps (concat ls) oc1 && counts_ok deps (concat ls) oc2
        | _ => false
        end
    | Err _ => true
    end
  else true.

(* ---------- operation sequences: nothing that exists changes, every new result is the documented one ---------- *)
(* what is known about a slot: a product of base sweeps (a base sweep is the product of itself), or something else *)
Inductive prov := PB (rs : list rsweep) | POther.

Fixpoint all_pb (ps : list (option prov)) : option (list rsweep) :=
  match ps with
  | [] => Some []
  | Some (PB rs) :: t => option_map (fun r => rs ++ r) (all_pb t)
  | _ :: _ => None
  end.

(* the slots that existed before the step are observed exactly as before it *)
Fixpoint unchanged (prev now : list sx) : bool :=
  match prev, now with
  | [], _ => true
  | p :: prev', n :: now' => sx_eqb p n && unchanged prev' now'
  | _ :: _, [] => false
  end.

Definition obs_list (o : sx) : option (list sx) :=
  match o with SL [olist; _] => match un_ok olist with Some (SL l) => Some l | _ => None end | _ => None end.

(* a + b : the combinations of a followed by those of b, as they were listed before the operation *)
Definition add_ok (oa ob onew : sx) : bool :=
  match onew with
  | SL [olist; olen] =>
      len_ok olist olen
      && match obs_list oa, obs_list ob with
         | Some la, Some lb => match obs_list onew with Some ln => list_eqb sx_eqb ln (la ++ lb) | None => false end
         | _, _ => true
         end
  | _ => false
  end.

Definition new_ok (provs : list prov) (prev : list sx) (o : sop) (res : sx) : bool :=
  (* res : the operation's outcome as sx_of_result of the new object's observation *)
  match o with
  | OProduct i js =>
      match all_pb (map (nth_error provs) (i :: js)) with
      | Some rs => product_ok rs res
      | None => match un_ok res with Some (SL [olist; olen]) => len_ok olist olen | _ => true end
      end
  | OAdd i j =>
      match un_ok res, nth_error prev i, nth_error prev j with
      | Some onew, Some oa, Some ob => add_ok oa ob onew
      | _, _, _ => true
      end
  | OFilter i keys =>
      match nth_error provs i with
      | Some (PB [r]) => filter_ok r keys res
      | _ => match un_ok res with Some (SL [olist; olen]) => len_ok olist olen | _ => true end
      end
  | OAddDer i d => match un_ok res with Some (SL [olist; olen]) => len_ok olist olen | _ => true end
  end.

Definition new_prov (provs : list prov) (o : sop) : prov :=
  match o with
  | OProduct i js => match all_pb (map (nth_error provs) (i :: js)) with Some rs => PB rs | None => POther end
  | _ => POther
  end.

Fixpoint last_opt {A} (l : list A) : option A :=
  match l with [] => None | [x] => Some x | _ :: t => last_opt t end.

Fixpoint seq_steps_ok (provs : list prov) (prev : list sx) (ops : list sop) (steps : list sx) : bool :=
  match ops, steps with
  | [], [] => true
  | o :: ops', SL [marker; SL now] :: steps' =>
      unchanged prev now
      && (if sx_eqb marker (SS (s "ok")) then
            (length now =? S (length prev))
            && match last_opt now with
               | Some onew => new_ok provs prev o (SL [SS (s "ok"); onew])
                              && seq_steps_ok (provs ++ [new_prov provs o]) now ops' steps'
               | None => false
               end
          else
            (length now =? length prev)
            && (if sx_is_err marker then new_ok provs prev o marker else true)
            && seq_steps_ok provs now ops' steps')
  | _, _ => false
  end.

Fixpoint forallb2' {A B} (f : A -> B -> bool) (a : list A) (b : list B) : bool :=
  match a, b with
  | [], [] => true
  | x :: a', y :: b' => f x y && forallb2' f a' b'
  | _, _ => false
  end.

Definition seq_ok (base : list rsweep) (ops : list sop) (o : sx) : bool :=
  match o with
  | SL (SL snap0 :: steps) =>
      forallb2' (fun r ob => sweep_ok r (to_sweep r) ob) base snap0
      && seq_steps_ok (map (fun r => PB [r]) base) snap0 ops steps
  | _ => false
  end.

Definition spec_ok (c : case) (o : sx) : bool :=
  match c with
  | CSweep r => sweep_ok r (to_sweep r) o
  | CAddDer r d =>
      (* add_derivers is not part of the property text: only len == len(list) is demanded *)
      match o with SL [olist; olen] => len_ok olist olen | _ => false end
  | CProduct r others => product_ok (r :: others) o
  | CMulti e => multi_ok (leaves e) o
  | CFilter r keys => filter_ok r keys o
  | CFilterM e keys => filterm_ok (leaves e) keys o
  | CCount r deps => count_ok r deps o
  | CCountM e deps => countm_ok (leaves e) deps o
  | CSeq base ops => seq_ok base ops o
  end.
