(* C18 correspondence: case type, model observation, executable statement (written against Pipe.eval /
   Pipe.needed, never against Lazy.lazy_run / Lazy.ev). *)
From Verif Require Export Base.Prelude Base.StrOrd Base.Graph Model.Pipe Model.SymNone Model.Lazy Model.LazySeq Model.LazyXref Corr.PipeObs.

Inductive case :=
| CLazy (p : pipeline) (o : str) (kw : alist) (full : bool) (dag : bool)
    (* Pipeline(p, lazy=True).run(o, full_output=full, kwargs=kw), inside `with construct_dag()` when dag;
       then: call log, evaluate_lazy(result), log, evaluate_lazy(result) again, log, task graph *)
| CSeq (p : pipeline) (dag : bool) (rs : list request_t)
| CBlocks (p : pipeline) (phases : list (bool * list request_t)).
    (* ONE Pipeline(p, lazy=True) object, several PHASES of requests: a phase is one `with construct_dag()` block
       (true) or requests outside any block (false; only as the first phase).  A keyword value may be the deferred
       result of a request of an EARLIER phase.  Every block has its own task graph (and cache); node numbers are the
       allocation order of all deferred objects of the history.  Observed: as CSeq, and per block the range of the
       nodes created in it and the recorded edges. *)
    (* ONE Pipeline(p, lazy=True) object; all requests (output, keywords, full_output, evaluate-right-away) in order,
       inside one `with construct_dag()` block when dag; then evaluate_lazy of every returned object.
       Functions with cached=true use the pipeline's LRU cache; inside construct_dag() the task-graph cache is used.
       A keyword value may be the deferred result of an earlier request (KRes j), bare or inside lists / tuples. *)

Definition body := SymN.body.
Definition pick := SymN.pick.

Definition sx_elog (l : list (nat * call)) : sx := sx_strs (map (fun e => Sym.show_call (snd e)) l).

Definition sx_nat_edges (h : heap) (es : list (nat * nat)) : sx :=
  SL [ SL (map (fun nd => SS (node_label nd)) h);
       SL (map (fun e => SL [SN (fst e); SN (snd e)])
               (sort (fun a b => (fst a <? fst b) || ((fst a =? fst b) && (snd a <? snd b))) es)) ].

Definition eval_outcome (st : estate) (x : loutcome) : estate * sx :=
  match x with
  | LValue a => let '(st1, r) := evaluate body pick st a in (st1, sx_of_result SS r)
  | LFull d => let '(st1, r) := evaluate_dict body pick st d [] in (st1, sx_of_result sx_sorted_dict r)
  end.


(* the phases of a CBlocks history: per block (first node, one past the last node, recorded edges) *)
Fixpoint run_phases (p : pipeline) (ps : pstate) (outs : list (result loutcome)) (phs : list (bool * list request_t))
  : pstate * list (result loutcome) * list (nat * nat * list (nat * nat)) :=
  match phs with
  | [] => (ps, outs, [])
  | (dagon, rs) :: t =>
      let ps0 := if dagon then {| pheap := pheap ps; pdag := []; pcache := []; plog := plog ps |} else ps in
      let res := map (fun r => match r with Ok (LValue a) => Some a | _ => None end) outs in
      let '(ps1, os) := run_requests_t body pick p dagon ps0 res rs in
      let '(ps2, outs2, bl) := run_phases p ps1 (outs ++ os) t in
      (ps2, outs2,
       if dagon
       then (length (pheap ps), length (pheap ps1),
             fold_left (fun acc e => if existsb (fun x => (fst x =? fst e) && (snd x =? snd e)) acc
                                     then acc else acc ++ [e]) (pdag ps1) []) :: bl
       else bl)
  end.

Definition sx_edges (es : list (nat * nat)) : sx :=
  SL (map (fun e => SL [SN (fst e); SN (snd e)])
          (sort (fun a b => (fst a <? fst b) || ((fst a =? fst b) && (snd a <? snd b))) es)).

Definition run (c : case) : sx :=
  match c with
  | CLazy p o kw full dag =>
      if wf_pipelineb p then
        let '(r, st) := lazy_run_checked p o kw full dag in
        match r with
        | Err e => SL [SErr e]
        | Ok x =>
            let e0 := {| eheap := lheap st; elog := [] |} in
            let '(e1, v1) := eval_outcome e0 x in
            let '(e2, v2) := eval_outcome e1 x in
            SL [ SS (s "ok"); sx_elog (elog e0); v1; sx_elog (elog e1); v2; sx_elog (elog e2);
                 if dag then sx_nat_edges (lheap st) (ldag st) else SNone ]
        end
      else bad_case
  | CSeq p dag rs =>
      if wf_pipelineb p then
        let '(ps1, outcomes) := run_requests_t body pick p dag (pinit) [] rs in
        let '(ps2, values) := eval_all_t body pick ps1 outcomes in
        SL [ SL (map (fun r => match r with Ok _ => SS (s "ok") | Err e => SErr e end) outcomes);
             sx_elog (plog ps1);
             SL (map (fun v => match v with
                               | None => SNone
                               | Some (Ok (inl x)) => SL [SS (s "ok"); SS x]
                               | Some (Ok (inr d)) => SL [SS (s "ok"); sx_sorted_dict d]
                               | Some (Err e) => SErr e
                               end) values);
             sx_elog (plog ps2);
             if dag then
               match sx_nat_edges (pheap ps2)
                                  (fold_left (fun acc e => if existsb (fun x => (fst x =? fst e) && (snd x =? snd e)) acc
                                                           then acc else acc ++ [e]) (pdag ps2) []) with   (* a DiGraph has no parallel edges *)
               | SL [labs; es] =>
                   SL [labs; es;
                       SL (map (fun nd => SL (map SN (sort Nat.ltb (nodup Nat.eq_dec (deps_edge nd))))) (pheap ps2));
                       SL (map (fun nd => SL (map SN (sort Nat.ltb (nodup Nat.eq_dec (deps_all nd))))) (pheap ps2))]
               | x => x
               end
             else SNone ]
      else bad_case
  | CBlocks p phs =>
      if wf_pipelineb p then
        let '(ps1, outcomes, blocks) := run_phases p pinit [] phs in
        let '(ps2, values) := eval_all_t body pick ps1 outcomes in
        SL [ SL (map (fun r => match r with Ok _ => SS (s "ok") | Err e => SErr e end) outcomes);
             sx_elog (plog ps1);
             SL (map (fun v => match v with
                               | None => SNone
                               | Some (Ok (inl x)) => SL [SS (s "ok"); SS x]
                               | Some (Ok (inr d)) => SL [SS (s "ok"); sx_sorted_dict d]
                               | Some (Err e) => SErr e
                               end) values);
             sx_elog (plog ps2);
             SL [ SL (map (fun nd => SS (node_label nd)) (pheap ps2));
                  SL (map (fun b => SL [SN (fst (fst b)); SN (snd (fst b)); sx_edges (snd b)]) blocks);
                  SL (map (fun nd => SL (map SN (sort Nat.ltb (nodup Nat.eq_dec (deps_all nd))))) (pheap ps2)) ] ]
      else bad_case
  end.

(* ------------------------------------------------------------------ the executable statement *)
Definition call_string (p : pipeline) (kw : alist) (f : pfunc) : option str :=
  match eval_args body pick p kw f with Ok a => Some (Sym.app (fname f) a) | Err _ => None end.

(* exactly the needed functions, each once (with the arguments of the evaluation) *)
Definition once_ok (p : pipeline) (kw : alist) (o : str) (lg : list str) : bool :=
  match optM (call_string p kw) (needed_top p kw o) with
  | None => false
  | Some expected => nodup_strb lg && seteq_str lg expected
  end.

(* the value(s) the eager pipeline returns: eval for the requested output; for full_output every supplied
   keyword as supplied and every output of a needed function as computed *)
Definition value_ok (p : pipeline) (kw : alist) (o : str) (full : bool) (x : sx) : bool :=
  match un_ok x with
  | None => false
  | Some r =>
      if full then
        match un_alist r with
        | None => false
        | Some d =>
            forallb (fun kv => match aget d (fst kv) with Some v => str_eqb v (snd kv) | None => false end) kw
            && forallb (fun f => forallb (fun n => ahas kw n
                                                   || match aget d n, eval_top body pick p kw n with
                                                      | Some v, Ok v' => str_eqb v v'
                                                      | _, _ => false
                                                      end) (outs f)) (needed_top p kw o)
        end
      else match r, eval_top body pick p kw o with SS v, Ok v' => str_eqb v v' | _, _ => false end
  end.

(* the recorded task graph: node labels (function name / pick:<output>) and edges between node numbers *)
Definition pick_label (n : str) : str := s "pick:" ++ n.
Definition dag_ok (p : pipeline) (kw : alist) (o : str) (x : sx) : bool :=
  match x with
  | SL [SL labs; SL es] =>
      match optM un_str labs, optM (fun e => match e with SL [SI a; SI b] => Some (Z.to_nat a, Z.to_nat b) | _ => None end) es with
      | Some labels, Some edges =>
          let lab i := nth i labels [] in
          let ledges := map (fun e => (lab (fst e), lab (snd e))) edges in
          let has a b := existsb (fun e => str_eqb (fst e) a && str_eqb (snd e) b) ledges in
          let fs := needed_top p kw o in
          (* acyclic *)
          acyclicb {| nodes := dedup (map fst ledges ++ map snd ledges); edges := ledges |}
          && nodup_strb labels
          && forallb (fun e => (fst e <? length labels) && (snd e <? length labels)) edges
          (* every producer-consumer dependency of the evaluation is an edge (through the picker of a tuple output) *)
          && forallb (fun f => forallb (fun cur => match source_of p kw f cur with
                                                   | SUp g => if multi g
                                                              then has (fname g) (pick_label cur) && has (pick_label cur) (fname f)
                                                              else has (fname g) (fname f)
                                                   | _ => true
                                                   end) (pnames f)) fs
          (* and every edge is such a dependency (or feeds the picker of an output of a needed tuple function) *)
          && forallb (fun e =>
                        existsb (fun f => existsb (fun cur => match source_of p kw f cur with
                                                              | SUp g => if multi g
                                                                         then str_eqb (fst e) (pick_label cur) && str_eqb (snd e) (fname f)
                                                                         else str_eqb (fst e) (fname g) && str_eqb (snd e) (fname f)
                                                              | _ => false
                                                              end) (pnames f)) fs
                        || existsb (fun g => multi g && str_eqb (fst e) (fname g)
                                             && existsb (fun n => str_eqb (snd e) (pick_label n)) (outs g)) fs) ledges
      | _, _ => false
      end
  | _ => false
  end.

Definition lazy_ok (p : pipeline) (o : str) (kw : alist) (full dag : bool) (obs : sx) : bool :=
  match obs with
  | SL [SS _; lg0; v1; lg1; v2; lg2; g] =>
      match un_strs lg0, un_strs lg1, un_strs lg2 with
      | Some l0, Some l1, Some l2 =>
          match l0 with [] => true | _ => false end             (* nothing before evaluate() *)
          && value_ok p kw o full v1 && value_ok p kw o full v2  (* evaluate() = eager result, also the 2nd time *)
          && once_ok p kw o l1                                   (* each needed function exactly once ... *)
          && list_eqb str_eqb l1 l2                              (* ... however often evaluate() is called *)
          && (if dag then dag_ok p kw o g else true)
      | _, _, _ => false
      end
  | _ => false
  end.

(* ---- sequences of requests ----
   per request: a request with a missing argument is rejected; a request all of whose keywords are read is
   accepted and its deferred object evaluates to the eager result (for full_output: every supplied keyword and
   every output of a needed function); nothing is invoked except by evaluate(); every call that happens belongs to
   the evaluation of some accepted request, the calls of every accepted request all happen, and no call happens
   more often than there are accepted requests that need it; the task graph is acyclic and has a node for every
   needed function of every accepted request. *)
Definition req_expected (p : pipeline) (r : request) : option (list str) :=
  let '(o, kw, _, _) := r in optM (call_string p kw) (needed_top p kw o).

Definition req_status_ok (p : pipeline) (r : request) (st : sx) (v : sx) : bool :=
  let '(o, kw, full, _) := r in
  if ahas kw o || negb (is_output p o) then true
  else match eval_top body pick p kw o with
       | Err _ => sx_is_err st
       | Ok _ =>
           if sx_is_err st then negb (subset_str (akeys kw) (kw_names_read p kw o))
           else value_ok p kw o full v
       end.

Fixpoint zip3_forall {A B C} (f : A -> B -> C -> bool) (a : list A) (b : list B) (c : list C) : bool :=
  match a, b, c with
  | [], [], [] => true
  | x :: a', y :: b', z :: c' => f x y z && zip3_forall f a' b' c'
  | _, _, _ => false
  end.

Definition count_str (x : str) (l : list str) : nat := length (filter (str_eqb x) l).
Fixpoint unary (n : nat) : str := match n with O => [] | S k => "1"%char :: unary k end.

(* ---- keyword values that are deferred results of earlier requests ----
   the specification substitutes the VALUE the earlier request evaluates to (eval_top of that request); a request
   that was rejected or returned a full_output dict is referenced as the string "none" (harness convention).
   Evaluating a request also evaluates the requests it references, so their calls are expected with it. *)
Fixpoint sval (vals : list (option str)) (v : kwval) : str :=
  match v with
  | KStr x => x
  | KRes j => match nth j vals None with Some x => x | None => s "none" end
  | KList _ l => s "[" ++ Sym.commas (map (sval vals) l) ++ s "]"
  end.
Fixpoint kv_refs (v : kwval) : list nat :=
  match v with KStr _ => [] | KRes j => [j] | KList _ l => flat_map kv_refs l end.

(* concrete requests (with their transitive expected calls), built from the statuses of the observation *)
Fixpoint concretize (p : pipeline) (rs : list request_t) (sts : list sx) (vals : list (option str))
                    (exps : list (list str)) : list (request * list str) :=
  match rs, sts with
  | (o, kwt, full, now) :: t, st :: sts' =>
      let kw := map (fun kv => (fst kv, sval vals (snd kv))) kwt in
      let own := match optM (call_string p kw) (needed_top p kw o) with Some l => l | None => [] end in
      let refd := flat_map (fun j => match nth j vals None with Some _ => nth j exps [] | None => [] end)
                           (flat_map (fun kv => kv_refs (snd kv)) kwt) in
      let v := if sx_is_err st || full then None
               else match eval_top body pick p kw o with Ok x => Some x | Err _ => None end in
      ((o, kw, full, now), own ++ refd) :: concretize p t sts' (vals ++ [v]) (exps ++ [own ++ refd])
  | _, _ => []
  end.

Definition sx_nats (x : sx) : option (list nat) :=
  match x with SL l => optM (fun e => match e with SI a => Some (Z.to_nat a) | _ => None end) l | _ => None end.

Definition seq_ok (p : pipeline) (dag : bool) (rst : list request_t) (obs : sx) : bool :=
  match obs with
  | SL [SL sts; lg0; SL vals; lg1; g] =>
      match un_strs lg0, un_strs lg1 with
      | Some l0, Some l1 =>
          let crs := concretize p rst sts [] [] in
          let rs := map fst crs in
          let acc := filter (fun x => negb (sx_is_err (snd x))) (combine crs sts) in
          let accepted := map (fun x => fst (fst x)) acc in
          let exp_all := map (fun x => snd (fst x)) acc in
          let exp_now := map (fun x => snd (fst x)) (filter (fun x => snd (fst (fst x))) acc) in
          (* a request that is rejected only after its nodes were built (surplus keyword) may leave cached nodes
             behind that a later request legitimately reuses: its calls count as possible, not as required *)
          let exp_may := map snd crs in
          (length crs =? length rst)
          && zip3_forall (req_status_ok p) rs sts vals
          && forallb (fun c => existsb (mem_str c) exp_now) l0          (* nothing before an evaluate() *)
          && forallb (fun c => existsb (mem_str c) exp_may) l1
          && forallb (fun e => subset_str e l1) exp_all
          && forallb (fun c => count_str c l1 <=? length (filter (mem_str c) exp_may)) l1
          && (if dag then
                match g with
                | SL [SL labs; SL es; SL _; SL dall] =>
                    match optM un_str labs,
                          optM (fun e => match e with SL [SI a; SI b] => Some (Z.to_nat a, Z.to_nat b) | _ => None end) es,
                          optM sx_nats dall with
                    | Some labels, Some edges, Some deps =>
                        acyclicb {| nodes := map unary (seq 0 (length labels));
                                    edges := map (fun e => (unary (fst e), unary (snd e))) edges |}
                        && forallb (fun e => (fst e <? length labels) && (snd e <? length labels)) edges
                        && forallb (fun r => let '(o, kw, _, _) := r in
                                             forallb (fun f => mem_str (fname f) labels) (needed_top p kw o)) accepted
                        (* an edge for exactly each producer-consumer dependency of the evaluation: node i depends
                           on every deferred object that evaluating it evaluates (any container depth) *)
                        && (length deps =? length labels)
                        && forallb (fun e => existsb (Nat.eqb (fst e)) (nth (snd e) deps [])) edges
                        && forallb (fun id => forallb (fun d => existsb (fun e => (fst e =? d) && (snd e =? id)) edges)
                                                      (nth id deps []))
                                   (seq 0 (length labels))
                    | _, _, _ => false
                    end
                | _ => false
                end
              else true)
      | _, _ => false
      end
  | _ => false
  end.


(* every block: the recorded graph is acyclic, every edge ends in a node created in the block and is a dependency of
   that node (a deferred object that evaluating it evaluates - also one created in an earlier phase), and every
   dependency of every node created in the block is an edge *)
Definition blocks_ok (g : sx) : bool :=
  match g with
  | SL [SL labs; SL blocks; SL dall] =>
      match optM sx_nats dall with
      | Some deps =>
          (length deps =? length labs)
          && forallb (fun b =>
               match b with
               | SL [SI lo; SI hi; SL es] =>
                   match optM (fun e => match e with SL [SI a; SI b] => Some (Z.to_nat a, Z.to_nat b) | _ => None end) es with
                   | Some edges =>
                       let lo := Z.to_nat lo in
                       let hi := Z.to_nat hi in
                       acyclicb {| nodes := map unary (seq 0 (length labs));
                                   edges := map (fun e => (unary (fst e), unary (snd e))) edges |}
                       && (hi <=? length labs)
                       && forallb (fun e => (fst e <? length labs) && (lo <=? snd e) && (snd e <? hi)
                                            && existsb (Nat.eqb (fst e)) (nth (snd e) deps [])) edges
                       && forallb (fun id => forallb (fun d => existsb (fun e => (fst e =? d) && (snd e =? id)) edges)
                                                     (nth id deps []))
                                  (seq lo (hi - lo))
                   | None => false
                   end
               | _ => false
               end) blocks
      | None => false
      end
  | _ => false
  end.

Definition spec_ok (c : case) (obs : sx) : bool :=
  match c with
  | CSeq p dag rs => if wf_pipelineb p then seq_ok p dag rs obs else true
  | CBlocks p phs =>
      if wf_pipelineb p then
        match obs with
        | SL [sts; lg0; vals; lg1; g] =>
            seq_ok p false (flat_map snd phs) (SL [sts; lg0; vals; lg1; SNone]) && blocks_ok g
        | _ => false
        end
      else true
  | CLazy p o kw full dag =>
      if negb (wf_pipelineb p) then true
      else if ahas kw o || negb (is_output p o) then true
      else match eval_top body pick p kw o with
           | Err _ => sx_is_err (match obs with SL [e] => e | _ => obs end)
           | Ok _ =>
               let ks := akeys kw in
               let rejected := match obs with SL [e] => sx_is_err e | _ => false end in
               if negb (subset_str ks (param_names_needed p kw o)) then rejected
               else if subset_str ks (kw_names_read p kw o) then lazy_ok p o kw full dag obs
               else rejected || lazy_ok p o kw full dag obs
           end
  end.
