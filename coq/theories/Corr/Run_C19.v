(* C19 correspondence: a map request + load_intermediate flag, the model's observation of the two xarray
   datasets, and the executable statement of the property.
   Observation (both sides):
     ok [ [valid?; known-finding region?] ; identical? ; same? ; vars ; coords ; sels ]   |   err class
     vars   = [[name; dims; value] ...]        data variables, sorted by name
     coords = [[name; dims; value] ...]        coordinates, sorted by name (a zipped coordinate's values
                                               are the tuples "[a,b]" of its sources' values)
     sels   = [[var; coord; outcomes] ...]     for every 1-D coordinate of every data variable: per
                                               coordinate value, did `ds[var].sel({coord: value})` return
                                               the slice at that value's position, or "err:<class>"
   kind 0 ("label"): everything, `sels` for single-source coordinates;
   kind 1 ("zsel") : only `sels`, for zipped (multi-source) coordinates.

   A case is either an explicit request (c_order = []: every MapSpec written out) or a USER-LEVEL list
   (c_order = the order in which the functions are handed to Pipeline([...]); producers of arrays may
   have no MapSpec): `resolve` constructs the pipeline with Model/AutoGen.construct and everything
   below works on the resolved request `req` (the effective function list, in c_funcs' topological order). *)
From Verif Require Export Base.Prelude Base.StrUtil Base.Index Base.NdArr Model.MapSpec Model.MapSpecSpec
  Model.MapRun Model.MapDenote Model.SymBody Model.XrLabel Model.XrLabelSpec.
From Verif Require Model.AutoGen.

Record case := { c_funcs : list mfunc; c_inputs : env; c_internal : shape_dict; c_li : bool; c_kind : nat;
                 c_order : list nat }.

(* a resolved request: the effective function list *)
Record req := { q_funcs : list mfunc; q_inputs : env; q_internal : shape_dict; q_li : bool; q_kind : nat }.

Definition permuted (fs : list mfunc) (order : list nat) : list mfunc :=
  flat_map (fun i => match nth_error fs i with Some f => [f] | None => [] end) order.
(* the functions of `fs` (run order) with the MapSpecs that `effp` (construction order) carries, by name *)
Definition respec (fs effp : list mfunc) : list mfunc :=
  map (fun f => match find (fun g => str_eqb (fname g) (fname f)) effp with
                | Some g => AutoGen.set_spec f (fspec g)
                | None => f end) fs.

Definition resolve (c : case) : result req :=
  do fs <- match c_order c with
           | [] => Ok (c_funcs c)
           | order => do effp <- AutoGen.construct (permuted (c_funcs c) order); Ok (respec (c_funcs c) effp)
           end;
  Ok {| q_funcs := fs; q_inputs := c_inputs c; q_internal := c_internal c; q_li := c_li c; q_kind := c_kind c |}.

Definition sx_val (v : val) : sx :=
  match v with
  | VS x => SL [SS (s "val"); SS x]
  | VA a => SL [SS (s "arr"); SL (map SN (shp a)); SL (map SS (dat a))]
  end.

Definition specs_of (q : req) : list mapspec :=
  flat_map (fun f => match fspec f with Some m => [m] | None => [] end) (q_funcs q).
Definition input_names (q : req) : list str := map fst (q_inputs q).
Definition all_outputs (q : req) : list str := flat_map fouts (q_funcs q).
Definition output_names (q : req) : list str := sort_str (all_outputs q).   (* sorted(results.keys()) *)

(* ---------- typed observation and its rendering ---------- *)
Definition entry := (str * (list str * sx))%type.          (* name, dims, value *)
Definition selent := (str * str * list sx)%type.           (* variable, coordinate, outcomes *)
Record dsobs := { o_same : bool; o_vars : list entry; o_coords : list entry; o_sels : list selent }.

Definition render_entry (e : entry) : sx := SL [SS (fst e); SL (map SS (fst (snd e))); snd (snd e)].
Definition render_sel (e : selent) : sx := SL [SS (fst (fst e)); SS (snd (fst e)); SL (snd e)].
Definition render (v : sx) (d : dsobs) : sx :=
  SL [SS (s "ok"); v; SB (o_same d); SB (o_same d);
      SL (map render_entry (o_vars d)); SL (map render_entry (o_coords d)); SL (map render_sel (o_sels d))].

Fixpoint omapM {A B} (f : A -> option B) (l : list A) : option (list B) :=
  match l with
  | [] => Some []
  | x :: t => match f x, omapM f t with Some y, Some ys => Some (y :: ys) | _, _ => None end
  end.
Definition sx_str (x : sx) : option str := match x with SS t => Some t | _ => None end.
Definition sx_strs (x : sx) : option (list str) := match x with SL l => omapM sx_str l | _ => None end.
Definition parse_entry (x : sx) : option entry :=
  match x with
  | SL [SS n; d; v] => option_map (fun ds => (n, (ds, v))) (sx_strs d)
  | _ => None
  end.
Definition parse_sel (x : sx) : option selent :=
  match x with
  | SL [SS v; SS cn; SL l] => Some (v, cn, l)
  | _ => None
  end.

(* ---------- values shown by the datasets ---------- *)
Definition tuple_str (l : list str) : str := s "[" ++ join (s ",") l ++ s "]".

(* values of a coordinate built from `arrs` (one array per source) *)
Definition coord_value (arrs : list val) : result sx :=
  match arrs with
  | [v] => Ok (sx_val v)
  | _ =>
      do cols <- mapM (fun v => match v with
                                | VA a => match shp a with [_] => Ok (dat a) | _ => Err ValueError end
                                | VS _ => Err TypeError end) arrs;
      let n := match cols with c0 :: _ => length c0 | [] => 0 end in
      if negb (forallb (fun col => length col =? n) cols) then Err ValueError else
      Ok (SL [SS (s "arr"); SL [SN n];
              SL (map (fun m => SS (tuple_str (map (fun col => nth m col []) cols))) (seq 0 n))])
  end.

Definition source_value (q : req) (outv : str -> option val) (n : str) : result val :=
  match dict_get (q_inputs q) n with
  | Some v => Ok v
  | None => match outv n with Some v => Ok v | None => Err KeyError end
  end.

Definition render_coord (q : req) (outv : str -> option val) (co : coord) : result entry :=
  do arrs <- mapM (source_value q outv) (co_srcs co);
  do v <- coord_value arrs;
  Ok (co_name co, (co_axes co, v)).

(* sort entries by name *)
Definition sort_by_name {A} (name : A -> str) (l : list A) : list A :=
  flat_map (fun n => filter (fun x => str_eqb (name x) n) l) (dedup_first (sort_str (map name l))).

(* outcomes of selecting by each value of a 1-D coordinate (library behaviour of the installed
   xarray/pandas, recorded as an assumption): a coordinate holding plain labels is looked up by value
   (first occurrence); a coordinate holding tuples (zipped inputs) cannot be indexed: AssertionError *)
Definition sel_outcomes (co : coord) (labels : list str) : list sx :=
  match co_srcs co with
  | [_] => map (fun m => SB (match pos_of (nth m labels []) labels with Some p => p =? m | None => false end))
               (seq 0 (length labels))
  | _ => repeat (SS (s "err:AssertionError")) (length labels)
  end.

Definition labels_of (q : req) (outv : str -> option val) (co : coord) : result (list str) :=
  do arrs <- mapM (source_value q outv) (co_srcs co);
  match arrs with
  | VA a :: _ => Ok (dat a)
  | _ => Err TypeError
  end.

Definition subset_str (a b : list str) : bool := forallb (fun x => mem_str x b) a.

Definition sel_wanted (kind : nat) (co : coord) : bool :=
  match co_axes co with
  | [_] => if kind =? 0 then length (co_srcs co) =? 1 else 1 <? length (co_srcs co)
  | _ => false
  end.

Definition render_sels (q : req) (outv : str -> option val) (vars : list (str * list str)) (cs : list coord)
  : result (list selent) :=
  do l <- mapM (fun v =>
          mapM (fun co => do lab <- labels_of q outv co;
                          Ok (fst v, co_name co, sel_outcomes co lab))
               (filter (fun co => sel_wanted (q_kind q) co && subset_str (co_axes co) (snd v))
                       (sort_by_name co_name cs)))
       (sort_by_name fst vars);
  Ok (concat l).

(* ---------- validity of a request (the domain the property quantifies over) ---------- *)
Definition value_in (q : req) (den : den_state) (n : str) : option val :=
  match dict_get (q_inputs q) n with
  | Some v => Some v
  | None => dict_get (d_out den) n
  end.

(* (axis name, size) for every named position of every array occurrence in the MapSpecs *)
Definition axis_sizes (q : req) (den : den_state) : list (str * nat) :=
  flat_map (fun a => match value_in q den (aname a) with
                     | Some (VA arr) => flat_map (fun xd => match fst xd with Some x => [(x, snd xd)] | None => [] end)
                                                 (combine (axes a) (shp arr))
                     | _ => [] end) (all_aspecs (specs_of q)).
Definition sizes_conflict (l : list (str * nat)) : bool :=
  existsb (fun p => existsb (fun r => str_eqb (fst p) (fst r) && negb (snd p =? snd r)) l) l.

(* Besides C01's validity (request_ok, defined denotation) and the property's "distinct values", `valid`
   spells out facts that a constructed Pipeline and a defined denotation imply (kept as executable clauses
   so that every generated case is checked against them, and no proof has to dig them out of the run):
   consistent axes and a topological order (Pipeline construction), every array of a MapSpec is an input
   or an output, the denotation names exactly the outputs, actual rank = declared rank, outputs without
   MapSpec are not indexed by any MapSpec, names contain no ':', loaded intermediate coordinates have
   distinct values. *)
Definition valid_req (q : req) : bool :=
  request_ok (q_funcs q) (q_inputs q)
  && match denote_run sym_body (q_funcs q) (q_inputs q) (q_internal q) with
     | Err _ => false
     | Ok den =>
         list_eqb str_eqb (map fst (d_out den)) (all_outputs q)
         && forallb (fun kv => match snd kv with VA arr => nd_wf arr | VS _ => true end) (d_out den)
         && forallb (fun a => match value_in q den (aname a) with
                              | Some (VA arr) => length (shp arr) =? rank a
                              | _ => false end) (all_aspecs (specs_of q))
         && forallb (fun kv => match snd kv with
                               | VA arr => negb (length (shp arr) =? 1)
                                           || match computed_by (specs_of q) (fst kv) with Some _ => true | None => false end
                                           || nodup_str (dat arr)
                               | VS _ => true end) (d_out den)
     end
  && consistent (all_aspecs (specs_of q))
  && topo_specs (specs_of q)
  && forallb (fun f => match fspec f with
                       | None => forallb (fun o => negb (mem_str o (map aname (all_aspecs (specs_of q))))) (fouts f)
                       | Some _ => true end) (q_funcs q)
  && forallb (fun n => negb (mem_char ":"%char n)) (all_outputs q ++ input_names q)
  && forallb (fun kv => match snd kv with VA a => nodup_str (dat a) | VS _ => true end) (q_inputs q)
  && (q_kind q <? 2).

Definition valid (c : case) : bool :=
  match resolve c with Ok q => valid_req q | Err _ => false end.

(* ---------- the model's observation ---------- *)
Definition val_eqb (a b : val) : bool := sx_eqb (sx_val a) (sx_val b).

(* Library behaviour recorded as assumptions (observed, not modelled in Model/XrLabel.v):
   - xr.merge aligns its arguments: a dimension name with two different sizes raises AlignmentError;
   - `ds[name] = array` for a bare ndarray: rank 0 is a dimensionless variable, rank 1 becomes an index
     coordinate on a new dimension called `name`, rank >= 2 raises MissingDimensionsError. *)
Definition outv_of (ro : list (str * val * val)) (n : str) : option val :=
  option_map (fun x => snd (fst x)) (find (fun x => str_eqb (fst (fst x)) n) ro).

Definition plain_rank (outv : str -> option val) (n : str) : nat :=
  match outv n with Some (VA a) => length (shp a) | _ => 0 end.

Definition merged_sizes (outv : str -> option val) (labelled : list (str * list str)) : list (str * nat) :=
  flat_map (fun v => match outv (fst v) with
                     | Some (VA a) => combine (snd v) (shp a)
                     | _ => [] end) labelled.

Definition ds_obs (q : req) (outv : str -> option val) (same : bool) (ds : dataset) : result dsobs :=
  let labelled := map (fun a => (da_name a, da_dims a)) (ds_arrays ds) in
  if sizes_conflict (merged_sizes outv labelled) then Err OtherError else
  if existsb (fun n => 1 <? plain_rank outv n) (ds_plain ds) then Err OtherError else
  let vars := labelled ++ map (fun n => (n, [])) (filter (fun n => plain_rank outv n =? 0) (ds_plain ds)) in
  let cs := ds_coords ds
            ++ map (fun n => {| co_name := n; co_axes := [n]; co_srcs := [n] |})
                   (filter (fun n => plain_rank outv n =? 1) (ds_plain ds)) in
  do vs <- mapM (fun v => match outv (fst v) with
                          | Some x => Ok (fst v, (snd v, sx_val x))
                          | None => Err KeyError end) (sort_by_name fst vars);
  do cos <- mapM (render_coord q outv) (sort_by_name co_name cs);
  do sels <- render_sels q outv vars cs;
  Ok {| o_same := same;
        o_vars := if q_kind q =? 0 then vs else [];
        o_coords := if q_kind q =? 0 then cos else [];
        o_sels := sels |}.

Definition model_obs (q : req) : result dsobs :=
  do st <- map_run sym_body (q_funcs q) (q_inputs q) (q_internal q);
  do ds <- dataset_vars (specs_of q) (input_names q) (output_names q) (q_li q);
  ds_obs q (outv_of (r_out st)) (forallb (fun x => val_eqb (snd (fst x)) (snd x)) (r_out st)) ds.

(* ---------- the regions of the known findings (decided on the request and its denotation) ---------- *)
(* some index name is used with two sizes (C19-axis-name-reused-with-different-sizes) *)
Definition region_conflict (q : req) : bool :=
  match denote_run sym_body (q_funcs q) (q_inputs q) (q_internal q) with
  | Ok den => sizes_conflict (axis_sizes q den)
  | Err _ => false
  end.
(* some output without MapSpec is an array of rank >= 2 (C19-unmapped-array-output-not-storable) *)
Definition region_plain (q : req) : bool :=
  match denote_run sym_body (q_funcs q) (q_inputs q) (q_internal q) with
  | Ok den => existsb (fun f => match fspec f with
                                | None => existsb (fun o => match dict_get (d_out den) o with
                                                            | Some (VA a) => 1 <? length (shp a)
                                                            | _ => false end) (fouts f)
                                | Some _ => false end) (q_funcs q)
  | Err _ => false
  end.
(* selection by the value of a zipped coordinate (C19-zipped-coordinate-not-selectable): a kind 1 case in
   which some data variable carries a zipped (multi-source) coordinate, i.e. a selection is attempted *)
Definition region_zsel (q : req) : bool :=
  if q_kind q =? 0 then false
  else match model_obs q with Ok d => negb (is_nil (o_sels d)) | Err _ => false end.
Definition region_req (q : req) : bool := region_conflict q || region_plain q || region_zsel q.


(* the second element of an "ok" observation: [the request is valid; it lies in a known-finding region]
   (the harness sends [true; "this observation is classified as a known finding"], so both the validity of
   every generated request and the coincidence of the regions with the harness' classification are part of
   the correspondence) *)
Definition run_req (q : req) : sx :=
  match model_obs q with
  | Ok d => render (SL [SB (valid_req q); SB (region_req q)]) d
  | Err e => SErr e
  end.

Definition run (c : case) : sx :=
  match resolve c with
  | Ok q => run_req q
  | Err e => SErr e
  end.

(* ---------- the executable statement ---------- *)
Definition all_true (l : list sx) : bool := forallb (fun x => sx_eqb x (SB true)) l.
Definition strs_eqb := list_eqb str_eqb.

Section Spec.
  Variable q : req.
  Variable den : den_state.                        (* the denotation of the request (C01) *)
  Variable vars coords : list entry.
  Variable sels : list selent.

  Let specs := specs_of q.
  Let fuel := S (length specs).

  (* "each MapSpec output is a variable whose dimensions are its MapSpec axes in order and whose values
     equal the map result; outputs without a MapSpec appear as dimensionless or plain array variables".
     A variable of the dataset is a data variable or a coordinate variable. *)
  Definition output_ok (f : mfunc) (o : str) : bool :=
    match dict_get (d_out den) o with
    | None => false
    | Some v =>
        let entry := match dict_get vars o with Some e => Some e | None => dict_get coords o end in
        match fspec f, entry with
        | Some _, Some (dims, x) =>
            match declared_axes specs o with
            | Some ax => strs_eqb dims ax && sx_eqb x (sx_val v)
            | None => false
            end
        | None, Some (dims, x) =>
            sx_eqb x (sx_val v)
            && match v with
               | VS _ => is_nil dims && match dict_get vars o with Some _ => true | None => false end
               | VA _ => true
               end
        | _, None => false
        end
    end.

  (* one-dimensional arrays: a root input by its actual shape, any other array by its declared rank *)
  Definition one_dim (n : str) : bool :=
    match dict_get (q_inputs q) n with
    | Some (VA a) => length (shp a) =? 1
    | Some (VS _) => false
    | None => match find (fun a => str_eqb (aname a) n) (all_aspecs specs) with
              | Some a => rank a =? 1
              | None => false end
    end.

  Definition value_of (n : str) : result val :=
    match dict_get (q_inputs q) n with
    | Some v => Ok v
    | None => match dict_get (d_out den) n with Some v => Ok v | None => Err KeyError end
    end.

  Definition comps (cn : str) : list str := split_char ":"%char cn.

  (* "each one-dimensional root input mapped along an axis appears as a coordinate on exactly that axis
     with the input's values (zipped inputs combined into one multi-index)" *)
  Definition roots_of (o k : str) : list str :=
    dedup (filter (fun n => one_dim n && mem_str n (input_names q)) (carried fuel specs o k)).
  Definition allowed_of (o k : str) : list str :=
    dedup (filter (fun n => one_dim n && (mem_str n (input_names q) || q_li q)) (carried fuel specs o k)).

  Definition axis_ok (o k : str) : bool :=
    let roots := roots_of o k in
    if is_nil roots then true else
    existsb (fun e =>
               let cmp := comps (fst e) in
               strs_eqb (fst (snd e)) [k] && subset_str roots cmp && subset_str cmp (allowed_of o k)
               && nodup_str cmp
               && match mapM value_of cmp with
                  | Ok arrs => match coord_value arrs with
                               | Ok x => sx_eqb (snd (snd e)) x
                               | Err _ => false end
                  | Err _ => false end) coords
    && forallb (fun e => negb (existsb (fun r => mem_str r (comps (fst e))) roots)
                         || strs_eqb (fst (snd e)) [k]) coords.

  (* "selecting by coordinate value returns the element computed from that input value" *)
  Definition sel_ok (o k : str) : bool :=
    match dict_get vars o with
    | None => true                       (* o is not a data variable (kind 1 does not list variables) *)
    | Some _ =>
        let roots := roots_of o k in
        if is_nil roots then true
        else if q_kind q =? 0 then
          match allowed_of o k with
          | [x] => existsb (fun e => str_eqb (fst (fst e)) o && str_eqb (snd (fst e)) x) sels
          | _ => true
          end
        else true
    end.
  Definition zsel_ok (o k : str) : bool :=
    let roots := roots_of o k in
    if length roots <? 2 then true
    else existsb (fun e => str_eqb (fst (fst e)) o && subset_str roots (comps (snd (fst e)))) sels.

  Definition mapped_outputs : list (str * list str) :=
    flat_map (fun f => match fspec f with
                       | Some ms => if is_nil (ins ms) then []
                                    else map (fun a => (aname a, indices a)) (outs ms)
                       | None => [] end) (q_funcs q).

  Definition spec_body : bool :=
    forallb (fun e => all_true (snd e)) sels
    && if q_kind q =? 0 then
         forallb (fun f => forallb (output_ok f) (fouts f)) (q_funcs q)
         && forallb (fun oa => forallb (fun k => axis_ok (fst oa) k && sel_ok (fst oa) k) (snd oa)) mapped_outputs
       else
         forallb (fun oa => forallb (zsel_ok (fst oa)) (snd oa)) mapped_outputs.
End Spec.

Definition spec_req (q : req) (o : sx) : bool :=
  if negb (valid_req q) then true else
  match denote_run sym_body (q_funcs q) (q_inputs q) (q_internal q) with
  | Err _ => true
  | Ok den =>
      match o with
      | SL [SS t; _; ident; same; SL vs; SL cs; SL ss] =>
          str_eqb t (s "ok") && sx_eqb ident (SB true) && sx_eqb same (SB true)
          && match omapM parse_entry vs, omapM parse_entry cs, omapM parse_sel ss with
             | Some vars, Some coords, Some sels => spec_body q den vars coords sels
             | _, _, _ => false
             end
      | _ => false
      end
  end.

Definition spec_ok (c : case) (o : sx) : bool :=
  match resolve c with
  | Ok q => spec_req q o
  | Err _ => true
  end.

Definition known_region (c : case) : bool :=
  match resolve c with
  | Ok q => region_req q
  | Err _ => false
  end.
