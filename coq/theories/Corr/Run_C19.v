(* C19 correspondence: a map request + load_intermediate flag, the model's observation of the two xarray
   datasets, and the executable statement of the property.
   Observation (both sides):
     ok [ valid? ; identical? ; same? ; vars ; coords ; sels ]   |   err class
     vars   = [[name; dims; value] ...]        data variables, sorted by name
     coords = [[name; dims; value] ...]        coordinates, sorted by name (a zipped coordinate's values
                                               are the tuples "[a,b]" of its sources' values)
     sels   = [[var; coord; outcomes] ...]     for every 1-D coordinate of every data variable: per
                                               coordinate value, did `ds[var].sel({coord: value})` return
                                               the slice at that value's position, or "err:<class>"
   kind 0 ("label"): everything, `sels` for single-source coordinates;
   kind 1 ("zsel") : only `sels`, for zipped (multi-source) coordinates. *)
From Verif Require Export Base.Prelude Base.StrUtil Base.Index Base.NdArr Model.MapSpec Model.MapSpecSpec
  Model.MapRun Model.MapDenote Model.SymBody Model.XrLabel Model.XrLabelSpec.

Record case := { c_funcs : list mfunc; c_inputs : env; c_internal : shape_dict; c_li : bool; c_kind : nat }.

Definition sx_val (v : val) : sx :=
  match v with
  | VS x => SL [SS (s "val"); SS x]
  | VA a => SL [SS (s "arr"); SL (map SN (shp a)); SL (map SS (dat a))]
  end.

Definition specs_of (c : case) : list mapspec :=
  flat_map (fun f => match fspec f with Some m => [m] | None => [] end) (c_funcs c).
Definition input_names (c : case) : list str := map fst (c_inputs c).
Definition output_names (c : case) : list str := sort_str (flat_map fouts (c_funcs c)).   (* sorted(results.keys()) *)

(* ---------- values shown by the datasets ---------- *)
Definition tuple_str (l : list str) : str := s "[" ++ join (s ",") l ++ s "]".

(* values of a coordinate built from `arrs` (one array per source) *)
Definition coord_value (arrs : list val) : result sx :=
  match arrs with
  | [v] => Ok (sx_val v)
  | _ =>
      do cols <- mapM (fun v => match v with
                                | VA a => match shp a with [_] => Ok (dat a) | _ => Err ValueError end
                                | VS _ => Err TypeError end) arrs;
      let n := match cols with c0 :: _ => length c0 | [] => 0 end in
      if negb (forallb (fun col => length col =? n) cols) then Err ValueError else
      Ok (SL [SS (s "arr"); SL [SN n];
              SL (map (fun m => SS (tuple_str (map (fun col => nth m col []) cols))) (seq 0 n))])
  end.

Definition source_value (c : case) (outv : str -> option val) (n : str) : result val :=
  match dict_get (c_inputs c) n with
  | Some v => Ok v
  | None => match outv n with Some v => Ok v | None => Err KeyError end
  end.

Definition render_coord (c : case) (outv : str -> option val) (co : coord) : result sx :=
  do arrs <- mapM (source_value c outv) (co_srcs co);
  do v <- coord_value arrs;
  Ok (SL [SS (co_name co); SL (map SS (co_axes co)); v]).

(* sort entries [name; ...] by name *)
Definition sort_by_name {A} (name : A -> str) (l : list A) : list A :=
  flat_map (fun n => filter (fun x => str_eqb (name x) n) l) (dedup_first (sort_str (map name l))).

(* outcomes of selecting by each value of a 1-D coordinate (library behaviour of the installed
   xarray/pandas, recorded as an assumption): a coordinate holding plain labels is looked up by value
   (first occurrence); a coordinate holding tuples (zipped inputs) cannot be indexed: AssertionError *)
Definition sel_outcomes (co : coord) (labels : list str) : list sx :=
  match co_srcs co with
  | [_] => map (fun m => SB (match pos_of (nth m labels []) labels with Some p => p =? m | None => false end))
               (seq 0 (length labels))
  | _ => repeat (SS (s "err:AssertionError")) (length labels)
  end.

Definition labels_of (c : case) (outv : str -> option val) (co : coord) : result (list str) :=
  do arrs <- mapM (source_value c outv) (co_srcs co);
  match arrs with
  | VA a :: _ => Ok (dat a)
  | _ => Err TypeError
  end.

Definition subset_str (a b : list str) : bool := forallb (fun x => mem_str x b) a.

Definition render_sels (c : case) (outv : str -> option val) (vars : list (str * list str)) (cs : list coord)
  : result (list sx) :=
  let wanted co := match co_axes co with
                   | [k] => if c_kind c =? 0 then length (co_srcs co) =? 1 else 1 <? length (co_srcs co)
                   | _ => false end in
  do l <- mapM (fun v =>
          mapM (fun co => do lab <- labels_of c outv co;
                          Ok (SL [SS (fst v); SS (co_name co); SL (sel_outcomes co lab)]))
               (filter (fun co => wanted co && subset_str (co_axes co) (snd v)) (sort_by_name co_name cs)))
       (sort_by_name fst vars);
  Ok (concat l).

(* ---------- validity of a case (the domain the property quantifies over) ---------- *)
(* a valid map request of C01 (well-formed, denotation defined), whose MapSpecs name the dimensions of
   every array consistently (validate_consistent_axes: enforced by Pipeline construction), with distinct
   values in every input array *)
Definition valid (c : case) : bool :=
  request_ok (c_funcs c) (c_inputs c)
  && is_ok (denote_run sym_body (c_funcs c) (c_inputs c) (c_internal c))
  && consistent (all_aspecs (specs_of c))
  && forallb (fun kv => match snd kv with VA a => nodup_str (dat a) | VS _ => true end) (c_inputs c)
  && (c_kind c <? 2).

(* ---------- the model's observation ---------- *)
Definition val_eqb (a b : val) : bool := sx_eqb (sx_val a) (sx_val b).

(* Library behaviour recorded as assumptions (observed, not modelled in Model/XrLabel.v):
   - xr.merge aligns its arguments: a dimension name with two different sizes raises AlignmentError;
   - `ds[name] = array` for a bare ndarray: rank 0 is a dimensionless variable, rank 1 becomes an index
     coordinate on a new dimension called `name`, rank >= 2 raises MissingDimensionsError. *)
Definition sizes_conflict (l : list (str * nat)) : bool :=
  existsb (fun p => existsb (fun q => str_eqb (fst p) (fst q) && negb (snd p =? snd q)) l) l.

Definition run (c : case) : sx :=
  match map_run sym_body (c_funcs c) (c_inputs c) (c_internal c) with
  | Err e => SErr e
  | Ok st =>
      let outv n := option_map (fun x => snd (fst x))
                      (find (fun x => str_eqb (fst (fst x)) n) (r_out st)) in
      let same := forallb (fun x => val_eqb (snd (fst x)) (snd x)) (r_out st) in
      match dataset_vars (specs_of c) (input_names c) (output_names c) (c_li c) with
      | Err e => SErr e
      | Ok ds =>
          let labelled := map (fun a => (da_name a, da_dims a)) (ds_arrays ds) in
          if sizes_conflict (flat_map (fun v => match outv (fst v) with
                                                | Some (VA a) => combine (snd v) (shp a)
                                                | _ => [] end) labelled)
          then SErr OtherError else
          let plain_rank n := match outv n with Some (VA a) => length (shp a) | _ => 0 end in
          if existsb (fun n => 1 <? plain_rank n) (ds_plain ds) then SErr OtherError else
          let vars := labelled ++ map (fun n => (n, [])) (filter (fun n => plain_rank n =? 0) (ds_plain ds)) in
          let cs := ds_coords ds
                    ++ map (fun n => {| co_name := n; co_axes := [n]; co_srcs := [n] |})
                           (filter (fun n => plain_rank n =? 1) (ds_plain ds)) in
          match mapM (fun v => match outv (fst v) with
                               | Some x => Ok (SL [SS (fst v); SL (map SS (snd v)); sx_val x])
                               | None => Err KeyError end) (sort_by_name fst vars),
                mapM (render_coord c outv) (sort_by_name co_name cs),
                render_sels c outv vars cs with
          | Ok vs, Ok cos, Ok sels =>
              SL [SS (s "ok"); SB (valid c); SB same; SB same;
                  SL (if c_kind c =? 0 then vs else []); SL (if c_kind c =? 0 then cos else []); SL sels]
          | Err e, _, _ => SErr e
          | _, Err e, _ => SErr e
          | _, _, Err e => SErr e
          end
      end
  end.

(* ---------- the executable statement ---------- *)
Fixpoint omapM {A B} (f : A -> option B) (l : list A) : option (list B) :=
  match l with
  | [] => Some []
  | x :: t => match f x, omapM f t with Some y, Some ys => Some (y :: ys) | _, _ => None end
  end.
Definition sx_str (x : sx) : option str := match x with SS t => Some t | _ => None end.
Definition sx_strs (x : sx) : option (list str) := match x with SL l => omapM sx_str l | _ => None end.
(* [name; dims; value] *)
Definition parse_entry (x : sx) : option (str * (list str * sx)) :=
  match x with
  | SL [SS n; d; v] => option_map (fun ds => (n, (ds, v))) (sx_strs d)
  | _ => None
  end.
(* [var; coord; outcomes] *)
Definition parse_sel (x : sx) : option (str * str * list sx) :=
  match x with
  | SL [SS v; SS cn; SL l] => Some (v, cn, l)
  | _ => None
  end.

Definition all_true (l : list sx) : bool := forallb (fun x => sx_eqb x (SB true)) l.
Definition strs_eqb := list_eqb str_eqb.

Section Spec.
  Variable c : case.
  Variable den : den_state.                        (* the denotation of the request (C01) *)
  Variable vars coords : list (str * (list str * sx)).
  Variable sels : list (str * str * list sx).

  Let specs := specs_of c.
  Let fuel := S (length specs).

  (* "each MapSpec output is a variable whose dimensions are its MapSpec axes in order and whose values
     equal the map result; outputs without a MapSpec appear as dimensionless or plain array variables".
     A variable of the dataset is a data variable or a coordinate variable. *)
  Definition output_ok (f : mfunc) (o : str) : bool :=
    match dict_get (d_out den) o with
    | None => false
    | Some v =>
        let entry := match dict_get vars o with Some e => Some e | None => dict_get coords o end in
        match fspec f, entry with
        | Some _, Some (dims, x) =>
            match declared_axes specs o with
            | Some ax => strs_eqb dims ax && sx_eqb x (sx_val v)
            | None => false
            end
        | None, Some (dims, x) =>
            sx_eqb x (sx_val v)
            && match v with
               | VS _ => is_nil dims && match dict_get vars o with Some _ => true | None => false end
               | VA _ => true
               end
        | _, None => false
        end
    end.

  (* one-dimensional arrays: a root input by its actual shape, any other array by its declared rank *)
  Definition one_dim (n : str) : bool :=
    match dict_get (c_inputs c) n with
    | Some (VA a) => length (shp a) =? 1
    | Some (VS _) => false
    | None => match find (fun a => str_eqb (aname a) n) (all_aspecs specs) with
              | Some a => rank a =? 1
              | None => false end
    end.

  Definition value_of (n : str) : result val :=
    match dict_get (c_inputs c) n with
    | Some v => Ok v
    | None => match dict_get (d_out den) n with Some v => Ok v | None => Err KeyError end
    end.

  Definition comps (cn : str) : list str := split_char ":"%char cn.

  (* "each one-dimensional root input mapped along an axis appears as a coordinate on exactly that axis
     with the input's values (zipped inputs combined into one multi-index)" *)
  Definition roots_of (o k : str) : list str :=
    dedup (filter (fun n => one_dim n && mem_str n (input_names c)) (carried fuel specs o k)).
  Definition allowed_of (o k : str) : list str :=
    dedup (filter (fun n => one_dim n && (mem_str n (input_names c) || c_li c)) (carried fuel specs o k)).

  Definition axis_ok (o k : str) : bool :=
    let roots := roots_of o k in
    if is_nil roots then true else
    existsb (fun e =>
               let cmp := comps (fst e) in
               strs_eqb (fst (snd e)) [k] && subset_str roots cmp && subset_str cmp (allowed_of o k)
               && nodup_str cmp
               && match mapM value_of cmp with
                  | Ok arrs => match coord_value arrs with
                               | Ok x => sx_eqb (snd (snd e)) x
                               | Err _ => false end
                  | Err _ => false end) coords
    && forallb (fun e => negb (existsb (fun r => mem_str r (comps (fst e))) roots)
                         || strs_eqb (fst (snd e)) [k]) coords.

  (* "selecting by coordinate value returns the element computed from that input value" *)
  Definition sel_ok (o k : str) : bool :=
    match dict_get vars o with
    | None => true                       (* o is not a data variable (kind 1 does not list variables) *)
    | Some _ =>
        let roots := roots_of o k in
        if is_nil roots then true
        else if c_kind c =? 0 then
          match allowed_of o k with
          | [x] => existsb (fun e => str_eqb (fst (fst e)) o && str_eqb (snd (fst e)) x) sels
          | _ => true
          end
        else true
    end.
  Definition zsel_ok (o k : str) : bool :=
    let roots := roots_of o k in
    if length roots <? 2 then true
    else existsb (fun e => str_eqb (fst (fst e)) o && subset_str roots (comps (snd (fst e)))) sels.

  Definition mapped_outputs : list (str * list str) :=
    flat_map (fun f => match fspec f with
                       | Some ms => if is_nil (ins ms) then []
                                    else map (fun a => (aname a, indices a)) (outs ms)
                       | None => [] end) (c_funcs c).

  Definition spec_body : bool :=
    forallb (fun e => all_true (snd e)) sels
    && if c_kind c =? 0 then
         forallb (fun f => forallb (output_ok f) (fouts f)) (c_funcs c)
         && forallb (fun oa => forallb (fun k => axis_ok (fst oa) k && sel_ok (fst oa) k) (snd oa)) mapped_outputs
       else
         forallb (fun oa => forallb (zsel_ok (fst oa)) (snd oa)) mapped_outputs.
End Spec.

Definition spec_ok (c : case) (o : sx) : bool :=
  if negb (valid c) then true else
  match denote_run sym_body (c_funcs c) (c_inputs c) (c_internal c) with
  | Err _ => true
  | Ok den =>
      match o with
      | SL [SS t; _; ident; same; SL vs; SL cs; SL ss] =>
          str_eqb t (s "ok") && sx_eqb ident (SB true) && sx_eqb same (SB true)
          && match omapM parse_entry vs, omapM parse_entry cs, omapM parse_sel ss with
             | Some vars, Some coords, Some sels => spec_body c den vars coords sels
             | _, _, _ => false
             end
      | _ => false
      end
  end.
