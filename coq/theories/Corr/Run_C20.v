(* C20 correspondence: case type, model run (as sx observation), executable statement spec_ok. *)
From Coq Require Import QArith Qreduction.
From Verif Require Import Base.Prelude Base.StrUtil Model.ResourcesSpec.
From Verif Require Export Model.Resources Model.ResourcesSeq.   (* constructors used by the generated case files *)
Local Close Scope Q_scope.

(* Operands are given as raw constructor arguments (a [res] record that has NOT been validated; its extra_args
   is the list of pairs handed to dict()); every case first constructs them with Resources(...). *)
Inductive case :=
| CNew (a : res)                               (* Resources( **a) *)
| CCombine (rs : list res)                     (* Resources.combine_max([..]) + operands afterwards *)
| CUpdate (r : res) (kw : udict)               (* r.update( **kw) + receiver afterwards + aliasing *)
| CWithDefaults (r : res) (d : option res)     (* r.with_defaults(d) *)
| CMaybe (r d : option res)                    (* Resources.maybe_with_defaults(r, d) *)
| CDict (r : res)                              (* r.dict(), Resources.from_dict(r.dict()), == r *)
| CFromDict (d : udict)                        (* Resources.from_dict(d) *)
| CSlurm (r : res)                             (* r.to_slurm_options() *)
| CMaybeMax (e : explicit) (ch : list (option res))   (* _maybe_max_resources(e, [f with f.resources = ch_i]) *)
| CSeq (base : list res) (ops : list rop).     (* operations on SHARED objects; every object re-observed after each *)

(* ---------- observation format (shared by model and statement; [size] is the respective size function) ---------- *)
Definition sx_oz (o : option Z) : sx := match o with Some z => SI z | None => SNone end.
Definition sx_os (o : option str) : sx := match o with Some x => SS x | None => SNone end.
Definition sx_q (q : Q) : sx := let r := Qred q in SL [SI (Qnum r); SI (Zpos (Qden r))].
Definition sx_size (size : str -> option Q) (o : option str) : sx :=
  match o with
  | None => SNone
  | Some m => match size m with Some q => sx_q q | None => SS (s "invalid") end
  end.
Definition sx_xval (v : xval) : sx := match v with XInt z => SI z | XStr x => SS x end.
Definition sx_xdict (d : xdict) : sx := SL (map (fun kv => SL [SS (fst kv); sx_xval (snd kv)]) d).
(* [raw] = also show the memory string itself (not for combine_max results: equal sizes written differently
   may be ordered either way by the floats of the implementation) *)
Definition sx_res_gen (size : str -> option Q) (raw : bool) (r : res) : sx :=
  SL [sx_oz (cpus r); sx_oz (cpus_per_node r); sx_oz (nodes r);
      (if raw then sx_os (memory r) else SNone); sx_size size (memory r);
      sx_oz (gpus r); sx_os (time r); sx_os (partition r); sx_xdict (extra_args r); SS (mode r)].
Definition sx_uval (v : uval) : sx :=
  match v with UNone => SNone | UInt z => SI z | UStr x => SS x | UDict d => sx_xdict d end.
Definition sx_udict (d : udict) : sx := SL (map (fun kv => SL [SS (fst kv); sx_uval (snd kv)]) d).
Definition bad_case (e : err) : sx := SL [SS (s "bad-case"); SErr e].
Definition sx_opt {A} (f : A -> sx) (o : option A) : sx := match o with Some a => f a | None => SNone end.

(* ---------- the model side ---------- *)
Definition sx_res := sx_res_gen mem_bytes true.
Definition sx_res_sz := sx_res_gen mem_bytes false.

(* Resources(cpus=.., .., extra_args=dict(pairs), parallelization_mode=..) *)
Definition mk (a : res) : result res := post_init (set_extra a (xd_of_list (extra_args a))).
Definition mk_opt (a : option res) : result (option res) :=
  match a with None => Ok None | Some x => do r <- mk x; Ok (Some r) end.

Definition sx_which (w : whichobj) : sx :=
  SS (match w with WNone => s "none" | WFirst => s "first" | WSecond => s "second" | WNew => s "new" end).

Definition mk_explicit (e : explicit) : result explicit :=
  match e with ERes a => do r <- mk a; Ok (ERes r) | _ => Ok e end.
Definition sx_mm_which (w : mm_which) : sx :=
  SS (match w with MNone => s "none" | MExplicit => s "explicit" | MChild => s "child" | MNew => s "new" end).

(* ---------- operation sequences on shared objects ---------- *)
(* what is observed of ONE object: its fields, sorted(vars(obj)), obj.update() with no arguments, to_slurm_options(),
   Resources.from_dict(obj.dict()) == obj *)
Definition snap_obj (r : res) : sx :=
  SL [sx_res r; SL (map SS var_keys); sx_of_result sx_res (fst (fst (update r [])));
      SS (to_slurm_options r);
      SB (match from_dict (to_dict r) with Ok x => res_eqb x r | Err _ => false end)].
Definition snapshot (h : heap) : sx := SL (map snap_obj h).
Definition sx_oval (v : oval) : sx :=
  match v with VDict d => sx_udict d | VStr x => SS x | VBool b => SB b end.
(* [n] = number of objects before the step: a new object gets id n *)
Definition sx_outcome (n : nat) (o : outcome) : sx :=
  match o with
  | ONew => SL [SS (s "ok"); SN n]
  | OExisting id => SL [SS (s "ok"); SN id]
  | OValue v => SL [SS (s "val"); sx_oval v]
  | ORaise e => SErr e
  | OBad => SS (s "bad-case")
  end.
Fixpoint run_ops (h : heap) (ops : list rop) : list sx :=
  match ops with
  | [] => []
  | o :: t => let (out, h') := step h o in SL [sx_outcome (length h) out; snapshot h'] :: run_ops h' t
  end.
Definition run_seq (base : list res) (ops : list rop) : sx :=
  match mapM mk base with
  | Err e => bad_case e
  | Ok h => SL (snapshot h :: run_ops h ops)
  end.

Definition run (c : case) : sx :=
  match c with
  | CNew a => sx_of_result sx_res (mk a)
  | CCombine rs =>
      match mapM mk rs with
      | Err e => bad_case e
      | Ok ops => let (x, ops') := combine_max ops in SL [sx_of_result sx_res_sz x; SL (map sx_res ops')]
      end
  | CUpdate a kw =>
      match mk a with
      | Err e => bad_case e
      | Ok r => let '(x, r', sh) := update r kw in SL [sx_of_result sx_res x; sx_res r'; SB sh]
      end
  | CWithDefaults a d =>
      match mk a, mk_opt d with
      | Ok r, Ok dr =>
          let '(x, r', d', same) := with_defaults r dr in
          SL [sx_of_result sx_res x; sx_res r'; sx_opt sx_res d'; SB same]
      | Err e, _ => bad_case e
      | _, Err e => bad_case e
      end
  | CMaybe a d =>
      match mk_opt a, mk_opt d with
      | Ok r, Ok dr =>
          let '(x, r', d', w) := maybe_with_defaults r dr in
          SL [sx_opt (sx_of_result sx_res) x; sx_opt sx_res r'; sx_opt sx_res d'; sx_which w]
      | Err e, _ => bad_case e
      | _, Err e => bad_case e
      end
  | CDict a =>
      match mk a with
      | Err e => bad_case e
      | Ok r =>
          let rt := from_dict (to_dict r) in
          SL [sx_udict (to_dict r); sx_of_result sx_res rt;
              SB (match rt with Ok x => res_eqb x r | Err _ => false end); sx_res r]
      end
  | CFromDict d => sx_of_result sx_res (from_dict d)
  | CSlurm a =>
      match mk a with
      | Err e => bad_case e
      | Ok r => SL [SS (to_slurm_options r); sx_res r]
      end
  | CMaybeMax e ch =>
      match mk_explicit e, mapM mk_opt ch with
      | Ok e', Ok ch' =>
          let '(x, ch'', w) := maybe_max_resources e' ch' in
          SL [sx_opt (sx_of_result sx_res_sz) x; SL (map (sx_opt sx_res) ch''); sx_mm_which w]
      | Err er, _ => bad_case er
      | _, Err er => bad_case er
      end
  | CSeq base ops => run_seq base ops
  end.

(* ---------- decoding of observations ---------- *)
Definition un_ok (o : sx) : option sx :=
  match o with SL [SS t; v] => if str_eqb t (s "ok") then Some v else None | _ => None end.
Definition is_none_sx (x : sx) : bool :=
  match x with SL [SS t] => str_eqb t (s "none") | _ => false end.
Definition un_oz (x : sx) : option (option Z) :=
  match x with SI z => Some (Some z) | _ => if is_none_sx x then Some None else None end.
Definition un_os (x : sx) : option (option str) :=
  match x with SS t => Some (Some t) | _ => if is_none_sx x then Some None else None end.
Definition un_q (x : sx) : option (option Q) :=
  match x with
  | SL [SI n; SI d] => if (0 <? d)%Z then Some (Some (Qmake n (Z.to_pos d))) else None
  | _ => if is_none_sx x then Some None else None
  end.

(* the quantities of an observed Resources object *)
Record oq := mkO { q_cpus : option Z; q_cpn : option Z; q_nodes : option Z; q_raw : option str;
                   q_mem : option Q; q_gpus : option Z; q_time : option str; q_part : option str }.
Definition un_obj (x : sx) : option oq :=
  match x with
  | SL [c; cn; n; raw; sz; g; t; p; _; _] =>
      match un_oz c, un_oz cn, un_oz n, un_os raw, un_q sz, un_oz g, un_os t, un_os p with
      | Some c', Some cn', Some n', Some raw', Some sz', Some g', Some t', Some p' =>
          Some (mkO c' cn' n' raw' sz' g' t' p')
      | _, _, _, _, _, _, _, _ => None
      end
  | _ => None
  end.

(* ---------- the executable statement ---------- *)
Definition sp_enc : res -> sx := sx_res_gen sp_mem_size true.

Fixpoint nodup_keys {V} (d : list (str * V)) : bool :=
  match d with [] => true | (k, _) :: t => negb (mem_str k (map fst t)) && nodup_keys t end.
(* the property speaks about valid Resources values; extra_args given as a proper dict *)
Definition operand_ok (a : res) : bool := sp_valid a && nodup_keys (extra_args a).
Definition operand_ok_opt (a : option res) : bool := match a with Some x => operand_ok x | None => true end.

Definition le_oz_b (a b : option Z) : bool :=
  match a with None => true | Some x => match b with Some y => (x <=? y)%Z | None => false end end.
Definition size_le_b (a : option str) (b : option Q) : bool :=
  match a with
  | None => true
  | Some m => match sp_mem_size m, b with Some q, Some q' => Qle_bool q q' | _, _ => false end
  end.
Definition dur_le_b (a b : option str) : bool :=
  match a with
  | None => true
  | Some t =>
      match sp_time_secs t, b with
      | Some n, Some t' => match sp_time_secs t' with Some n' => (n <=? n')%Z | None => false end
      | _, _ => false
      end
  end.
(* observed object [o] is at least as large as operand [r] in cpus, gpus, memory size, duration *)
Definition dominates_b (o : oq) (r : res) : bool :=
  le_oz_b (cpus r) (q_cpus o) && le_oz_b (gpus r) (q_gpus o)
  && size_le_b (memory r) (q_mem o) && dur_le_b (time r) (q_time o).

Definition size_eq_b (a : option str) (b : option Q) : bool :=
  match a, b with
  | None, None => true
  | Some m, Some q' => match sp_mem_size m with Some q => Qeq_bool q q' | None => false end
  | _, _ => false
  end.
(* observed object has exactly the quantities of [r] (memory compared by size) *)
Definition same_quantities_b (o : oq) (r : res) : bool :=
  opt_eqb Z.eqb (q_cpus o) (cpus r) && opt_eqb Z.eqb (q_cpn o) (cpus_per_node r)
  && opt_eqb Z.eqb (q_nodes o) (nodes r) && size_eq_b (memory r) (q_mem o)
  && opt_eqb Z.eqb (q_gpus o) (gpus r) && opt_eqb str_eqb (q_time o) (time r)
  && opt_eqb str_eqb (q_part o) (partition r).

Definition ok_with (o : sx) (p : oq -> bool) : bool :=
  match un_ok o with Some v => match un_obj v with Some q => p q | None => false end | None => false end.

(* r.with_defaults(d) for valid r, d *)
Definition with_defaults_ok (r d : res) (x : sx) : bool :=
  let m := filled r d in
  if sp_valid m then ok_with x (fun q => same_quantities_b q m) else sx_is_err x.

Definition res_of_oq (q : oq) : res :=
  mkR (q_cpus q) (q_cpn q) (q_nodes q) (q_raw q) (q_gpus q) (q_time q) (q_part q) [] [].

Fixpoint sp_assemble (d : udict) (r : res) : option res :=
  match d with
  | [] => Some r
  | (k, v) :: t =>
      match field_of_key k with
      | Some f => match set_field f v r with Some r' => sp_assemble t r' | None => None end
      | None => None
      end
  end.

(* ---------- operation sequences: every existing object looks and behaves the same after each step ---------- *)
(* an object that behaves like a value: update() with no arguments gives an equal object, the dict round trip holds *)
Definition self_ok (x : sx) : bool :=
  match x with
  | SL [f; _; u; SS _; e] => sx_eqb u (SL [SS (s "ok"); f]) && sx_eqb e (SB true)
  | _ => false
  end.
Definition snap_ok_for (r : res) (x : sx) : bool :=
  match x with SL (f :: _) => sx_eqb f (sp_enc r) && self_ok x | _ => false end.
Fixpoint forallb2' {A B} (p : A -> B -> bool) (a : list A) (b : list B) : bool :=
  match a, b with
  | [], [] => true
  | x :: a', y :: b' => p x y && forallb2' p a' b'
  | _, _ => false
  end.
(* must this operation, when it succeeds, return a NEW object? (with_defaults(None) returns self) *)
Definition must_be_new (o : rop) : bool :=
  match o with
  | OCreate _ | OUpdate _ _ | OCombine _ | OFromDict _ | OWithDefaults _ (Some _) => true
  | _ => false
  end.
Definition is_ok_id (st : sx) : option nat :=
  match st with
  | SL [SS t; SI z] => if str_eqb t (s "ok") && (0 <=? z)%Z then Some (Z.to_nat z) else None
  | _ => None
  end.
(* one step: the objects that existed before are observed exactly as before; at most one object is added, and only
   by an operation that returned it; the added object behaves like a value *)
Definition step_ok (o : rop) (prev : list sx) (st : sx) (cur : list sx) : bool :=
  list_eqb sx_eqb (firstn (length prev) cur) prev
  && match is_ok_id st with
     | Some id =>
         if (id =? length prev)%nat
         then match skipn (length prev) cur with [x] => self_ok x | _ => false end
         else negb (must_be_new o) && (id <? length prev)%nat && (length cur =? length prev)%nat
     | None => (length cur =? length prev)%nat
     end.
Fixpoint steps_ok (ops : list rop) (prev : list sx) (obs : list sx) : bool :=
  match ops, obs with
  | [], [] => true
  | o :: ops', SL [st; SL cur] :: obs' => step_ok o prev st cur && steps_ok ops' cur obs'
  | _, _ => false
  end.

Definition spec_ok (c : case) (o : sx) : bool :=
  match c with
  | CNew a =>
      (* exactly the valid argument combinations are accepted, and stored as given *)
      if negb (nodup_keys (extra_args a)) then true
      else if sp_valid a then sx_eqb o (SL [SS (s "ok"); sp_enc a]) else sx_is_err o
  | CCombine rs =>
      if negb (forallb operand_ok rs) then true
      else match o with
           | SL [x; SL after] =>
               ok_with x (fun q => forallb (dominates_b q) rs)
               && list_eqb sx_eqb after (map sp_enc rs)
           | _ => false
           end
  | CUpdate r kw =>
      if negb (operand_ok r) then true
      else match o with
           | SL [_; after; _] => sx_eqb after (sp_enc r)
           | _ => false
           end
  | CWithDefaults r d =>
      if negb (operand_ok r && operand_ok_opt d) then true
      else match o with
           | SL [x; after_r; after_d; _] =>
               sx_eqb after_r (sp_enc r) && sx_eqb after_d (sx_opt sp_enc d)
               && match d with
                  | None => sx_eqb x (SL [SS (s "ok"); sp_enc r])
                  | Some dr => with_defaults_ok r dr x
                  end
           | _ => false
           end
  | CMaybe r d =>
      if negb (operand_ok_opt r && operand_ok_opt d) then true
      else match o with
           | SL [x; after_r; after_d; _] =>
               sx_eqb after_r (sx_opt sp_enc r) && sx_eqb after_d (sx_opt sp_enc d)
               && match r, d with
                  | None, None => is_none_sx x
                  | None, Some dr => sx_eqb x (SL [SS (s "ok"); sp_enc dr])
                  | Some rr, None => sx_eqb x (SL [SS (s "ok"); sp_enc rr])
                  | Some rr, Some dr => with_defaults_ok rr dr x
                  end
           | _ => false
           end
  | CDict r =>
      if negb (operand_ok r) then true
      else match o with
           | SL [_; rt; eq; after] =>
               sx_eqb eq (SB true) && sx_eqb after (sp_enc r) && ok_with rt (fun q => same_quantities_b q r)
           | _ => false
           end
  | CFromDict d =>
      (* whatever is accepted is valid; a well-typed dict of known fields is accepted iff it is valid *)
      match un_ok o with
      | Some v => match un_obj v with Some q => sp_valid (res_of_oq q) | None => false end
      | None => sx_is_err o
      end
      && match sp_assemble d default_res with
         | Some a => if sp_valid a then ok_with o (fun q => same_quantities_b q a) else sx_is_err o
         | None => true
         end
  | CSlurm r =>
      if negb (operand_ok r) then true
      else match o with
           | SL [SS out; after] =>
               sx_eqb after (sp_enc r)
               && forallb (fun w => mem_str w (split_char " "%char out)) (quantity_words r)
           | _ => false
           end
  | CMaybeMax e ch =>
      (* without an explicit argument the result is at least as large as every child that has resources *)
      if negb (forallb operand_ok_opt ch && match e with ERes r => operand_ok r | _ => true end) then true
      else match o with
           | SL [x; SL after; _] =>
               list_eqb sx_eqb after (map (sx_opt sp_enc) ch)
               && match e with
                  | ENone =>
                      match somes ch with
                      | [] => is_none_sx x
                      | cs => ok_with x (fun q => forallb (dominates_b q) cs)
                      end
                  | ERes r => ok_with x (fun q => same_quantities_b q r)
                  | EDict _ => true
                  end
           | _ => false
           end
  | CSeq base ops =>
      if negb (forallb operand_ok base) then true
      else match o with
           | SL (SL snap0 :: steps) => forallb2' snap_ok_for base snap0 && steps_ok ops snap0 steps
           | _ => false
           end
  end.

(* the region of the known finding slurm-gpus-zero-omitted (see known_findings.jsonl) *)
Definition known_region (c : case) : bool :=
  match c with CSlurm r => opt_eqb Z.eqb (gpus r) (Some 0%Z) | _ => false end.
