(* C04: the declarative side conditions on a request under which the reload theorems are stated.
   request_ok (Model/MapDenote.v, shared with C01): unique output / input names, every MapSpec well-formed with
   outputs = the function's outputs.  In addition: names are usable as file names and dict keys (no "," and no "/",
   true of identifiers), arrays in MapSpecs have rank >= 1 (the notation cannot print rank 0), internal_shapes is a
   dict, storage-dict keys are names or non-empty tuples of names. *)
From Verif Require Import Base.Prelude Base.StrUtil Model.MapSpec Model.MapSpecSpec Model.MapRun Model.MapDenote
  Model.RunInfoCodec Model.FSStore Corr.Run_C04.

Definition name_ok (n : str) : bool := no_comma n && negb (mem_char "/"%char n).

Definition storage_keys_ok (st : storage_cfg) : bool :=
  match st with
  | StUni _ => true
  | StDict d => forallb (fun kv => match fst kv with
                                   | KName n => no_comma n
                                   | KTup l => negb (length l =? 0) && forallb no_comma l
                                   end) d
  end.

Definition valid_request (c : case) : bool :=
  request_ok (c_funcs c) (c_inputs c)
  && forallb name_ok (flat_map fouts (c_funcs c) ++ map fst (c_inputs c))
  && forallb (fun f => match fspec f with Some ms => printable ms | None => true end) (c_funcs c)
  && nodup_str (map fst (c_internal c))
  && storage_keys_ok (c_storage c).
