(* Generic evaluation of correspondence cases: for each (case, implementation observation) compute
   corr = (model run = implementation obs) and ok = spec_ok case impl_obs; print only bad indices. *)
From Coq Require Import DecimalString.
From Verif Require Import Base.Prelude.

Section Verdict.
  Context {C : Type}.
  Variable run : C -> sx.
  Variable spec_ok : C -> sx -> bool.

  Fixpoint bad_idx (i : nat) (l : list bool) : list nat :=
    match l with [] => [] | b :: t => if b then bad_idx (S i) t else i :: bad_idx (S i) t end.

  Definition summary (cases : list (C * sx)) : nat * list nat * list nat * list nat :=
    (length cases,
     bad_idx 0 (map (fun co => sx_eqb (run (fst co)) (snd co)) cases),
     bad_idx 0 (map (fun co => spec_ok (fst co) (snd co)) cases),
     bad_idx 0 (map (fun co => spec_ok (fst co) (run (fst co))) cases)).
End Verdict.

(* Rendering of an sx as one flat string (ints decimal, strings hex-encoded) for diagnostics/replays. *)
Definition hex_digit (n : nat) : ascii :=
  ascii_of_nat (if n <? 10 then 48 + n else 87 + n).
Definition hex_of_str (x : str) : string :=
  string_of_list_ascii (flat_map (fun c => let n := nat_of_ascii c in [hex_digit (n / 16); hex_digit (n mod 16)]) x).
Fixpoint sx_show (x : sx) : string :=
  match x with
  | SI z => ("(I " ++ NilZero.string_of_int (Z.to_int z) ++ ")")%string
  | SS t => ("(S x" ++ hex_of_str t ++ ")")%string
  | SL l => ("(L" ++ fold_right (fun y acc => " " ++ sx_show y ++ acc) ")" l)%string
  end.
