(* Model/Alias.v - module Alias: a small heap model of the Python objects behind a Pipeline, for the aliasing
   clause of C10 ("operations that return a new pipeline leave the original unchanged, and a later mutation of
   either object does not affect the other").

   Every PipeFunc object holds LOCATIONS of its `_renames`, `_defaults`, `_bound` dicts and of its MapSpec; a
   Pipeline object holds the locations of its PipeFunc objects; a NestedPipeFunc additionally the location of its
   inner Pipeline.  The operations share or allocate locations exactly as the code does (repaired code):
     PipeFunc.__init__      `self._renames = renames or {}`  : the caller's dict object is kept unless it is empty
     PipeFunc.copy          passes the same three dict objects and the same MapSpec on (so copies SHARE them)
     NestedPipeFunc.copy    copies the inner functions twice (list comprehension + Pipeline.add), shares `_renames`
                            (`or {}`), allocates `_defaults` / `_bound` (`dict.copy()`)
     Pipeline.add           appends a copy to the pipeline's own list (in place);  Pipeline.copy / join / split /
                            simplified_pipeline build new Pipeline objects out of copies
     __setstate__ (pickle)  everything fresh
     update_defaults / update_bound / update_renames / update_scope : REBIND the attribute to a newly built dict
                            (`dict(old, **new)`, `new.copy()`, comprehension) - no dict is written in place
     add_mapspec_axis / update_renames : rebind `mapspec` to a new MapSpec object
     drop / nest_funcs      write the pipeline's own function list
   Validation is not modelled here (Model/Rewrite.v does that on the immutable view); `reify` maps a heap pipeline
   to that view.  The only in-place dict write in pipefunc, `_pydantic_defaults`, concerns pydantic models and is
   outside the model (structural user functions).  Definitions only; proofs are in Proofs/AliasFacts.v. *)
From Verif Require Import Base.Prelude Base.StrOrd Base.StrUtil Base.Graph Model.Pipe Model.Rewrite.

Module Alias.

Definition loc := nat.
(* the immutable part of a PipeFunc: the callable's name, `_output_name`, the original parameter names and
   signature defaults, the cache flag *)
Record fsig := { g_name : str; g_outs : list str; g_params : list str; g_sigd : alist; g_cached : bool }.
Record fobj := { o_sig : fsig; o_ren : loc; o_dfl : loc; o_bnd : loc; o_ms : loc; o_inner : option loc }.
Inductive cell :=
| CDict (d : alist)                  (* a dict object *)
| CSpec (m : option str)             (* a MapSpec object (rendered) or None; immutable *)
| CFunc (f : fobj)                   (* a PipeFunc / NestedPipeFunc object: its attributes can be rebound *)
| CPipe (fs : list loc).             (* a Pipeline object: its `functions` list is mutated in place *)
Definition heap := list cell.
Definition is_data (c : cell) : bool := match c with CDict _ | CSpec _ => true | _ => false end.

Definition alloc (h : heap) (c : cell) : heap * loc := (h ++ [c], length h).
Fixpoint write (h : heap) (l : loc) (c : cell) : heap :=
  match h, l with
  | [], _ => []
  | _ :: t, O => c :: t
  | x :: t, S k => x :: write t k c
  end.
Definition get_dict (h : heap) (l : loc) : option alist :=
  match nth_error h l with Some (CDict d) => Some d | _ => None end.
Definition get_spec (h : heap) (l : loc) : option (option str) :=
  match nth_error h l with Some (CSpec m) => Some m | _ => None end.
Definition get_func (h : heap) (l : loc) : option fobj :=
  match nth_error h l with Some (CFunc f) => Some f | _ => None end.
Definition get_pipe (h : heap) (l : loc) : option (list loc) :=
  match nth_error h l with Some (CPipe fs) => Some fs | _ => None end.

Definition obind {A B} (x : option A) (f : A -> option B) : option B :=
  match x with Some a => f a | None => None end.
Notation "'olet' x <- e ; k" := (obind e (fun x => k)) (at level 200, x pattern, e at level 100, k at level 200).

Fixpoint ofold {A S} (f : S -> A -> option S) (l : list A) (st : S) : option S :=
  match l with
  | [] => Some st
  | x :: t => olet st' <- f st x; ofold f t st'
  end.

(* `x or {}` *)
Definition or_empty (h : heap) (l : loc) : option (heap * loc) :=
  olet d <- get_dict h l;
  match d with [] => Some (alloc h (CDict [])) | _ => Some (h, l) end.

(* PipeFunc.__init__(func, output_name, renames=.., defaults=.., bound=.., mapspec=..) *)
Definition new_func (h : heap) (sg : fsig) (ren dfl bnd ms : loc) (inner : option loc) : option (heap * loc) :=
  olet hr <- or_empty h ren;
  olet hd <- or_empty (fst hr) dfl;
  olet hb <- or_empty (fst hd) bnd;
  Some (alloc (fst hb) (CFunc {| o_sig := sg; o_ren := snd hr; o_dfl := snd hd; o_bnd := snd hb; o_ms := ms;
                                 o_inner := inner |})).

Definition set_func (h : heap) (l : loc) (f : fobj) : heap := write h l (CFunc f).
Definition with_ren (f : fobj) (l : loc) := {| o_sig := o_sig f; o_ren := l; o_dfl := o_dfl f; o_bnd := o_bnd f; o_ms := o_ms f; o_inner := o_inner f |}.
Definition with_dfl (f : fobj) (l : loc) := {| o_sig := o_sig f; o_ren := o_ren f; o_dfl := l; o_bnd := o_bnd f; o_ms := o_ms f; o_inner := o_inner f |}.
Definition with_bnd (f : fobj) (l : loc) := {| o_sig := o_sig f; o_ren := o_ren f; o_dfl := o_dfl f; o_bnd := l; o_ms := o_ms f; o_inner := o_inner f |}.
Definition with_ms (f : fobj) (l : loc) := {| o_sig := o_sig f; o_ren := o_ren f; o_dfl := o_dfl f; o_bnd := o_bnd f; o_ms := l; o_inner := o_inner f |}.

(* ---------- copies ---------- *)
(* PipeFunc.copy / NestedPipeFunc.copy.  `clear_ms`: the copy is made for the inner pipeline of a NestedPipeFunc,
   whose __init__ sets `f.mapspec = None` on every inner function right after building them.
   A new Pipeline object is allocated with its final function list (its list is only appended to while it is
   being built, nobody else holds it yet). *)
Definition copy_all (cp : heap -> loc -> option (heap * loc)) (h : heap) (fs : list loc) : option (heap * list loc) :=
  ofold (fun st g => olet r <- cp (fst st) g; Some (fst r, snd st ++ [snd r])) fs (h, []).

Fixpoint copy_func (fuel : nat) (clear_ms : bool) (h : heap) (lf : loc) {struct fuel} : option (heap * loc) :=
  match fuel with
  | O => None
  | S n =>
      olet f <- get_func h lf;
      match o_inner f with
      | None =>
          if clear_ms then
            let '(h1, lm) := alloc h (CSpec None) in
            new_func h1 (o_sig f) (o_ren f) (o_dfl f) (o_bnd f) lm None
          else new_func h (o_sig f) (o_ren f) (o_dfl f) (o_bnd f) (o_ms f) None
      | Some lp =>
          (* NestedPipeFunc(pipefuncs=self.pipeline.functions, output_name=.., renames=self._renames, mapspec=..) *)
          olet fs <- get_pipe h lp;
          (* functions = [f.copy(resources=..) for f in pipefuncs] *)
          olet c1 <- copy_all (copy_func n false) h fs;
          (* self.pipeline = Pipeline(functions): every function is copied once more by Pipeline.add;
             for f in self.pipeline.functions: f.mapspec = None *)
          olet c2 <- copy_all (copy_func n true) (fst c1) (snd c1);
          let '(h2, lp') := alloc (fst c2) (CPipe (snd c2)) in
          (* _renames = renames or {} ; _defaults / _bound = self._defaults.copy() / self._bound.copy() *)
          olet hr <- or_empty h2 (o_ren f);
          olet d <- get_dict (fst hr) (o_dfl f);
          let '(h4, ld) := alloc (fst hr) (CDict d) in
          olet b <- get_dict h4 (o_bnd f);
          let '(h5, lb) := alloc h4 (CDict b) in
          olet lm <- (if clear_ms then Some (alloc h5 (CSpec None)) else Some (h5, o_ms f));
          Some (alloc (fst lm) (CFunc {| o_sig := o_sig f; o_ren := snd hr; o_dfl := ld; o_bnd := lb; o_ms := snd lm;
                                         o_inner := Some lp' |}))
      end
  end.

Definition copy_fuel : nat := 6.
Definition copy1 (h : heap) (lf : loc) : option (heap * loc) := copy_func copy_fuel false h lf.
(* Pipeline.add(f): copy, append to the pipeline's own list (in place) *)
Definition pipeline_add (h : heap) (lp lf : loc) : option heap :=
  olet r <- copy1 h lf;
  olet cur <- get_pipe (fst r) lp;
  Some (write (fst r) lp (CPipe (cur ++ [snd r]))).
(* Pipeline(functions): a new object whose list holds a copy of every function *)
Definition new_pipeline (h : heap) (fs : list loc) : option (heap * loc) :=
  olet c <- copy_all copy1 h fs;
  Some (alloc (fst c) (CPipe (snd c))).
(* Pipeline.copy() *)
Definition pipeline_copy (h : heap) (lp : loc) : option (heap * loc) :=
  olet fs <- get_pipe h lp; new_pipeline h fs.
(* Pipeline.join / | : f.copy(resources=...) for every function of both, then Pipeline(functions=...) *)
Definition pipeline_join (h : heap) (lp lq : loc) : option (heap * loc) :=
  olet fp <- get_pipe h lp;
  olet fq <- get_pipe h lq;
  olet c <- copy_all copy1 h (fp ++ fq);
  new_pipeline (fst c) (snd c).

(* cloudpickle round trip: every object is rebuilt *)
Fixpoint pickle_func (fuel : nat) (h : heap) (lf : loc) {struct fuel} : option (heap * loc) :=
  match fuel with
  | O => None
  | S n =>
      olet f <- get_func h lf;
      olet r <- get_dict h (o_ren f);
      olet d <- get_dict h (o_dfl f);
      olet b <- get_dict h (o_bnd f);
      olet m <- get_spec h (o_ms f);
      let '(h1, lr) := alloc h (CDict r) in
      let '(h2, ld) := alloc h1 (CDict d) in
      let '(h3, lb) := alloc h2 (CDict b) in
      let '(h4, lm) := alloc h3 (CSpec m) in
      olet hi <- match o_inner f with
                 | None => Some (h4, None)
                 | Some lp =>
                     olet fs <- get_pipe h4 lp;
                     olet c <- ofold (fun st g => olet x <- pickle_func n (fst st) g; Some (fst x, snd st ++ [snd x]))
                                     fs (h4, []);
                     let '(h5, lp') := alloc (fst c) (CPipe (snd c)) in
                     Some (h5, Some lp')
                 end;
      Some (alloc (fst hi) (CFunc {| o_sig := o_sig f; o_ren := lr; o_dfl := ld; o_bnd := lb; o_ms := lm;
                                     o_inner := snd hi |}))
  end.
Definition pipeline_pickle (h : heap) (lp : loc) : option (heap * loc) :=
  olet fs <- get_pipe h lp;
  olet c <- ofold (fun st g => olet x <- pickle_func copy_fuel (fst st) g; Some (fst x, snd st ++ [snd x])) fs (h, []);
  Some (alloc (fst c) (CPipe (snd c))).

(* ---------- the immutable view ---------- *)
(* PipeFunc.parameters / output_name / defaults from the dicts *)
Definition cur_name (ren : alist) (orig : str) : str := match aget ren orig with Some n => n | None => orig end.
Definition view_defaults (sg : fsig) (ren dfl bnd : alist) : alist :=
  flat_map (fun o => let n := cur_name ren o in
                     match aget dfl n with
                     | Some v => [(n, v)]
                     | None => match aget (g_sigd sg) o with
                               | Some v => if ahas bnd n then [] else [(n, v)]
                               | None => []
                               end
                     end) (g_params sg).
Fixpoint reify_func (fuel : nat) (h : heap) (lf : loc) {struct fuel} : option node :=
  match fuel with
  | O => None
  | S n =>
      olet f <- get_func h lf;
      olet r <- get_dict h (o_ren f);
      olet d <- get_dict h (o_dfl f);
      olet b <- get_dict h (o_bnd f);
      let sg := o_sig f in
      olet inner <- match o_inner f with
                    | None => Some None
                    | Some lp =>
                        olet fs <- get_pipe h lp;
                        olet ns <- ofold (fun acc g => olet x <- reify_func n h g; Some (acc ++ [x])) fs [];
                        Some (Some ns)
                    end;
      Some (Node (mkf (g_name sg) (map (cur_name r) (g_outs sg)) (map (fun o => (cur_name r o, o)) (g_params sg))
                      (view_defaults sg r d b) b (g_cached sg))
                 (g_outs sg) inner)
  end.
Definition reify (h : heap) (lp : loc) : option npipe :=
  olet fs <- get_pipe h lp;
  ofold (fun acc g => olet x <- reify_func copy_fuel h g; Some (acc ++ [x])) fs [].

(* what the probes observe of one function: the view, the `_renames` dict and the MapSpec *)
Record fview := { v_node : node; v_renames : alist; v_spec : option str }.
Definition view_func (h : heap) (lf : loc) : option fview :=
  olet f <- get_func h lf;
  olet nd <- reify_func copy_fuel h lf;
  olet r <- get_dict h (o_ren f);
  olet m <- get_spec h (o_ms f);
  Some {| v_node := nd; v_renames := r; v_spec := m |}.
Definition pobs (h : heap) (lp : loc) : option (list fview) :=
  olet fs <- get_pipe h lp;
  ofold (fun acc g => olet x <- view_func h g; Some (acc ++ [x])) fs [].

(* the object cells (Pipeline / PipeFunc objects) reachable from a pipeline *)
Fixpoint objs_func (fuel : nat) (h : heap) (lf : loc) {struct fuel} : list loc :=
  match fuel with
  | O => []
  | S n =>
      lf :: match get_func h lf with
            | Some f => match o_inner f with
                        | Some lp => lp :: match get_pipe h lp with
                                           | Some fs => flat_map (objs_func n h) fs
                                           | None => [] end
                        | None => []
                        end
            | None => []
            end
  end.
Definition objs (h : heap) (lp : loc) : list loc :=
  lp :: match get_pipe h lp with Some fs => flat_map (objs_func copy_fuel h) fs | None => [] end.

(* ---------- mutations (in place on the object they are applied to) ---------- *)
Section WithSpecRen.
  (* MapSpec.rename on the rendered form (MapSpecs are None for the structural pipelines of the probes) *)
  Variable spec_ren : alist -> str -> str.

  (* PipeFunc.update_defaults(d, overwrite) *)
  Definition func_update_defaults (h : heap) (lf : loc) (d : alist) (overwrite : bool) : option heap :=
    olet f <- get_func h lf;
    olet old <- get_dict h (o_dfl f);
    let nd := if overwrite then d else fold_left (fun acc kv => aset acc (fst kv) (snd kv)) d old in
    let '(h1, l) := alloc h (CDict nd) in
    Some (set_func h1 lf (with_dfl f l)).
  (* PipeFunc.update_bound(b, overwrite) *)
  Definition func_update_bound (h : heap) (lf : loc) (b : alist) (overwrite : bool) : option heap :=
    olet f <- get_func h lf;
    olet old <- get_dict h (o_bnd f);
    let nb := if overwrite then b else fold_left (fun acc kv => aset acc (fst kv) (snd kv)) b old in
    let '(h1, l) := alloc h (CDict nb) in
    Some (set_func h1 lf (with_bnd f l)).
  (* PipeFunc.update_renames(r, update_from="current", overwrite=False) *)
  Definition inverse (ren : alist) : alist := map (fun kv => (snd kv, fst kv)) ren.
  Definition func_update_renames (h : heap) (lf : loc) (r : alist) : option heap :=
    olet f <- get_func h lf;
    olet ren <- get_dict h (o_ren f);
    olet dfl <- get_dict h (o_dfl f);
    olet bnd <- get_dict h (o_bnd f);
    olet ms <- get_spec h (o_ms f);
    let inv := inverse ren in
    let to_orig (k : str) := match aget inv k with Some o => o | None => k end in
    let r_orig := map (fun kv => (to_orig (fst kv), snd kv)) r in
    let ren' := fold_left (fun acc kv => aset acc (fst kv) (snd kv)) r_orig ren in
    let rekey (d : alist) := fold_left (fun acc kv => aset acc (cur_name ren' (to_orig (fst kv))) (snd kv)) d [] in
    let '(h1, lr) := alloc h (CDict ren') in
    let '(h2, ld) := alloc h1 (CDict (rekey dfl)) in
    let '(h3, lb) := alloc h2 (CDict (rekey bnd)) in
    let f1 := with_bnd (with_dfl (with_ren f lr) ld) lb in
    match ms with
    | None => Some (set_func h3 lf f1)
    | Some m =>
        let '(h4, lm) := alloc h3 (CSpec (Some (spec_ren ren' (spec_ren inv m)))) in
        Some (set_func h4 lf (with_ms f1 lm))
    end.

  (* the names of a function as the pipeline sees them *)
  Definition func_names (h : heap) (lf : loc) : option (list str * list str * alist) :=
    olet nd <- reify_func copy_fuel h lf;
    Some (pnames (nf nd), outs (nf nd), bound (nf nd)).

  (* Pipeline.update_defaults(d) *)
  Definition pipeline_update_defaults (h : heap) (lp : loc) (d : alist) : option heap :=
    olet fs <- get_pipe h lp;
    ofold (fun hh g =>
             olet nm <- func_names hh g;
             let '(ps, _, b) := nm in
             let upd := filter (fun kv => mem_str (fst kv) ps && negb (ahas b (fst kv))) d in
             match upd with [] => Some hh | _ => func_update_defaults hh g upd false end) fs h.
  (* Pipeline.update_renames(r): every function is updated (with the applicable part, possibly empty) *)
  Definition pipeline_update_renames (h : heap) (lp : loc) (r : alist) : option heap :=
    olet fs <- get_pipe h lp;
    ofold (fun hh g =>
             olet nm <- func_names hh g;
             let '(ps, os, _) := nm in
             func_update_renames hh g (filter (fun kv => mem_str (fst kv) (ps ++ os)) r)) fs h.
  (* Pipeline.update_scope(..): PipeFunc.update_scope -> update_renames for the functions with a selection *)
  Definition pipeline_update_scope (h : heap) (lp : loc) (sc : option str) (isel osel : option (list str))
             (excl : list str) : option heap :=
    olet p <- reify h lp;
    let targets := scope_targets (funcs p) isel osel excl in
    olet fs <- get_pipe h lp;
    ofold (fun hh g =>
             olet nm <- func_names hh g;
             let '(ps, os, _) := nm in
             match inter_str (ps ++ os) targets with
             | [] => Some hh
             | sel => func_update_renames hh g (map (fun n => (n, scope_name sc n)) (dedup sel))
             end) fs h.
  (* the function object of pipeline lp that produces output o *)
  Definition find_func (h : heap) (lp : loc) (o : str) : option loc :=
    olet fs <- get_pipe h lp;
    olet hit <- ofold (fun acc g => match acc with
                                    | Some _ => Some acc
                                    | None => olet nm <- func_names h g;
                                              let '(_, os, _) := nm in
                                              Some (if mem_str o os then Some g else None)
                                    end) fs None;
    hit.
  (* Pipeline.drop(output_name=o): self.functions.remove(f) *)
  Definition pipeline_drop (h : heap) (lp : loc) (o : str) : option heap :=
    olet g <- find_func h lp o;
    olet fs <- get_pipe h lp;
    Some (write h lp (CPipe (filter (fun x => negb (x =? g)) fs))).

  (* NestedPipeFunc(pipefuncs, output_name): copies (comprehension), Pipeline(copies) (copies again, MapSpecs
     cleared), fresh dicts *)
  Definition new_nested (h : heap) (fs : list loc) (new_out : option (list str)) : option (heap * loc) :=
    olet nodes <- ofold (fun acc g => olet x <- reify_func copy_fuel h g; Some (acc ++ [x])) fs [];
    match mk_nested nodes new_out with
    | Err _ => None
    | Ok nd =>
        olet c1 <- copy_all copy1 h fs;
        olet c2 <- copy_all (copy_func copy_fuel true) (fst c1) (snd c1);
        let '(h3, lp') := alloc (fst c2) (CPipe (snd c2)) in
        let '(h4, lr) := alloc h3 (CDict []) in
        let '(h5, ld) := alloc h4 (CDict (dflt (nf nd))) in
        let '(h6, lb) := alloc h5 (CDict []) in
        let '(h7, lm) := alloc h6 (CSpec None) in
        Some (alloc h7 (CFunc {| o_sig := {| g_name := fname (nf nd); g_outs := noorig nd; g_params := pnames (nf nd);
                                             g_sigd := []; g_cached := cached (nf nd) |};
                                 o_ren := lr; o_dfl := ld; o_bnd := lb; o_ms := lm; o_inner := Some lp' |}))
    end.
  (* Pipeline.nest_funcs(names, new_out): drop every function, build the nested function, add (= copy) it *)
  Definition pipeline_nest (h : heap) (lp : loc) (names : list str) (new_out : option (list str)) : option heap :=
    olet gs <- ofold (fun acc o => olet g <- find_func h lp o; Some (acc ++ [g])) names [];
    olet fs <- get_pipe h lp;
    let h1 := write h lp (CPipe (filter (fun x => negb (existsb (Nat.eqb x) gs)) fs)) in
    olet r <- new_nested h1 gs new_out;
    pipeline_add (fst r) lp (snd r).

  (* simplified_pipeline: the grouping is computed on the immutable view (Model/Rewrite.v); here: one
     NestedPipeFunc per group, then Pipeline(rest + nested) *)
  Definition pipeline_simplify (h : heap) (lp : loc) (o : str) (conservative : bool) : option (heap * loc) :=
    olet p <- reify h lp;
    olet fs <- get_pipe h lp;
    match simplify_plan o conservative p with
    | Err _ => None
    | Ok (rest_ids, groups) =>
        let loc_of (k : str) := map snd (filter (fun nl => str_eqb (nid (fst nl)) k) (combine p fs)) in
        olet c <- ofold (fun st g =>
                           olet r <- new_nested (fst st) (flat_map loc_of (fst g)) (Some (snd g));
                           Some (fst r, snd st ++ [snd r])) groups (h, []);
        new_pipeline (fst c) (flat_map loc_of rest_ids ++ snd c)
    end.
  (* split_disconnected, the component that holds o: [x.copy() for x in component], Pipeline(copies) *)
  Definition pipeline_split (h : heap) (lp : loc) (o : str) : option (heap * loc) :=
    olet p <- reify h lp;
    olet fs <- get_pipe h lp;
    match producer (funcs p) o with
    | None => None
    | Some f =>
        let comp := component (funcs p) f in
        let sel := map snd (filter (fun nl => mem_str (nid (fst nl)) comp) (combine p fs)) in
        olet c <- copy_all copy1 h sel;
        new_pipeline (fst c) (snd c)
    end.

  (* ---------- the operations of the probes ---------- *)
  Inductive hop :=
  | HCopy (p : loc) | HPickle (p : loc) | HJoin (p q : loc) | HSimplify (p : loc) (o : str) (c : bool)
  | HSplit (p : loc) (o : str)                                       (* return a new pipeline *)
  | HUpdateDefaults (p : loc) (d : alist)
  | HUpdateBound (p : loc) (o : str) (b : alist)                     (* p[o].update_bound(b) *)
  | HUpdateRenames (p : loc) (r : alist)
  | HUpdateScope (p : loc) (sc : option str) (isel osel : option (list str)) (excl : list str)
  | HDrop (p : loc) (o : str)
  | HNest (p : loc) (names : list str) (new_out : option (list str)).   (* in place *)

  (* the pipeline object an operation is applied to in place (None: it only creates new objects) *)
  Definition target (x : hop) : option loc :=
    match x with
    | HCopy _ | HPickle _ | HJoin _ _ | HSimplify _ _ _ | HSplit _ _ => None
    | HUpdateDefaults p _ | HUpdateBound p _ _ | HUpdateRenames p _ | HUpdateScope p _ _ _ _ | HDrop p _
    | HNest p _ _ => Some p
    end.

  Definition step (h : heap) (x : hop) : option (heap * option loc) :=
    match x with
    | HCopy p => olet r <- pipeline_copy h p; Some (fst r, Some (snd r))
    | HPickle p => olet r <- pipeline_pickle h p; Some (fst r, Some (snd r))
    | HJoin p q => olet r <- pipeline_join h p q; Some (fst r, Some (snd r))
    | HSimplify p o c => olet r <- pipeline_simplify h p o c; Some (fst r, Some (snd r))
    | HSplit p o => olet r <- pipeline_split h p o; Some (fst r, Some (snd r))
    | HUpdateDefaults p d => olet h' <- pipeline_update_defaults h p d; Some (h', None)
    | HUpdateBound p o b => olet g <- find_func h p o; olet h' <- func_update_bound h g b false; Some (h', None)
    | HUpdateRenames p r => olet h' <- pipeline_update_renames h p r; Some (h', None)
    | HUpdateScope p sc i o e => olet h' <- pipeline_update_scope h p sc i o e; Some (h', None)
    | HDrop p o => olet h' <- pipeline_drop h p o; Some (h', None)
    | HNest p names new_out => olet h' <- pipeline_nest h p names new_out; Some (h', None)
    end.
End WithSpecRen.

(* ---------- building the initial heap from a pipeline description (Pipeline([PipeFunc(...), ...])) ---------- *)
(* harness/pipegen.py build: PipeFunc(sf, output_name, renames=.. or None, defaults=.. or None, bound=.. or None)
   then Pipeline(pfs) which copies each *)
Record fdesc := { d_name : str; d_outs : list str; d_params : list (str * str); d_sigd : alist;
                  d_defs : alist; d_bound : alist; d_cached : bool }.
Definition build_func (h : heap) (d : fdesc) : option (heap * loc) :=
  let ren := flat_map (fun co => if str_eqb (fst co) (snd co) then [] else [(snd co, fst co)]) (d_params d) in
  let '(h1, lr) := alloc h (CDict ren) in
  let '(h2, ld) := alloc h1 (CDict (d_defs d)) in
  let '(h3, lb) := alloc h2 (CDict (d_bound d)) in
  let '(h4, lm) := alloc h3 (CSpec None) in
  new_func h4 {| g_name := d_name d; g_outs := d_outs d; g_params := map snd (d_params d); g_sigd := d_sigd d;
                 g_cached := d_cached d |} lr ld lb lm None.
Definition build (h : heap) (ds : list fdesc) : option (heap * loc) :=
  olet c <- ofold (fun st d => olet r <- build_func (fst st) d; Some (fst r, snd st ++ [snd r])) ds (h, []);
  new_pipeline (fst c) (snd c).

End Alias.
