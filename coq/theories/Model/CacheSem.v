(* Model/CacheSem.v - Pipe.run extended with the per-pipeline result cache (C09).

   WHAT IS MODELLED (pipefunc/_pipeline/_base.py, pipefunc/_pipeline/_cache.py, pipefunc/map/_run.py), as of the
   REPAIRED code (three `fix:` commits of C09, see known_findings.jsonl):
     Pipeline._run (cache branch)                -> crun_out: root_args, use_cache, key, get_result_from_cache,
                                                    _get_func_args, _execute_func, update_cache, _update_all_results
     compute_cache_key                           -> key_items / cache_key: root arguments only, values from
                                                    _func_defaults(func) | kwargs (NOT func._bound: fix 2), no key when
                                                    a root argument has no value, no key when a supplied keyword names
                                                    an output of the pipeline (fix 1)
     get_result_from_cache                       -> the `hit` branch of crun_out (full_output: continue with
                                                    _get_func_args, else used_parameters.add(None) and return)
     Pipeline.run                                -> crun (unused-keyword check skipped when None in used_parameters)
     Pipeline.update_defaults / PipeFunc.update_bound / Pipeline.replace
                                                 -> upd_defaults / upd_bound / replace_func; every mutation ends in
                                                    Pipeline._clear_internal_cache which clears the cache (fix 3)
     _get_or_set_cache (map path)                -> get_or_set (keyed by the function's own kwargs; one atomic read,
                                                    fix 4), get_or_set_legacy (membership test, then read)
     SimpleCache / LRUCache(shared=False)        -> simple_policy / lru_policy (own small models; the container
                                                    classes themselves are C14's subject)
   The ORIGINAL (unrepaired) behaviour is kept as `legacy` variant (flag) so that the refutation witnesses of the
   findings stay checkable: legacy = key from defaults | kwargs | bound, no supplied-output guard, mutations keep
   the cache.

   NOT MODELLED: lazy pipelines / task_graph caches, HybridCache and DiskCache internals (covered by the policy
   interface: the theorems hold for every lawful policy), shared caches, the `assert` of _func_defaults (it restates
   validate_consistent_defaults), a pipeline whose `cache` attribute is None although a function has cache=True
   (only possible by replace/add into a pipeline constructed without cache).  Values are `str`. *)
From Verif Require Import Base.Prelude Base.StrOrd Base.Graph Model.Pipe.

(* ---------- cache keys ---------- *)
(* _run:  (func.output_name, ((root, value), ...));   map: (func.output_name, to_hashable(kwargs)).
   The two shapes can never be equal in Python (a tuple of pairs vs the triple ("__CONVERTED__", dict, ...)). *)
Inductive ckey := KCall (o : list str) (rv : alist) | KMap (o : list str) (kwargs : alist).

Definition pair_eqb (a b : str * str) : bool := str_eqb (fst a) (fst b) && str_eqb (snd a) (snd b).
Definition alist_eqb (a b : alist) : bool := list_eqb pair_eqb a b.
Definition ckey_eqb (a b : ckey) : bool :=
  match a, b with
  | KCall o1 r1, KCall o2 r2 => list_eqb str_eqb o1 o2 && alist_eqb r1 r2
  | KMap o1 r1, KMap o2 r2 => list_eqb str_eqb o1 o2 && alist_eqb r1 r2
  | _, _ => false
  end.

(* ---------- the cache interface: `key in cache`, cache.get(key), cache.put(key, value), cache.clear() ---------- *)
Record policy (C : Type) := {
  cmem : C -> ckey -> bool;
  cget : C -> ckey -> option str * C;          (* None = Python's None (absent) *)
  cput : C -> ckey -> str -> C;
  cclear : C -> C
}.
Arguments cmem {C}. Arguments cget {C}. Arguments cput {C}. Arguments cclear {C}.

(* SimpleCache: a dict *)
Definition simple := list (ckey * str).
Fixpoint sfind (c : simple) (k : ckey) : option str :=
  match c with [] => None | (k', v) :: t => if ckey_eqb k k' then Some v else sfind t k end.
Fixpoint sset (c : simple) (k : ckey) (v : str) : simple :=
  match c with
  | [] => [(k, v)]
  | (k', v') :: t => if ckey_eqb k k' then (k', v) :: t else (k', v') :: sset t k v
  end.
Definition simple_policy : policy simple :=
  {| cmem := fun c k => match sfind c k with Some _ => true | None => false end;
     cget := fun c k => (sfind c k, c);
     cput := sset;
     cclear := fun _ => [] |}.

(* LRUCache(shared=False): dict + recency queue + max_size.
   get: value; queue.remove(key); queue.append(key).
   put: dict[key] = value; if len(queue) < max_size: queue.append(key)
        else: evicted = queue.pop(0); dict.pop(evicted); queue.append(key).
   (Python raises when the evicted key is not in the dict / the queue is empty; both are unreachable as long as every
    put is for an absent key, which is how _run uses the cache; here the removals are total.) *)
Record lru := { ldict : simple; lqueue : list ckey; lmax : nat }.
Fixpoint sdel (c : simple) (k : ckey) : simple :=
  match c with [] => [] | (k', v) :: t => if ckey_eqb k k' then t else (k', v) :: sdel t k end.
Fixpoint qdel (q : list ckey) (k : ckey) : list ckey :=
  match q with [] => [] | k' :: t => if ckey_eqb k k' then t else k' :: qdel t k end.
Definition lru_get (c : lru) (k : ckey) : option str * lru :=
  match sfind (ldict c) k with
  | None => (None, c)
  | Some v => (Some v, {| ldict := ldict c; lqueue := qdel (lqueue c) k ++ [k]; lmax := lmax c |})
  end.
Definition lru_put (c : lru) (k : ckey) (v : str) : lru :=
  let d := sset (ldict c) k v in
  if length (lqueue c) <? lmax c then {| ldict := d; lqueue := lqueue c ++ [k]; lmax := lmax c |}
  else match lqueue c with
       | [] => {| ldict := d; lqueue := [k]; lmax := lmax c |}
       | e :: q => {| ldict := sdel d e; lqueue := q ++ [k]; lmax := lmax c |}
       end.
Definition lru_policy : policy lru :=
  {| cmem := fun c k => match sfind (ldict c) k with Some _ => true | None => false end;
     cget := lru_get;
     cput := lru_put;
     cclear := fun c => {| ldict := []; lqueue := []; lmax := lmax c |} |}.
Definition lru_empty (n : nat) : lru := {| ldict := []; lqueue := []; lmax := n |}.

(* ---------- the cache key of a call ---------- *)
(* Pipeline._func_defaults(func)[k]: the function's own defaults, completed by the pipeline-wide default of each
   of its parameters *)
Definition func_default (p : pipeline) (f : pfunc) (k : str) : option str :=
  match aget (dflt f) k with
  | Some v => Some v
  | None => if mem_str k (pnames f) then pdefault p k else None
  end.
(* (defaults | kwargs [| bound])[k] *)
Definition key_val (legacy : bool) (p : pipeline) (f : pfunc) (kw : alist) (k : str) : option str :=
  match (if legacy then aget (bound f) k else None) with
  | Some b => Some b
  | None => match aget kw k with Some v => Some v | None => func_default p f k end
  end.
(* compute_cache_key: None as soon as a root argument has no value *)
Fixpoint key_items (legacy : bool) (p : pipeline) (f : pfunc) (kw : alist) (ra : list str) : option alist :=
  match ra with
  | [] => Some []
  | k :: t =>
      match key_val legacy p f kw k with
      | None => None
      | Some v => match key_items legacy p f kw t with Some l => Some ((k, v) :: l) | None => None end
      end
  end.
(* a supplied keyword names an output of the pipeline *)
Definition supplies_output (p : pipeline) (kw : alist) : bool := existsb (is_output p) (akeys kw).
Definition cache_key (legacy : bool) (p : pipeline) (f : pfunc) (kw : alist) (ra : list str) : option ckey :=
  if negb legacy && supplies_output p kw then None
  else match key_items legacy p f kw ra with Some l => Some (KCall (outs f) l) | None => None end.

Definition none_val : str := s "None".           (* canon(None) *)

(* ---------- what the theorems need to know about Pipeline.root_args (Pipe.root_args mirrors _compute_arg_mapping;
   its characterisation is C02's subject): the reported tuple consists of non-outputs and contains every name that
   the evaluation of the output reads from the keywords / defaults, i.e. every unbound non-output parameter of a
   function reachable from it through unbound parameters.  Decidable; PROVED for every well-formed pipeline in
   Proofs/RootArgsFacts.v (roots_okb_of_wf), so it is no side condition of the final theorems. ---------- *)
Fixpoint reads_ok (fuel : nat) (p : pipeline) (ra : list str) (o : str) {struct fuel} : bool :=
  match fuel with
  | O => true
  | S n =>
      match producer p o with
      | None => true
      | Some g =>
          forallb (fun cur => if ahas (bound g) cur then true
                              else if is_output p cur then reads_ok n p ra cur
                              else mem_str cur ra) (pnames g)
      end
  end.
Definition roots_okb (p : pipeline) : bool :=
  forallb (fun o => match root_args p o with
                    | Ok ra => all_root p ra && reads_ok (S (length p)) p ra o
                    | Err _ => false
                    end) (all_outputs p).

Section WithBody.
  Variable body : str -> alist -> result str.
  Variable pick : str -> str -> str.
  Context {C : Type}.
  Variable P : policy C.
  Variable legacy : bool.        (* true = the code before the C09 repairs *)

  Record xstate := { xres : alist;             (* all_results *)
                     xused : list str;         (* used_parameters (the str members) *)
                     xhit : bool;              (* None in used_parameters: some result came from the cache *)
                     xlog : list call;
                     xc : C }.
  Definition x_res (st : xstate) (r : alist) := {| xres := r; xused := xused st; xhit := xhit st; xlog := xlog st; xc := xc st |}.
  Definition x_use (st : xstate) (k : str) := {| xres := xres st; xused := k :: xused st; xhit := xhit st; xlog := xlog st; xc := xc st |}.
  Definition x_hit (st : xstate) := {| xres := xres st; xused := xused st; xhit := true; xlog := xlog st; xc := xc st |}.
  Definition x_log (st : xstate) (c : call) := {| xres := xres st; xused := xused st; xhit := xhit st; xlog := xlog st ++ [c]; xc := xc st |}.
  Definition x_c (st : xstate) (c : C) := {| xres := xres st; xused := xused st; xhit := xhit st; xlog := xlog st; xc := c |}.

  Section Run.
    Variable use : bool.           (* false = the uncached twin: func.cache is False / Pipeline.cache is None *)
    Variable p : pipeline.
    Variable kw : alist.
    Variable full : bool.

    (* _get_func_args, one parameter (as Pipe.resolve, over xstate) *)
    Definition cresolve (rec : xstate -> str -> xstate * result str) (f : pfunc) (st : xstate) (cur : str)
      : xstate * result str :=
      match aget (bound f) cur with
      | Some b => (st, Ok b)
      | None =>
          match aget kw cur with
          | Some v => (st, Ok v)
          | None =>
              if is_output p cur then rec st cur
              else match pdefault p cur with
                   | Some d => (st, Ok d)
                   | None => (st, Err ValueError)
                   end
          end
      end.

    Fixpoint cget_args (rec : xstate -> str -> xstate * result str) (f : pfunc) (ps : list (str * str))
             (st : xstate) (acc : alist) {struct ps} : xstate * result alist :=
      match ps with
      | [] => (st, Ok acc)
      | (cur, orig) :: t =>
          let '(st1, rv) := cresolve rec f st cur in
          match rv with
          | Err e => (st1, Err e)
          | Ok v => cget_args rec f t (x_use st1 cur) (acc ++ [(orig, v)])
          end
      end.

    (* all_results[output_name] after _update_all_results *)
    Definition out_of (rs : alist) (o : str) : result str :=
      match aget rs o with Some v => Ok v | None => Err KeyError end.

    (* r = cache.get(key); _update_all_results(func, r, ...).  r = None (an absent key) is Python's None: stored
       as is for a single output, not subscriptable for a tuple output. *)
    Definition hit_value (f : pfunc) (ov : option str) : result str :=
      match ov with
      | Some r => Ok r
      | None => if multi f then Err TypeError else Ok none_val
      end.

    Fixpoint crun_out (fuel : nat) (st : xstate) (o : str) {struct fuel} : xstate * result str :=
      match fuel with
      | O => (st, Err RuntimeError)
      | S n =>
          match aget (xres st) o with
          | Some v => (st, Ok v)                                       (* if output_name in all_results *)
          | None =>
              match producer p o with
              | None => (st, Err KeyError)
              | Some f =>
                  match root_args p o with                             (* root_args = self.root_args(output_name) *)
                  | Err e => (st, Err e)
                  | Ok ra =>
                      let key := if use && cached f then cache_key legacy p f kw ra else None in   (* use_cache *)
                      let found := match key with
                                   | Some k => if cmem P (xc st) k then Some (cget P (xc st) k) else None
                                   | None => None
                                   end in
                      match found with
                      | Some (ov, c1) =>                               (* get_result_from_cache: a hit *)
                          let st0 := x_c st c1 in
                          match hit_value f ov with
                          | Err e => (st0, Err e)
                          | Ok r =>
                              let st1 := x_res st0 (update_all_results pick f r (xres st0)) in
                              if negb full then
                                let st2 := x_hit st1 in (st2, out_of (xres st2) o)
                              else
                                let '(st2, ra2) := cget_args (crun_out n) f (params f) st1 [] in
                                match ra2 with
                                | Err e => (st2, Err e)
                                | Ok _ => (st2, out_of (xres st2) o)  (* if result_from_cache: return *)
                                end
                          end
                      | None =>
                          let '(st1, ra1) := cget_args (crun_out n) f (params f) st [] in
                          match ra1 with
                          | Err e => (st1, Err e)
                          | Ok args =>
                              let st2 := x_log st1 (fname f, args) in
                              match body (fname f) args with
                              | Err e => (st2, Err e)
                              | Ok r =>
                                  let st3 := match key with
                                             | Some k => x_c st2 (cput P (xc st2) k r)   (* update_cache *)
                                             | None => st2
                                             end in
                                  let rs := update_all_results pick f r (xres st3) in
                                  (x_res st3 rs, out_of rs o)
                              end
                          end
                      end
                  end
              end
          end
      end.

    Definition cinit (c : C) : xstate := {| xres := kw; xused := []; xhit := false; xlog := []; xc := c |}.
    Definition cunused (st : xstate) : list str := filter (fun k => negb (mem_str k (xused st))) (akeys kw).
  End Run.

  (* Pipeline.run(output_name, full_output=full, kwargs=kw) on a pipeline whose cache is c *)
  Definition crun (use : bool) (p : pipeline) (c : C) (o : str) (kw : alist) (full : bool)
    : result outcome * list call * C :=
    if negb (is_node p o) then (Err KeyError, [], c)
    else if ahas kw o then (Err ValueError, [], c)
    else
      let '(st, r) := crun_out use p kw full (S (length p)) (cinit kw c) o in
      match r with
      | Err e => (Err e, xlog st, xc st)
      | Ok v =>
          if negb (xhit st) && (match cunused kw st with [] => false | _ => true end)
          then (Err UnusedParametersError, xlog st, xc st)
          else (Ok (if full then Full (xres st) else Value v), xlog st, xc st)
      end.

  (* Pipeline.run since the repair "validate the keyword arguments of Pipeline.run before executing anything":
     Pipe.run_precheck comes first (also before any cache look-up), `crun` is the evaluation proper *)
  Definition crun_checked (use : bool) (p : pipeline) (c : C) (o : str) (kw : alist) (full : bool)
    : result outcome * list call * C :=
    match run_precheck p o kw with
    | Err e => (Err e, [], c)
    | Ok _ => crun use p c o kw full
    end.

  (* ---------- mutations ---------- *)
  Definition aupdate (l upd : alist) : alist := fold_left (fun acc kv => aset acc (fst kv) (snd kv)) upd l.
  Definition set_dflt (f : pfunc) (d : alist) : pfunc := mkf (fname f) (outs f) (params f) d (bound f) (cached f).
  Definition set_bound (f : pfunc) (d b : alist) : pfunc := mkf (fname f) (outs f) (params f) d b (cached f).

  (* Pipeline.update_defaults(d) (overwrite=False): every function gets the entries that name one of its unbound
     parameters; PipeFunc.defaults lists defaults in parameter order.  Unused entries raise ValueError AFTER the
     functions were updated. *)
  Definition upd_defaults_f (d : alist) (f : pfunc) : pfunc :=
    let upd := filter (fun kv => mem_str (fst kv) (pnames f) && negb (ahas (bound f) (fst kv))) d in
    match upd with
    | [] => f
    | _ => set_dflt f (flat_map (fun cur => match aget (rev upd) cur with
                                            | Some v => [(cur, v)]
                                            | None => match aget (dflt f) cur with Some v => [(cur, v)] | None => [] end
                                            end) (pnames f))
    end.
  Definition upd_defaults (d : alist) (p : pipeline) : pipeline * result unit :=
    let p' := map (upd_defaults_f d) p in
    let unused := filter (fun kv => negb (existsb (fun f => mem_str (fst kv) (pnames f)
                                                             && negb (ahas (bound f) (fst kv))) p)) d in
    (p', match unused with [] => Ok tt | _ => Err ValueError end).

  (* pipeline[o].update_bound(b) (overwrite=False): keys must be parameters (checked before anything changes);
     a newly bound parameter loses its signature default (PipeFunc.defaults).  [A bound key that has an EXPLICIT
     default raises afterwards and leaves a broken function: not modelled, the generator avoids it.] *)
  Definition upd_bound (o : str) (b : alist) (p : pipeline) : pipeline * result unit :=
    match producer p o with
    | None => (p, Err KeyError)
    | Some f =>
        if negb (subset_str (akeys b) (pnames f)) then (p, Err ValueError)
        else
          let b' := aupdate (bound f) b in
          let f' := set_bound f (filter (fun kv => negb (ahas b' (fst kv))) (dflt f)) b' in
          (map (fun g => if list_eqb str_eqb (outs g) (outs f) then f' else g) p, Ok tt)
    end.

  (* Pipeline.replace(new): drop(output_name=new.output_name) then add(new) at the end of the list *)
  Definition replace_func (new : pfunc) (p : pipeline) : pipeline * result unit :=
    if existsb (fun g => list_eqb str_eqb (outs g) (outs new)) p
    then (filter (fun g => negb (list_eqb str_eqb (outs g) (outs new))) p ++ [new], Ok tt)
    else (p, Err KeyError).

  Inductive step :=
  | Call (o : str) (kw : alist) (full : bool)
  | UpdDefaults (d : alist)
  | UpdBound (o : str) (b : alist)
  | Replace (new : pfunc).
  Inductive sobs := OCall (r : result outcome) (lg : list call) | OMut (r : result unit).

  Definition mutate (m : step) (p : pipeline) : pipeline * result unit :=
    match m with
    | Call _ _ _ => (p, Ok tt)
    | UpdDefaults d => upd_defaults d p
    | UpdBound o b => upd_bound o b p
    | Replace new => replace_func new p
    end.

  (* a history on one pipeline object; `use` = false runs the uncached twin (the same functions with cache=False
     in a pipeline without cache: use_cache is False in every _run) *)
  Fixpoint exec_hist (use : bool) (p : pipeline) (c : C) (h : list step) : list sobs :=
    match h with
    | [] => []
    | Call o kw full :: t =>
        let '(r, lg, c') := crun use p c o kw full in
        OCall r lg :: exec_hist use p c' t
    | m :: t =>
        let '(p', r) := mutate m p in
        (* every mutation entry point ends in Pipeline._clear_internal_cache (also when it raises afterwards;
           update_bound / replace raise BEFORE anything changes in the modelled error cases) *)
        let c' := if legacy then c else match r, m with
                                        | Err _, UpdBound _ _ | Err _, Replace _ => c
                                        | _, _ => cclear P c
                                        end in
        OMut r :: exec_hist use p' c' t
    end.

  (* the same history on the code since the repair "validate the keyword arguments of Pipeline.run before executing
     anything" (crun_checked); it coincides with exec_hist on histories whose calls pass Pipe.run_precheck *)
  Fixpoint exec_hist_checked (use : bool) (p : pipeline) (c : C) (h : list step) : list sobs :=
    match h with
    | [] => []
    | Call o kw full :: t =>
        let '(r, lg, c') := crun_checked use p c o kw full in
        OCall r lg :: exec_hist_checked use p c' t
    | m :: t =>
        let '(p', r) := mutate m p in
        let c' := if legacy then c else match r, m with
                                        | Err _, UpdBound _ _ | Err _, Replace _ => c
                                        | _, _ => cclear P c
                                        end in
        OMut r :: exec_hist_checked use p' c' t
    end.

  (* the pipelines a history goes through (for the well-formedness side condition of the theorems) *)
  Fixpoint hist_pipelines (p : pipeline) (h : list step) : list pipeline :=
    p :: match h with
         | [] => []
         | m :: t => hist_pipelines (fst (mutate m p)) t
         end.

  (* ---------- map path: _get_or_set_cache(func, kwargs, cache, compute_fn) ---------- *)
  (* kwargs: the function's own keyword arguments (current names; PipeFunc.__call__ maps them to the original
     names).  Returns the value, the new cache and whether the user function was executed. *)
  Definition call_args (f : pfunc) (kwargs : alist) : alist :=
    flat_map (fun po => match aget kwargs (fst po) with Some v => [(snd po, v)] | None => [] end) (params f).
  Definition map_key (f : pfunc) (kwargs : alist) : ckey := KMap (outs f) (sort_by_key kwargs).
  (* REPAIRED code (fix "map: read a cached result with a single cache.get"): ONE read - results are stored as
     1-tuples, so None means absent - then, on a miss, the user function and one put.  The read and the put are the
     two atomic cache operations of an invocation (LRUCache/HybridCache.get/put hold the cache lock). *)
  Definition gos_read (f : pfunc) (kwargs : alist) (c : C) : option str * C := cget P c (map_key f kwargs).
  Definition gos_write (f : pfunc) (kwargs : alist) (c : C) (r : str) : C := cput P c (map_key f kwargs) r.
  Definition get_or_set (f : pfunc) (kwargs : alist) (c : C) : result str * C * bool :=
    let '(ov, c1) := gos_read f kwargs c in
    match ov with
    | Some r => (Ok r, c1, false)
    | None =>
        match body (fname f) (call_args f kwargs) with
        | Err e => (Err e, c1, true)
        | Ok r => (Ok r, gos_write f kwargs c1 r, true)
        end
    end.
  (* the code AS FOUND: `if key in cache: return cache.get(key)`.  `interfere` is what the other clients of a shared
     cache do between the membership test and the read; an absent key reads as Python's None. *)
  Definition get_or_set_legacy (interfere : C -> C) (f : pfunc) (kwargs : alist) (c : C) : result str * C * bool :=
    let k := map_key f kwargs in
    if cmem P c k then
      let '(ov, c1) := cget P (interfere c) k in
      (match ov with Some r => Ok r | None => Ok none_val end, c1, false)
    else
      match body (fname f) (call_args f kwargs) with
      | Err e => (Err e, c, true)
      | Ok r => (Ok r, cput P c k r, true)
      end.
  (* a sequential map run is, for the cache, a sequence of such calls *)
  Fixpoint map_calls (calls : list (pfunc * alist)) (c : C) : list (result str) * C :=
    match calls with
    | [] => ([], c)
    | (f, kwargs) :: t =>
        let '(r, c1, _) := get_or_set f kwargs c in
        let '(rs, c2) := map_calls t c1 in
        (r :: rs, c2)
    end.
End WithBody.
