(* Model/CacheSemSpec.v - the vocabulary of the C09 statements (definitions only).

   * `lawful P good`: what EVERY replacement policy guarantees (SimpleCache, LRUCache, HybridCache, DiskCache alike):
     an entry that is resident was put with exactly that value since the last clear; get/put never invent or alter
     entries, eviction only removes them.  `good` is an invariant of the container's reachable states.
   * `cache_inv`: the invariant of DESIGN section C09: every resident entry (o, rootvals) |-> v is the raw result of
     its function in the evaluation (Pipe.eval, the specification of C02) whose keywords are the key's root values;
     a map-path entry (o, kwargs) |-> v is the user function's result on those keyword arguments.
   * `step_transparent`: one step of the two twins satisfies the property text: "each call that succeeds without
     caching returns an equal value with caching enabled" (full_output dictionaries are equal as finite maps).
   * `hist_goodb`: every pipeline the history goes through is accepted by construction-time validation
     (wf_pipelineb) and its root_args cover what its outputs read (roots_okb, see Model/CacheSem.v). *)
From Verif Require Import Base.Prelude Base.StrOrd Base.Graph Model.Pipe Model.CacheSem.

(* the entry a lookup would return *)
Definition lookup {C} (P : policy C) (c : C) (k : ckey) : option str :=
  if cmem P c k then fst (cget P c k) else None.

Record lawful {C} (P : policy C) (good : C -> Prop) : Prop := {
  L_good_get : forall c k, good c -> good (snd (cget P c k));
  L_good_put : forall c k v, good c -> good (cput P c k v);
  L_good_clear : forall c, good c -> good (cclear P c);
  L_some : forall c k, good c -> cmem P c k = true -> fst (cget P c k) <> None;
  L_get_mem : forall c k v, good c -> fst (cget P c k) = Some v -> cmem P c k = true;
  L_get : forall c k k' v, good c -> lookup P (snd (cget P c k)) k' = Some v -> lookup P c k' = Some v;
  L_put : forall c k v k' v', good c -> lookup P (cput P c k v) k' = Some v' -> (k' = k /\ v' = v) \/ lookup P c k' = Some v';
  L_clear : forall c k, good c -> lookup P (cclear P c) k = None
}.

(* a freshly constructed (or cleared) cache *)
Definition empty_cache {C} (P : policy C) (good : C -> Prop) (c : C) : Prop :=
  good c /\ forall k, lookup P c k = None.

(* never evicts: SimpleCache, DiskCache without max_size *)
Definition never_evicts {C} (P : policy C) : Prop :=
  forall c k k' v, cmem P c k = true -> cmem P (cput P c k' v) k = true /\ cmem P (snd (cget P c k')) k = true.

Section Spec.
  Variable body : str -> alist -> result str.
  Variable pick : str -> str -> str.

  (* the raw result of f in the evaluation with keywords kw (the inner part of Pipe.eval) *)
  Definition eval_raw (n : nat) (p : pipeline) (kw : alist) (f : pfunc) : result str :=
    do args <- args_with (eval body pick n p kw) p kw f; body (fname f) args.

  Definition entry_ok (p : pipeline) (k : ckey) (v : str) : Prop :=
    match k with
    | KCall o rv => exists f, In f p /\ outs f = o /\ exists m, eval_raw m p rv f = Ok v
    | KMap o kwargs => exists f kws, In f p /\ outs f = o /\ NoDup (akeys kws) /\ sort_by_key kws = kwargs
                                     /\ body (fname f) (call_args f kws) = Ok v
    end.
  Definition cache_inv {C} (P : policy C) (good : C -> Prop) (p : pipeline) (c : C) : Prop :=
    good c /\ forall k v, lookup P c k = Some v -> entry_ok p k v.
End Spec.

Definition outcome_eq (a b : outcome) : Prop :=
  match a, b with
  | Value v, Value w => v = w
  | Full d, Full e => forall n, aget d n = aget e n
  | _, _ => False
  end.

Definition step_transparent (u c : sobs) : Prop :=
  match u, c with
  | OCall ru _, OCall rc _ => forall out_u, ru = Ok out_u -> exists out_c, rc = Ok out_c /\ outcome_eq out_u out_c
  | OMut a, OMut b => a = b
  | _, _ => False
  end.

Definition hist_goodb (p : pipeline) (h : list step) : bool :=
  forallb (fun q => wf_pipelineb q && roots_okb q) (hist_pipelines p h).
(* the only side condition of the final theorems: every pipeline of the history is well-formed, i.e. accepted by
   construction-time validation (roots_okb follows: Proofs/RootArgsFacts.v) *)
Definition hist_wfb (p : pipeline) (h : list step) : bool := forallb wf_pipelineb (hist_pipelines p h).

(* a boolean that every transparent pair of observation lists satisfies (used to refute): single values are
   compared, full_output dictionaries are not inspected *)
Definition step_transparentb (u c : sobs) : bool :=
  match u, c with
  | OCall (Ok (Value v)) _, OCall (Ok (Value w)) _ => str_eqb v w
  | OCall (Ok (Value _)) _, OCall _ _ => false
  | OCall (Ok (Full _)) _, OCall (Ok (Full _)) _ => true
  | OCall (Ok (Full _)) _, OCall _ _ => false
  | OCall (Err _) _, OCall _ _ => true
  | OMut _, OMut _ => true
  | _, _ => false
  end.
Fixpoint all_transparentb (u c : list sobs) : bool :=
  match u, c with
  | [], [] => true
  | a :: u', b :: c' => step_transparentb a b && all_transparentb u' c'
  | _, _ => false
  end.
