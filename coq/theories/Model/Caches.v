(* C14 - executable models of the cache containers of pipefunc/cache.py
   (LRUCache, SimpleCache, HybridCache, DiskCache), one state machine per class:
   step : state -> op -> state * out.   Definitions only (proofs: Proofs/CachesFacts.v).

   Python dicts are association lists in insertion order (updating a resident key keeps its place,
   `del`/`pop` removes it), Python lists are lists.  Every place where the code can raise is an explicit
   `Raised <class>` output together with the partially updated state the exception leaves behind.
   Keys and values are small naturals (the harness uses small ints).

   The `*_v0` definitions mirror the code BEFORE the `fix:` commits of this check (kept only so that the
   defects stay machine-checked as `_refuted` lemmas); the unsuffixed ones mirror the code that exists. *)
From Verif Require Import Base.Prelude.

Inductive out := ONone | OVal (v : nat) | OBool (b : bool) | OLen (n : nat) | Raised (e : err).

Definition is_raised (o : out) : bool := match o with Raised _ => true | _ => false end.

(* D = type of the `duration` argument of HybridCache.put (ignored by the other classes) *)
Inductive op (D : Type) := Put (k v : nat) (d : D) | Get (k : nat) | Mem (k : nat) | Len | Clear.
Arguments Put {D} k v d.
Arguments Get {D} k.
Arguments Mem {D} k.
Arguments Len {D}.
Arguments Clear {D}.

(* DiskCache additionally can be re-opened on the same directory (new object, new max_size) *)
Inductive dop (D : Type) := DOp (o : op D) | Reopen (m : option nat).
Arguments DOp {D} o.
Arguments Reopen {D} m.

(* ------------------------------------------------------------------ dict / list primitives *)
Section AList.
  Context {V : Type}.
  Fixpoint aget (k : nat) (d : list (nat * V)) : option V :=
    match d with
    | [] => None
    | (k', v) :: t => if Nat.eqb k k' then Some v else aget k t
    end.
  Definition amem (k : nat) (d : list (nat * V)) : bool :=
    match aget k d with Some _ => true | None => false end.
  (* d[k] = v : a resident key keeps its position, a new key goes to the end *)
  Fixpoint aset (k : nat) (v : V) (d : list (nat * V)) : list (nat * V) :=
    match d with
    | [] => [(k, v)]
    | (k', v') :: t => if Nat.eqb k k' then (k, v) :: t else (k', v') :: aset k v t
    end.
  (* del d[k] / d.pop(k) on a resident key *)
  Fixpoint adel (k : nat) (d : list (nat * V)) : list (nat * V) :=
    match d with
    | [] => []
    | (k', v') :: t => if Nat.eqb k k' then t else (k', v') :: adel k t
    end.
End AList.

Fixpoint qmem (k : nat) (q : list nat) : bool :=
  match q with [] => false | x :: t => Nat.eqb k x || qmem k t end.
(* list.remove(k): first occurrence *)
Fixpoint qremove (k : nat) (q : list nat) : list nat :=
  match q with [] => [] | x :: t => if Nat.eqb k x then t else x :: qremove k t end.

(* ------------------------------------------------------------------ LRUCache *)
Record lru := mkLru { l_dict : list (nat * nat); l_queue : list nat }.
Definition lru_empty : lru := mkLru [] [].

(* LRUCache.put (after fix: a resident key is moved to the back of the queue, nothing is evicted)
     with lock:
         if key in dict:  queue.remove(key)
         elif len(queue) >= max_size:  k = queue.pop(0); dict.pop(k)
         dict[key] = value; queue.append(key)                                                     *)
Definition lru_put (mx : nat) (st : lru) (k v : nat) : lru * out :=
  let d := l_dict st in
  let q := l_queue st in
  if amem k d then
    if qmem k q then (mkLru (aset k v d) (qremove k q ++ [k]), ONone)
    else (st, Raised ValueError)                         (* list.remove(x): x not in list *)
  else if mx <=? length q then
    match q with
    | [] => (st, Raised IndexError)                      (* pop from empty list *)
    | h :: q' =>
        if amem h d then (mkLru (aset k v (adel h d)) (q' ++ [k]), ONone)
        else (mkLru d q', Raised KeyError)               (* dict.pop of a missing key *)
    end
  else (mkLru (aset k v d) (q ++ [k]), ONone).

(* LRUCache.put before the fix:
         dict[key] = value
         if len(queue) < max_size: queue.append(key)
         else: k = queue.pop(0); dict.pop(k); queue.append(key)                                   *)
Definition lru_put_v0 (mx : nat) (st : lru) (k v : nat) : lru * out :=
  let d := aset k v (l_dict st) in
  let q := l_queue st in
  if length q <? mx then (mkLru d (q ++ [k]), ONone)
  else match q with
       | [] => (mkLru d q, Raised IndexError)
       | h :: q' =>
           if amem h d then (mkLru (adel h d) (q' ++ [k]), ONone)
           else (mkLru d q', Raised KeyError)
       end.

(* LRUCache.get (membership test, read and queue update all under the lock after the fix; the
   sequential behaviour is the same before and after) *)
Definition lru_get (st : lru) (k : nat) : lru * out :=
  let d := l_dict st in
  let q := l_queue st in
  if negb (amem k d) then (st, ONone)
  else match aget k d with
       | None => (st, Raised KeyError)
       | Some v =>
           if qmem k q then (mkLru d (qremove k q ++ [k]), OVal v)
           else (st, Raised ValueError)
       end.

Definition lru_step_with (put : nat -> lru -> nat -> nat -> lru * out)
           {D} (mx : nat) (st : lru) (o : op D) : lru * out :=
  match o with
  | Put k v _ => put mx st k v
  | Get k => lru_get st k
  | Mem k => (st, OBool (amem k (l_dict st)))
  | Len => (st, OLen (length (l_dict st)))
  | Clear => (lru_empty, ONone)
  end.
Definition lru_step {D} := @lru_step_with lru_put D.
Definition lru_step_v0 {D} := @lru_step_with lru_put_v0 D.

(* ------------------------------------------------------------------ SimpleCache *)
Definition simple := list (nat * nat).
Definition simple_step {D} (st : simple) (o : op D) : simple * out :=
  match o with
  | Put k v _ => (aset k v st, ONone)
  | Get k => (st, match aget k st with Some v => OVal v | None => ONone end)
  | Mem k => (st, OBool (amem k st))
  | Len => (st, OLen (length st))
  | Clear => ([], ONone)
  end.

(* ------------------------------------------------------------------ HybridCache *)
(* The arithmetic on durations / scores is abstract: the correspondence check instantiates it with
   IEEE binary64 (Coq's PrimFloat, bit-exact with Python floats), the theorems hold for every instance. *)
Record arith := mkArith {
  num : Type;
  nadd : num -> num -> num;
  nmul : num -> num -> num;
  ndiv : num -> num -> num;
  nltb : num -> num -> bool;       (* Python `<` *)
  nzero : num -> bool;             (* x == 0 *)
  n0 : num;                        (* 0.0 *)
  nnat : nat -> num                (* int -> float *)
}.

Section Hybrid.
  Variable A : arith.
  Variables aw dw : num A.         (* access_weight, duration_weight *)
  Variable mx : nat.               (* max_size *)
  Variable guard : bool.           (* true: code after the fix (zero total duration handled) *)

  Record hyb := mkHyb { h_dict : list (nat * nat); h_cnt : list (nat * nat); h_dur : list (nat * num A) }.
  Definition hyb_empty : hyb := mkHyb [] [] [].

  (* min(scores, key=lambda k: scores[k]) : first minimal element under `<` *)
  Fixpoint argmin (best : nat * num A) (l : list (nat * num A)) : nat :=
    match l with
    | [] => fst best
    | (k, x) :: t => if nltb A x (snd best) then argmin (k, x) t else argmin best t
    end.

  Definition norm_counts (cnt : list (nat * nat)) : result (list (nat * num A)) :=
    let total := fold_left Nat.add (map snd cnt) 0 in
    mapM (fun kv => if total =? 0 then Err ZeroDivisionError
                    else Ok (fst kv, ndiv A (nnat A (snd kv)) (nnat A total))) cnt.

  Definition norm_durs (dur : list (nat * num A)) : result (list (nat * num A)) :=
    let total := fold_left (nadd A) (map snd dur) (n0 A) in
    mapM (fun kv => if nzero A total then (if guard then Ok (fst kv, n0 A) else Err ZeroDivisionError)
                    else Ok (fst kv, ndiv A (snd kv) total)) dur.

  Definition scores (cnt : list (nat * nat)) (nc nd : list (nat * num A)) : result (list (nat * num A)) :=
    mapM (fun kv => match aget (fst kv) nc, aget (fst kv) nd with
                    | Some c, Some d => Ok (fst kv, nadd A (nmul A aw c) (nmul A dw d))
                    | _, _ => Err KeyError
                    end) cnt.

  (* HybridCache._expire *)
  Definition hyb_expire (st : hyb) : hyb * option err :=
    match norm_counts (h_cnt st) with
    | Err e => (st, Some e)
    | Ok nc =>
        match norm_durs (h_dur st) with
        | Err e => (st, Some e)
        | Ok nd =>
            match scores (h_cnt st) nc nd with
            | Err e => (st, Some e)
            | Ok [] => (st, Some ValueError)             (* min() of an empty dict *)
            | Ok (b :: rest) =>
                let k := argmin b rest in
                if negb (amem k (h_dict st)) then (st, Some KeyError)
                else if negb (amem k (h_cnt st)) then (mkHyb (adel k (h_dict st)) (h_cnt st) (h_dur st), Some KeyError)
                else if negb (amem k (h_dur st))
                     then (mkHyb (adel k (h_dict st)) (adel k (h_cnt st)) (h_dur st), Some KeyError)
                else (mkHyb (adel k (h_dict st)) (adel k (h_cnt st)) (adel k (h_dur st)), None)
            end
        end
    end.

  Definition hyb_put (st : hyb) (k v : nat) (d : num A) : hyb * out :=
    let (st1, e) := if mx <=? length (h_dict st) then hyb_expire st else (st, None) in
    match e with
    | Some e => (st1, Raised e)
    | None => (mkHyb (aset k v (h_dict st1)) (aset k 1 (h_cnt st1)) (aset k d (h_dur st1)), ONone)
    end.

  Definition hyb_get (st : hyb) (k : nat) : hyb * out :=
    if negb (amem k (h_dict st)) then (st, ONone)
    else match aget k (h_cnt st) with
         | None => (st, Raised KeyError)
         | Some c =>
             let st1 := mkHyb (h_dict st) (aset k (c + 1) (h_cnt st)) (h_dur st) in
             match aget k (h_dict st) with
             | Some v => (st1, OVal v)
             | None => (st1, Raised KeyError)
             end
         end.

  Definition hyb_step (st : hyb) (o : op (num A)) : hyb * out :=
    match o with
    | Put k v d => hyb_put st k v d
    | Get k => hyb_get st k
    | Mem k => (st, OBool (amem k (h_dict st)))
    | Len => (st, OLen (length (h_dict st)))
    | Clear => (hyb_empty, ONone)
    end.
End Hybrid.
Arguments mkHyb {A} _ _ _.
Arguments h_dict {A} _.
Arguments h_cnt {A} _.
Arguments h_dur {A} _.
Arguments hyb_empty {A}.

(* ------------------------------------------------------------------ DiskCache *)
(* Directory = association list  key -> (value, ctime)  (one <md5(key)>.pkl per key); ctime is a logical clock
   advanced by every write.  The order of the list stands for the order in which glob() reports the files, which
   is arbitrary and - ctimes being pairwise distinct - irrelevant for `min(files, key=ctime)` (proved:
   evict_loop_ok holds for every order); the model keeps the list in order of writing (a rewritten file moves
   to the end), so that it can be compared directly with the creation-ordered specification. *)
Record disk := mkDisk {
  d_files : list (nat * (nat * nat));
  d_clock : nat;
  d_lru : lru;
  d_max : option nat
}.

Section Disk.
  Variable with_lru : bool.
  Variable lru_size : nat.
  Variable fixed : bool.           (* true: code after the fix (`files.remove(oldest_file)`) *)

  Definition disk_open (files : list (nat * (nat * nat))) (clock : nat) (m : option nat) : disk :=
    mkDisk files clock lru_empty m.

  Fixpoint argmin_t (best : nat * nat) (l : list (nat * nat)) : nat :=
    match l with
    | [] => fst best
    | (k, t) :: r => if t <? snd best then argmin_t (k, t) r else argmin_t best r
    end.

  (* for _ in range(n): oldest = min(fl, key=ctime); oldest.unlink(); [fl.remove(oldest)] *)
  Fixpoint evict_loop (n : nat) (fl : list nat) (files : list (nat * (nat * nat)))
    : list (nat * (nat * nat)) * option err :=
    match n with
    | 0 => (files, None)
    | S n' =>
        match mapM (fun k => match aget k files with
                             | Some vt => Ok (k, snd vt)
                             | None => Err FileNotFoundError          (* f.stat() of a deleted file *)
                             end) fl with
        | Err e => (files, Some e)
        | Ok [] => (files, Some ValueError)
        | Ok (b :: rest) =>
            let o := argmin_t b rest in
            evict_loop n' (if fixed then qremove o fl else fl) (adel o files)
        end
    end.

  Definition evict_if_needed (files : list (nat * (nat * nat))) (m : option nat)
    : list (nat * (nat * nat)) * option err :=
    match m with
    | None => (files, None)
    | Some m => evict_loop (length files - m) (map fst files) files
    end.

  Definition disk_put (st : disk) (k v : nat) : disk * out :=
    let files := adel k (d_files st) ++ [(k, (v, d_clock st))] in
    let clock := S (d_clock st) in
    let (l1, o) := if with_lru then lru_put lru_size (d_lru st) k v else (d_lru st, ONone) in
    if is_raised o then (mkDisk files clock l1 (d_max st), o)
    else let (files', e) := evict_if_needed files (d_max st) in
         (mkDisk files' clock l1 (d_max st), match e with Some e => Raised e | None => ONone end).

  Definition disk_get (st : disk) (k : nat) : disk * out :=
    if with_lru && amem k (l_dict (d_lru st)) then
      let (l1, o) := lru_get (d_lru st) k in
      (mkDisk (d_files st) (d_clock st) l1 (d_max st), o)
    else match aget k (d_files st) with
         | Some vt =>
             if with_lru then
               let (l1, o) := lru_put lru_size (d_lru st) k (fst vt) in
               (mkDisk (d_files st) (d_clock st) l1 (d_max st), if is_raised o then o else OVal (fst vt))
             else (st, OVal (fst vt))
         | None => (st, ONone)
         end.

  Definition disk_step {D} (st : disk) (o : dop D) : disk * out :=
    match o with
    | DOp (Put k v _) => disk_put st k v
    | DOp (Get k) => disk_get st k
    | DOp (Mem k) => (st, OBool ((with_lru && amem k (l_dict (d_lru st))) || amem k (d_files st)))
    | DOp Len => (st, OLen (length (d_files st)))
    | DOp Clear => (mkDisk [] (d_clock st) lru_empty (d_max st), ONone)
    | Reopen m => (disk_open (d_files st) (d_clock st) m, ONone)
    end.
End Disk.

(* ------------------------------------------------------------------ running an operation sequence *)
Section RunOps.
  Context {S O : Type}.
  Variable step : S -> O -> S * out.
  Fixpoint run_ops (st : S) (ops : list O) : list out :=
    match ops with
    | [] => []
    | o :: t => let (st', r) := step st o in r :: run_ops st' t
    end.
  Definition final (st : S) (ops : list O) : S := fold_left (fun s o => fst (step s o)) ops st.
End RunOps.
