(* C14 - abstract specifications of the four cache containers, written from the property text and the
   class docstrings, NOT from the code:
     SimpleCache : the unbounded finite map determined by the history of operations;
     LRUCache    : ONE list of (key, value), least recently used first, at most max_size long;
     HybridCache : ONE list of entries (key, value, access count, duration) in insertion order; when the
                   cache has reached max_size a put first drops the entry with the lowest score
                   access_weight * count/sum(counts) + duration_weight * duration/sum(durations);
     DiskCache   : files = ONE list of (key, value), oldest write first, at most max_size long (the oldest
                   are dropped), in front of it (optionally) an LRU of lru_cache_size entries.
   Only the type `op`/`out` and the arithmetic record are shared with Model/Caches.v. *)
From Verif Require Import Base.Prelude Model.Caches.

Definition kv := (nat * nat)%type.
Definition lookup (k : nat) (l : list kv) : option nat :=
  option_map snd (find (fun e => fst e =? k) l).
Definition without (k : nat) (l : list kv) : list kv := filter (fun e => negb (fst e =? k)) l.
Definition out_of (r : option nat) : out := match r with Some v => OVal v | None => ONone end.
Definition present (r : option nat) : bool := match r with Some _ => true | None => false end.

(* ------------------------------------------------------------------ SimpleCache: history based *)
(* hist: the operations issued so far, most recent first *)
Fixpoint latest {D} (k : nat) (hist : list (op D)) : option nat :=
  match hist with
  | [] => None
  | Put k' v _ :: t => if k' =? k then Some v else latest k t
  | Clear :: _ => None
  | _ :: t => latest k t
  end.
(* keys put since the last clear, without repetitions *)
Fixpoint live_keys {D} (hist : list (op D)) : list nat :=
  match hist with
  | [] => []
  | Put k _ _ :: t => let r := live_keys t in if existsb (Nat.eqb k) r then r else k :: r
  | Clear :: _ => []
  | _ :: t => live_keys t
  end.
Definition simple_spec_step {D} (hist : list (op D)) (o : op D) : list (op D) * out :=
  (o :: hist,
   match o with
   | Put _ _ _ => ONone
   | Get k => out_of (latest k hist)
   | Mem k => OBool (present (latest k hist))
   | Len => OLen (length (live_keys hist))
   | Clear => ONone
   end).

(* ------------------------------------------------------------------ LRUCache: recency list *)
Definition lru_spec_step {D} (mx : nat) (l : list kv) (o : op D) : list kv * out :=
  match o with
  | Put k v _ =>
      (match lookup k l with
       | Some _ => without k l ++ [(k, v)]                       (* resident: new value, most recent *)
       | None => (if mx <=? length l then tl l else l) ++ [(k, v)] (* full: the least recently used goes *)
       end, ONone)
  | Get k =>
      match lookup k l with
      | Some v => (without k l ++ [(k, v)], OVal v)               (* a hit makes the key most recent *)
      | None => (l, ONone)
      end
  | Mem k => (l, OBool (present (lookup k l)))
  | Len => (l, OLen (length l))
  | Clear => ([], ONone)
  end.

(* ------------------------------------------------------------------ HybridCache: scored entries *)
Section HybridSpec.
  Variable A : arith.
  Variables aw dw : num A.
  Variable mx : nat.

  Record entry := mkEntry { e_key : nat; e_val : nat; e_cnt : nat; e_dur : num A }.

  Definition total_cnt (l : list entry) : nat := fold_left Nat.add (map e_cnt l) 0.
  Definition total_dur (l : list entry) : num A := fold_left (nadd A) (map e_dur l) (n0 A).
  (* score of an entry relative to the current content l *)
  Definition score (l : list entry) (r : entry) : num A :=
    nadd A (nmul A aw (ndiv A (nnat A (e_cnt r)) (nnat A (total_cnt l))))
           (nmul A dw (if nzero A (total_dur l) then n0 A else ndiv A (e_dur r) (total_dur l))).
  (* the first entry whose score is lowest *)
  Fixpoint lowest (sc : entry -> num A) (best : entry) (l : list entry) : entry :=
    match l with
    | [] => best
    | r :: t => if nltb A (sc r) (sc best) then lowest sc r t else lowest sc best t
    end.
  Definition e_without (k : nat) (l : list entry) : list entry := filter (fun r => negb (e_key r =? k)) l.
  Definition e_find (k : nat) (l : list entry) : option entry := find (fun r => e_key r =? k) l.
  (* replace the entry with key k in place, or append *)
  Fixpoint upsert (r : entry) (l : list entry) : list entry :=
    match l with
    | [] => [r]
    | x :: t => if e_key x =? e_key r then r :: t else x :: upsert r t
    end.
  Definition evict_lowest (l : list entry) : list entry :=
    match l with
    | [] => []
    | b :: t => e_without (e_key (lowest (score l) b t)) l
    end.

  Definition hyb_spec_step (l : list entry) (o : op (num A)) : list entry * out :=
    match o with
    | Put k v d =>
        let l1 := if mx <=? length l then evict_lowest l else l in
        (upsert (mkEntry k v 1 d) l1, ONone)
    | Get k =>
        match e_find k l with
        | Some r => (upsert (mkEntry k (e_val r) (e_cnt r + 1) (e_dur r)) l, OVal (e_val r))
        | None => (l, ONone)
        end
    | Mem k => (l, OBool (match e_find k l with Some _ => true | None => false end))
    | Len => (l, OLen (length l))
    | Clear => ([], ONone)
    end.
End HybridSpec.
Arguments mkEntry {A} _ _ _ _.
Arguments e_key {A} _.
Arguments e_val {A} _.
Arguments e_cnt {A} _.
Arguments e_dur {A} _.

(* ------------------------------------------------------------------ DiskCache: creation-ordered files + LRU front *)
Record disk_spec := mkDS { s_files : list kv;      (* oldest write first *)
                           s_front : list kv;      (* in-memory LRU, least recently used first *)
                           s_max : option nat }.

Section DiskSpec.
  Variable with_lru : bool.
  Variable lru_size : nat.

  Definition front_put (l : list kv) (k v : nat) : list kv :=
    if with_lru then fst (@lru_spec_step unit lru_size l (Put k v tt)) else l.
  Definition bound (m : option nat) (files : list kv) : list kv :=
    match m with None => files | Some m => skipn (length files - m) files end.

  Definition disk_spec_step {D} (st : disk_spec) (o : dop D) : disk_spec * out :=
    match o with
    | DOp (Put k v _) =>
        (mkDS (bound (s_max st) (without k (s_files st) ++ [(k, v)])) (front_put (s_front st) k v) (s_max st), ONone)
    | DOp (Get k) =>
        match (if with_lru then lookup k (s_front st) else None) with
        | Some v => (mkDS (s_files st) (without k (s_front st) ++ [(k, v)]) (s_max st), OVal v)
        | None =>
            match lookup k (s_files st) with
            | Some v => (mkDS (s_files st) (front_put (s_front st) k v) (s_max st), OVal v)
            | None => (st, ONone)
            end
        end
    | DOp (Mem k) =>
        (st, OBool ((with_lru && present (lookup k (s_front st))) || present (lookup k (s_files st))))
    | DOp Len => (st, OLen (length (s_files st)))
    | DOp Clear => (mkDS [] [] (s_max st), ONone)
    | Reopen m => (mkDS (s_files st) [] m, ONone)
    end.
End DiskSpec.
