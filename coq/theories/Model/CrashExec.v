(* Pipeline.map with an executor whose futures complete OUT OF ORDER, interrupted by a raising user function.
   The harness passes (public `executor=` argument) an executor that queues every submit and, when the first result is
   demanded, runs the whole queue in REVERSE submission order: the elements behind a failing element have finished
   (and, for storages with dump_in_subprocess, are stored) when the failure is collected.
   Mirrors _maybe_parallel_map (executor branch), _maybe_execute_single, _process_generation, _process_task and
   _keep_completed_elements: results are collected in submission order; at the first failing element the PREFIX in
   front of it is dumped on the parent side (only that reaches a DictArray), then the exception propagates; the
   functions of the generation behind the failing one are not processed.  A generation in which nothing raises ends
   exactly like the sequential one (only the order of the calls differs, which is not observed).  Definitions only. *)
From Verif Require Import Base.Prelude Base.StrUtil Base.Index Base.NdArr Base.PyRange Base.StrSeq
  Model.MapSpec Model.MapSpecSpec Model.MapRun Model.SymBody Model.MapResume Model.CrashFS.

Section WithBody.
  Variable body : mfunc -> env -> result (list val).

  (* what was submitted for one function of the generation, with what each future holds after the queue has run *)
  Inductive etask :=
  | EMapped (f : mfunc) (results : list (nat * res mstate))        (* per missing element, in submission order *)
  | ESingle (f : mfunc) (r : res (list val * list action)).

  Definition elem_trace (r : res mstate) : list action :=
    match r with ROk st => m_tr st | RErr _ tr => tr end.

  (* _submit_func with an executor: nothing runs yet; every element is computed from the store as it was at submit time *)
  Definition submit_exec (c : ctx) (ps : pstate) (f : mfunc) : res etask :=
    rdo kw <- lift (p_tr ps) (func_kwargs_sel c (p_store ps) f);
    if is_mapped f then
      match fspec f with
      | Some ms =>
          rdo sm <- lift (p_tr ps) (shape_of c f);
          let sh := fst sm in
          let mask := snd sm in
          let n := prod (ext_of mask sh) in
          let stores := stores_of (p_store ps) f n in
          rdo fm <- lift (p_tr ps) (mask_fixed_axes None ms sh mask);
          let missing := snd (classify stores fm n) in
          ROk (EMapped f (map (fun i => (i, compute_elem body f ms kw sh mask
                                              {| m_stores := stores; m_results := []; m_tr := [] |} i)) missing))
      | None => RErr AssertionError (p_tr ps)
      end
    else ROk (ESingle f (execute_single body f kw (p_store ps) [])).

  (* the calls (and worker-side dumps) of the queue, run in reverse submission order *)
  Definition etask_trace (t : etask) : list action :=
    match t with
    | EMapped _ results => flat_map (fun ir => elem_trace (snd ir)) (rev results)
    | ESingle _ (ROk r) => snd r
    | ESingle _ (RErr _ tr) => tr
    end.

  (* the successful results in front of the first failing one, and that failure *)
  Fixpoint ok_prefix (results : list (nat * res mstate)) : list mstate * option err :=
    match results with
    | [] => ([], None)
    | (_, ROk st) :: rest => let r := ok_prefix rest in (st :: fst r, snd r)
    | (_, RErr e _) :: _ => ([], Some e)
    end.

  (* _process_generation: in order; returns the failure and what the DictArrays hold at that moment *)
  Fixpoint process_exec (c : ctx) (ps : pstate) (tasks : list etask) : res pstate * rstore :=
    match tasks with
    | [] => (ROk ps, p_store ps)
    | EMapped f results :: rest =>
        let pe := ok_prefix results in
        (* _keep_completed_elements (failure) / _output_from_mapspec_task (all succeeded): parent-side dump *)
        let store' := replay_dumps c (flat_map m_tr (fst pe)) (p_store ps) in
        match snd pe with
        | Some e => (RErr e (p_tr ps), store')
        | None => process_exec c {| p_store := store'; p_out := p_out ps; p_tr := p_tr ps |} rest
        end
    | ESingle f (RErr e _) :: _ => (RErr e (p_tr ps), p_store ps)
    | ESingle f (ROk r) :: rest =>
        let d := dump_single f (fst r) (p_store ps) (p_tr ps) in
        process_exec c {| p_store := fst d; p_out := p_out ps; p_tr := snd d |} rest
    end.

  (* one generation; the store is what the memory-based storages hold on the parent side *)
  Definition run_generation_exec (c : ctx) (ps : pstate) (gen : list mfunc) : res pstate * rstore :=
    match run_generation_track body c ps gen with
    | (ROk ps', _) => (ROk ps', p_store ps')
    | (RErr e0 tr0, _) =>
        match fold_left (fun acc f => rdo ts <- acc; rdo t <- submit_exec c ps f; ROk (ts ++ [t])) gen (ROk []) with
        | RErr e tr => (RErr e tr, p_store ps)
        | ROk tasks =>
            let tr := p_tr ps ++ flat_map etask_trace (rev tasks) in
            match process_exec c {| p_store := p_store ps; p_out := p_out ps; p_tr := tr |} tasks with
            | (ROk _, _) => (RErr e0 tr0, p_store ps)      (* not reachable: the sequential generation failed *)
            | r => r
            end
        end
    end.

  Fixpoint run_gens_exec (c : ctx) (gens : list (list mfunc)) (ps : pstate) : res pstate * rstore :=
    match gens with
    | [] => (ROk ps, p_store ps)
    | gen :: rest =>
        match run_generation_exec c ps gen with
        | (ROk ps', _) => run_gens_exec c rest ps'
        | r => r
        end
    end.

  (* Pipeline.map(inputs, run_folder, storage=st, cleanup=cleanup, executor=<reverse-order executor>) on s0 *)
  Definition run_fs_exec (v : variant) (st : storage) (p : list mfunc) (inputs : env) (user : shape_dict)
             (cleanup : bool) (s0 : fs) : outcome :=
    let fail (x : em) (e : err) := {| o_fs := fst x; o_events := snd x; o_result := Err e |} in
    let x0 : em := (s0, []) in
    match all_shapes user inputs p with
    | Err e => fail x0 e
    | Ok shapes =>
        let c := {| x_p := p; x_inputs := inputs; x_shapes := shapes |} in
        let names := map fst inputs in
        match (if cleanup then Ok (emit x0 [Rmtree p_root]) else gate v names x0) with
        | Err e => fail x0 e
        | Ok x1 =>
            let x2 := write_run_info v names x1 in
            match init_store v st c x2 with
            | Err e => fail x2 e
            | Ok (x3, rs) =>
                match run_gens_exec c (generations p) {| p_store := rs; p_out := []; p_tr := [] |} with
                | (RErr e tr, held_parent) =>
                    (* a shared_memory_dict holds every element dumped by a worker; a dict only the parent-side dumps *)
                    let held := match st with ShmSt => replay_dumps c tr rs | _ => held_parent end in
                    fail (persist_all v st c held (fold_left (action_events v st) tr x3)) e
                | (ROk ps, _) =>
                    let x4 := fold_left (action_events v st) (p_tr ps) x3 in
                    let x5 := persist_all v st c (p_store ps) x4 in
                    {| o_fs := fst x5; o_events := snd x5; o_result := Ok (p_out ps) |}
                end
            end
        end
    end.
End WithBody.
