(* A run of Pipeline.map into a run folder as a list of file-system events; crashes as prefixes of that list;
   resuming as a run (cleanup=False) started from the crashed file system.
   Mirrors: pipefunc/_utils.py dump, pipefunc/map/_run_info.py (RunInfo.__post_init__, dump, load,
   _compare_to_previous_run_info, init_store), the storages' __init__/dump/persist/load, and – through
   Model/MapResume.v – the run itself.  Two code variants are modelled:
     OldCode : in-place writes (open('wb'); write; close), run_info.json written before the inputs,
               DictArray.load reads the file whenever the folder exists        (the code before the repair)
     NewCode : write to a temporary file + os.replace, run_info.json written last,
               DictArray.load reads the file only when it exists               (the repaired code)
   Definitions only. *)
From Verif Require Import Base.Prelude Base.StrUtil Base.Index Base.NdArr Base.PyRange Base.StrSeq
  Model.MapSpec Model.MapSpecSpec Model.MapRun Model.SymBody Model.MapResume.

Inductive variant := OldCode | NewCode.
(* ShmSt = shared_memory_dict: a DictArray whose elements are dumped by the submit phase (dump_in_subprocess) *)
Inductive storage := FileSt | DictSt | ShmSt.
Definition in_memory (st : storage) : bool := match st with FileSt => false | _ => true end.

Definition path := str.
(* what a complete file holds *)
Inductive payload :=
| PVal (v : val)            (* a pickled value (element, single output) *)
| PDict (cells : estore)    (* dict_array.cloudpickle: the whole dict *)
| PMeta.                    (* run_info.json, inputs/*, defaults/*: only completeness matters here *)
Inductive content := Partial | Complete (c : payload).

Record fs := { files : list (path * content); dirs : list path }.
Definition empty_fs : fs := {| files := []; dirs := [] |}.

Inductive event :=
| Mkdir (p : path)
| Create (p : path)                 (* open for writing: the file exists and is empty *)
| Append (p : path) (c : payload)   (* all bytes written (a torn write dies before this event completes) *)
| Close (p : path)
| Replace (tmp p : path)            (* os.replace(tmp, p) *)
| Rmtree (p : path)
| Call (line : str).                (* a user function is entered (also the entry of a call that raises) *)

Fixpoint remove_key {V} (d : list (str * V)) (k : str) : list (str * V) :=
  match d with
  | [] => []
  | (k', v) :: t => if str_eqb k k' then remove_key t k else (k', v) :: remove_key t k
  end.

Definition apply_ev (s0 : fs) (e : event) : fs :=
  match e with
  | Mkdir p => {| files := files s0; dirs := if mem_str p (dirs s0) then dirs s0 else dirs s0 ++ [p] |}
  | Create p => {| files := dict_set (files s0) p Partial; dirs := dirs s0 |}
  | Append p c => {| files := dict_set (files s0) p (Complete c); dirs := dirs s0 |}
  | Close _ => s0
  | Replace tmp p =>
      match dict_get (files s0) tmp with
      | Some c => {| files := dict_set (remove_key (files s0) tmp) p c; dirs := dirs s0 |}
      | None => s0
      end
  | Rmtree _ => empty_fs             (* only ever applied to the run folder itself *)
  | Call _ => s0
  end.
Definition apply_evs (s0 : fs) (l : list event) : fs := fold_left apply_ev l s0.

(* a crash after k events *)
Definition crash (evs : list event) (k : nat) (s0 : fs) : fs := apply_evs s0 (firstn k evs).

(* ---------------------------------------------------------------- paths *)
Definition p_root : path := s ".".
Definition p_info : path := s "run_info.json".
Definition p_inputs : path := s "inputs".
Definition p_input (n : str) : path := s "inputs/" ++ n ++ s ".cloudpickle".
Definition p_defaults_dir : path := s "defaults".
Definition p_defaults : path := s "defaults/defaults.cloudpickle".
Definition p_outputs : path := s "outputs".
Definition p_outdir (o : str) : path := s "outputs/" ++ o.
Definition p_elem (o : str) (i : nat) : path := s "outputs/" ++ o ++ s "/__" ++ dec i ++ s "__.pickle".
Definition p_single (o : str) : path := s "outputs/" ++ o ++ s ".cloudpickle".
Definition p_dict (o : str) : path := s "outputs/" ++ o ++ s "/dict_array.cloudpickle".
Definition p_tmp (p : path) : path := s "tmp:" ++ p.
(* temporary files are recognised by their name *)
Definition is_tmp (p : path) : bool :=
  match p with
  | "t"%char :: "m"%char :: "p"%char :: ":"%char :: _ => true
  | _ => false
  end.

(* ---------------------------------------------------------------- writing *)
(* a state of the emission: the file system so far and the events so far *)
Definition em := (fs * list event)%type.
Definition emit (x : em) (l : list event) : em := (apply_evs (fst x) l, snd x ++ l).

(* Path.mkdir(parents=True, exist_ok=True) for a chain of directories (outermost first) *)
Definition mkdir_p (x : em) (chain : list path) : em :=
  fold_left (fun acc d => if mem_str d (dirs (fst acc)) then acc else emit acc [Mkdir d]) chain x.

Definition write_events (v : variant) (p : path) (c : payload) : list event :=
  match v with
  | OldCode => [Create p; Append p c; Close p]
  | NewCode => [Create (p_tmp p); Append (p_tmp p) c; Close (p_tmp p); Replace (p_tmp p) p]
  end.

(* pipefunc._utils.dump(obj, path): parent.mkdir(parents, exist_ok); write *)
Definition dump_file (v : variant) (x : em) (chain : list path) (p : path) (c : payload) : em :=
  emit (mkdir_p x chain) (write_events v p c).

(* RunInfo.__post_init__ *)
Definition write_run_info (v : variant) (input_names : list str) (x : em) : em :=
  let info y := dump_file v y [p_root] p_info PMeta in
  let rest y :=
    let y1 := fold_left (fun acc n => dump_file v acc [p_root; p_inputs] (p_input n) PMeta) input_names y in
    dump_file v y1 [p_root; p_defaults_dir] p_defaults PMeta in
  match v with
  | OldCode => rest (info x)
  | NewCode => info (rest x)
  end.

Definition is_complete (s0 : fs) (p : path) : bool :=
  match dict_get (files s0) p with Some (Complete _) => true | _ => false end.
Definition is_file (s0 : fs) (p : path) : bool :=
  match dict_get (files s0) p with Some _ => true | None => false end.

(* _compare_to_previous_run_info: no previous run_info.json -> nothing to compare;
   otherwise RunInfo.load must succeed (run_info.json, every input, the defaults), which re-dumps them *)
Definition gate (v : variant) (input_names : list str) (x : em) : result em :=
  if negb (is_file (fst x) p_info) then Ok x
  else if is_complete (fst x) p_info
          && forallb (fun n => is_complete (fst x) (p_input n)) input_names
          && is_complete (fst x) p_defaults
       then Ok (write_run_info v input_names x)
       else Err ValueError.

(* ---------------------------------------------------------------- reading the store back *)
Definition cell_of (s0 : fs) (p : path) : cell :=
  match dict_get (files s0) p with
  | None => None
  | Some Partial => Some (Err OtherError)
  | Some (Complete (PVal v)) => Some (Ok v)
  | Some (Complete _) => Some (Err OtherError)
  end.

(* DictArray.load *)
Definition load_dict (v : variant) (s0 : fs) (o : str) (n : nat) : result estore :=
  let present := match v with
                 | OldCode => mem_str (p_outdir o) (dirs s0)
                 | NewCode => is_file s0 (p_dict o)
                 end in
  if negb present then Ok (repeat None n)
  else match dict_get (files s0) (p_dict o) with
       | None => Err FileNotFoundError
       | Some Partial => Err OtherError
       | Some (Complete (PDict cells)) => Ok cells
       | Some (Complete _) => Err OtherError
       end.

Definition mapped_outputs (c : ctx) : result (list (str * nat)) :=
  do l <- mapM (fun f => if is_mapped f
                         then do sm <- shape_of c f;
                              Ok (map (fun o => (o, prod (ext_of (snd sm) (fst sm)))) (fouts f))
                         else Ok []) (x_p c);
  Ok (concat l).
Definition single_outputs (c : ctx) : list str :=
  flat_map (fun f => if is_mapped f then [] else fouts f) (x_p c).

(* every real (non-temporary) file a run of the pipeline writes, by what it is for *)
Inductive rpath :=
| RInfo | RDefaults | RInput (n : str)
| RDict (o : str) | RElem (o : str) (i : nat) | RSingle (o : str).
Definition path_of (r : rpath) : path :=
  match r with
  | RInfo => p_info | RDefaults => p_defaults | RInput n => p_input n
  | RDict o => p_dict o | RElem o i => p_elem o i | RSingle o => p_single o
  end.
Definition all_rpaths (mo : list (str * nat)) (singles names : list str) : list rpath :=
  RInfo :: RDefaults :: map RInput names
  ++ flat_map (fun on : str * nat => RDict (fst on) :: map (RElem (fst on)) (seq 0 (snd on))) mo
  ++ map RSingle singles.
(* distinct files have distinct names (true when input and output names are identifiers; decidable, so it can be
   evaluated for any concrete pipeline) *)
Definition paths_ok (c : ctx) (names : list str) : bool :=
  match mapped_outputs c with
  | Ok mo => nodup_str (map path_of (all_rpaths mo (single_outputs c) names))
  | Err _ => false
  end.

(* RunInfo.init_store: FileArray(...) creates its folder; DictArray(...) loads what was persisted *)
Definition init_step (v : variant) (st : storage) (acc : result (em * list (str * estore))) (on : str * nat)
  : result (em * list (str * estore)) :=
  do xa <- acc;
  let '(y, arrs) := xa in
  if in_memory st then
      do cells <- load_dict v (fst y) (fst on) (snd on);
      Ok (y, arrs ++ [(fst on, cells)])
  else
      let y' := mkdir_p y [p_root; p_outputs; p_outdir (fst on)] in
      Ok (y', arrs ++ [(fst on, map (fun i => cell_of (fst y') (p_elem (fst on) i)) (seq 0 (snd on)))]).

Definition init_store (v : variant) (st : storage) (c : ctx) (x : em) : result (em * rstore) :=
  do mo <- mapped_outputs c;
  do r <- fold_left (init_step v st) mo (Ok (x, []));
  let '(y, arrs) := r in
  Ok (y, {| st_arr := arrs;
            st_val := flat_map (fun o => match cell_of (fst y) (p_single o) with
                                         | Some r0 => [(o, r0)]
                                         | None => [] end) (single_outputs c) |}).

(* the events of the run proper, from the trace of Model/MapResume.v *)
Definition action_events (v : variant) (st : storage) (x : em) (a : action) : em :=
  match a with
  | ACall f _ kw => emit x [Call (f ++ s "(" ++ join (s ",") (map (fun pv => fst pv ++ s "=" ++ canon (snd pv)) kw) ++ s ")")]
  | ADump o i val =>
      if in_memory st then x
      else dump_file v x [p_root; p_outputs; p_outdir o] (p_elem o i) (PVal val)
  | ADumpSingle o val => dump_file v x [p_root; p_outputs] (p_single o) (PVal val)
  end.

(* _maybe_persist_memory: DictArray.persist for every mapped output *)
Definition persist_all (v : variant) (st : storage) (c : ctx) (rs : rstore) (x : em) : em :=
  match in_memory st, mapped_outputs c with
  | true, Ok mo =>
      fold_left (fun acc on =>
                   dump_file v acc [p_root; p_outputs; p_outdir (fst on)] (p_dict (fst on))
                             (PDict (get_arr rs (fst on) (snd on)))) mo x
  | _, _ => x
  end.

(* what a memory-based storage with dump_in_subprocess holds after the actions tr *)
Definition replay_dumps (c : ctx) (tr : list action) (rs : rstore) : rstore :=
  let sizes := match mapped_outputs c with Ok mo => mo | Err _ => [] end in
  fold_left (fun r a => match a with
                        | ADump o i v =>
                            let n := match dict_get sizes o with Some n => n | None => 0 end in
                            set_arr r o (upd (get_arr r o n) i (Some (Ok v)))
                        | _ => r end) tr rs.

Section WithBody.
  Variable body : mfunc -> env -> result (list val).

  Record outcome := { o_fs : fs; o_events : list event; o_result : result (list (str * val)) }.

  (* _submit_generation on the sequential path (pipefunc commit "keep the results that completed before a function
     raised during map"): the functions of a generation run in order; when one raises, the functions that ran before
     it are post-processed (_process_generation: their single outputs are written, their elements reach the
     DictArrays) before the exception propagates, and the elements of the failing function that were computed before
     the failing one are dumped by _keep_completed_elements.  An exception raised by that post-processing replaces
     the original one. *)
  Fixpoint submit_gen_track (c : ctx) (ps : pstate) (ts : list task) (gen : list mfunc) : res (pstate * list task) :=
    match gen with
    | [] => ROk (ps, ts)
    | f :: rest =>
        match submit_func body c None ps f with
        | ROk r => submit_gen_track c (fst r) (ts ++ [snd r]) rest
        | RErr e tr =>
            match fold_left (fun acc t => rdo ps' <- acc; process_task ps' t) ts
                            (ROk {| p_store := p_store ps; p_out := p_out ps; p_tr := tr |}) with
            | ROk ps' => RErr e (p_tr ps')
            | RErr e' tr' => RErr e' tr'
            end
        end
    end.

  (* _run_and_process_generation; the flag tells whether the failure happened while submitting (then every element
     computed so far has reached its storage, also a DictArray) *)
  Definition run_generation_track (c : ctx) (ps : pstate) (gen : list mfunc) : res pstate * bool :=
    match submit_gen_track c ps [] gen with
    | RErr e tr => (RErr e tr, true)
    | ROk r => (fold_left (fun acc t => rdo ps' <- acc; process_task ps' t) (snd r) (ROk (fst r)), false)
    end.

  (* the generations of run_map, keeping what the memory-based storages hold when a generation fails:
     None = every element dumped so far (failure while submitting, see above); Some rs = the store rs: a DictArray
     receives its elements in _process_task, and a failure inside the process phase of a complete generation is
     approximated by "none of this generation's elements are in it" (no such failure is generated by the harness) *)
  Fixpoint run_gens_track (c : ctx) (gens : list (list mfunc)) (ps : pstate) : res pstate * option rstore :=
    match gens with
    | [] => (ROk ps, Some (p_store ps))
    | gen :: rest =>
        match run_generation_track c ps gen with
        | (ROk ps', _) => run_gens_track c rest ps'
        | (RErr e tr, true) => (RErr e tr, None)
        | (RErr e tr, false) => (RErr e tr, Some (p_store ps))
        end
    end.

  (* Pipeline.map(inputs, run_folder, storage=st, cleanup=cleanup) on the file system s0 *)
  Definition run_fs (v : variant) (st : storage) (p : list mfunc) (inputs : env) (user : shape_dict)
             (cleanup : bool) (s0 : fs) : outcome :=
    let fail (x : em) (e : err) := {| o_fs := fst x; o_events := snd x; o_result := Err e |} in
    let x0 : em := (s0, []) in
    match all_shapes user inputs p with
    | Err e => fail x0 e
    | Ok shapes =>
        let c := {| x_p := p; x_inputs := inputs; x_shapes := shapes |} in
        let names := map fst inputs in
        match (if cleanup then Ok (emit x0 [Rmtree p_root]) else gate v names x0) with
        | Err e => fail x0 e
        | Ok x1 =>
            let x2 := write_run_info v names x1 in
            match init_store v st c x2 with
            | Err e => fail x2 e
            | Ok (x3, rs) =>
                (* = map_run_sel body p inputs user None rs (no request: nothing to validate; shapes known) *)
                match run_gens_track c (generations p) {| p_store := rs; p_out := []; p_tr := [] |} with
                | (RErr e tr, rs_fail) =>
                    (* run_map's `finally`: the memory-based storages are persisted also when the run fails;
                       a shared_memory_dict already holds every element dumped so far *)
                    let held := match st, rs_fail with
                                | ShmSt, _ | _, None => replay_dumps c tr rs
                                | _, Some r => r
                                end in
                    fail (persist_all v st c held (fold_left (action_events v st) tr x3)) e
                | (ROk ps, _) =>
                    let x4 := fold_left (action_events v st) (p_tr ps) x3 in
                    let x5 := persist_all v st c (p_store ps) x4 in
                    {| o_fs := fst x5; o_events := snd x5; o_result := Ok (p_out ps) |}
                end
            end
        end
    end.

  (* first run with cleanup=True on s0, killed after k1 events; resumed with cleanup=False (optionally killed again
     after k2 events and resumed once more) *)
  Definition crash_then_resume (v : variant) (st : storage) (p : list mfunc) (inputs : env) (user : shape_dict)
             (k1 : nat) (k2 : option nat) : fs * outcome :=
    let r1 := run_fs v st p inputs user true empty_fs in
    let s1 := crash (o_events r1) k1 empty_fs in
    match k2 with
    | None => (s1, run_fs v st p inputs user false s1)
    | Some k =>
        let r2 := run_fs v st p inputs user false s1 in
        let s2 := crash (o_events r2) k s1 in
        (s2, run_fs v st p inputs user false s2)
    end.
End WithBody.
