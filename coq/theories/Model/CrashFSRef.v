(* Reference pipelines and the executable "every crash point resumes to the uninterrupted result" check used by
   the bounded theorems of Props/C05.v (finite domains decided by vm_compute).  Definitions only. *)
From Verif Require Import Base.Prelude Base.StrUtil Base.Index Base.NdArr Base.PyRange
  Model.MapSpec Model.MapRun Model.SymBody Model.MapResume Model.CrashFS.
Local Open Scope string_scope.

Definition val_eqb (a b : val) : bool :=
  match a, b with
  | VS x, VS y => str_eqb x y
  | VA x, VA y => list_eqb Nat.eqb (shp x) (shp y) && list_eqb str_eqb (dat x) (dat y)
  | _, _ => false
  end.
Definition outs_eqb (a b : list (str * val)) : bool :=
  list_eqb (fun x y => str_eqb (fst x) (fst y) && val_eqb (snd x) (snd y)) a b.
Definition res_outs_eqb (a b : result (list (str * val))) : bool :=
  match a, b with Ok x, Ok y => outs_eqb x y | _, _ => false end.

Record refpipe := { r_funcs : list mfunc; r_inputs : env; r_user : shape_dict }.

Definition asp (n : string) (ax : list (option string)) : aspec :=
  {| aname := s n; axes := map (fun a => match a with Some x => Some (s x) | None => None end) ax |}.
Definition mf (n : string) (outs params : list string) (sp : option mapspec) (ret : list nat) : mfunc :=
  {| fname := s n; fouts := map s outs; fparams := map s params; fbound := []; fdefaults := [];
     fspec := sp; fint := ret; fret := ret |}.
Definition arr1 (l : list string) : val := VA {| shp := [length l]; dat := map s l |}.

(* P1: x[i] -> y[i] ; g(y) -> t   (a mapped function and a function that consumes the whole array) *)
Definition ref1 : refpipe :=
  {| r_funcs := [mf "f" ["y"] ["x"] (Some {| ins := [asp "x" [Some "i"]]; outs := [asp "y" [Some "i"]] |}) [];
                 mf "g" ["t"] ["y"] None []];
     r_inputs := [(s "x", arr1 ["a"; "b"])]; r_user := [] |}.
(* P2: x[i] -> y[i, n], z[i, n] (two outputs, internal axis of size 2) ; y[i, :] -> w[i] (reduction) *)
Definition ref2 : refpipe :=
  {| r_funcs := [mf "f" ["y"; "z"] ["x"]
                    (Some {| ins := [asp "x" [Some "i"]]; outs := [asp "y" [Some "i"; Some "n"]; asp "z" [Some "i"; Some "n"]] |}) [2];
                 mf "h" ["w"] ["y"]
                    (Some {| ins := [asp "y" [Some "i"; None]]; outs := [asp "w" [Some "i"]] |}) []];
     r_inputs := [(s "x", arr1 ["a"; "b"])]; r_user := [] |}.
(* P3: two independent functions in one generation (one of them without inputs) and a consumer of both *)
Definition ref3 : refpipe :=
  {| r_funcs := [mf "f" ["y"] ["x"] (Some {| ins := [asp "x" [Some "i"]]; outs := [asp "y" [Some "i"]] |}) [];
                 mf "k" ["c"] [] None [];
                 mf "m" ["u"] ["y"; "c"] (Some {| ins := [asp "y" [Some "i"]]; outs := [asp "u" [Some "i"]] |}) []];
     r_inputs := [(s "x", arr1 ["a"; "b"])]; r_user := [] |}.
Definition ref_family : list refpipe := [ref1; ref2; ref3].

Definition ref_run (v : variant) (st : storage) (r : refpipe) (cleanup : bool) (s0 : fs) : outcome :=
  run_fs sym_body v st (r_funcs r) (r_inputs r) (r_user r) cleanup s0.

(* the uninterrupted first run *)
Definition ref_full (v : variant) (st : storage) (r : refpipe) : outcome := ref_run v st r true empty_fs.

(* kill the first run after k1 events; optionally kill the resume after k2 events; resume: same results as uninterrupted? *)
Definition resume_ok (v : variant) (st : storage) (r : refpipe) (k1 : nat) (k2 : option nat) : bool :=
  let full := ref_full v st r in
  let s1 := crash (o_events full) k1 empty_fs in
  let final := match k2 with
               | None => ref_run v st r false s1
               | Some k => let r2 := ref_run v st r false s1 in
                           ref_run v st r false (crash (o_events r2) k s1)
               end in
  res_outs_eqb (o_result final) (o_result full).

(* ... and the resumed run calls nothing whose element files were all complete *)
Definition n_events1 (v : variant) (st : storage) (r : refpipe) : nat := length (o_events (ref_full v st r)).
Definition n_events2 (v : variant) (st : storage) (r : refpipe) (k1 : nat) : nat :=
  length (o_events (ref_run v st r false (crash (o_events (ref_full v st r)) k1 empty_fs))).

(* every single crash point, and every pair (crash point of the first run, crash point of the first resume);
   written with shared sub-computations, equal to
     forall k1 <= n_events1, resume_ok k1 None && forall k2 <= n_events2 k1, resume_ok k1 (Some k2) *)
Definition all_crashes_ok (v : variant) (st : storage) (r : refpipe) : bool :=
  let full := ref_full v st r in
  forallb (fun k1 =>
             let s1 := crash (o_events full) k1 empty_fs in
             let r2 := ref_run v st r false s1 in
             res_outs_eqb (o_result r2) (o_result full)
             && forallb (fun k2 => res_outs_eqb (o_result (ref_run v st r false (crash (o_events r2) k2 s1))) (o_result full))
                        (seq 0 (S (length (o_events r2)))))
          (seq 0 (S (length (o_events full)))).
