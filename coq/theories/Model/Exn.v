(* Model/Exn.v - exceptions of user code as terms (shared by Model/Failing.v and Model/FailingMap.v).
   The Prelude `err` enum (exception classes the LIBRARY raises) is too coarse for "same type and message":
   a user exception is a term carrying its class name and the str() of every element of e.args. *)
From Verif Require Import Base.Prelude.

(* an exception object: class name and str() of every element of e.args *)
Record exn := { cls : str; eargs : list str }.
Definition exn_eqb (a b : exn) : bool := str_eqb (cls a) (cls b) && list_eqb str_eqb (eargs a) (eargs b).

(* what user code does: return or raise *)
Inductive outcome (A : Type) := Done (a : A) | Raised (e : exn).
Arguments Done {A} a.
Arguments Raised {A} e.

(* what the library call does: return, propagate a user exception (with the note added by handle_error), or raise
   an exception of its own *)
Inductive fres (A N : Type) := FOk (a : A) | FRaised (e : exn) (note : N) | FErr (e : err).
Arguments FOk {A N} a.
Arguments FRaised {A N} e note.
Arguments FErr {A N} e.

Fixpoint last_opt {A} (l : list A) : option A :=
  match l with [] => None | [x] => Some x | _ :: t => last_opt t end.

