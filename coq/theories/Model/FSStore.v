(* The run folder as a finite map  path |-> content, what a finished Pipeline.map leaves in it, and the readers:
   RunInfo.load (incl. the re-dump done by __post_init__), RunInfo.init_store / _init_arrays, FileArray.to_array,
   DictArray.persist / load / to_array (also used by SharedMemoryDictArray), _maybe_persist_memory, _load_from_store,
   load_outputs.  A fresh process = the same files, no live manager process.  Definitions only. *)
From Verif Require Import Base.Prelude Base.StrUtil Base.Index Base.NdArr Model.MapSpec Model.MapRun Model.SymBody
  Model.RunInfoCodec.

(* ---------- paths ---------- *)
(* The files pipefunc creates below <run_folder>; `path_rel` gives the real relative name. *)
Inductive path :=
| PRunInfo                      (* run_info.json *)
| PInput (n : str)              (* inputs/<n>.cloudpickle *)
| PDefaults                     (* defaults/defaults.cloudpickle *)
| PSingle (o : str)             (* outputs/<o>.cloudpickle      (_output_path) *)
| PArrDir (o : str)             (* outputs/<o>/                 (_maybe_array_path) *)
| PElem (o : str) (i : nat)     (* outputs/<o>/__<i>__.pickle   (FileArray._index_to_file) *)
| PDictFile (o : str).          (* outputs/<o>/dict_array.cloudpickle (DictArray._path) *)

Definition path_eqb (a b : path) : bool :=
  match a, b with
  | PRunInfo, PRunInfo | PDefaults, PDefaults => true
  | PInput x, PInput y | PSingle x, PSingle y | PArrDir x, PArrDir y | PDictFile x, PDictFile y => str_eqb x y
  | PElem x i, PElem y j => str_eqb x y && (i =? j)
  | _, _ => false
  end.

Definition path_rel (p : path) : str :=
  match p with
  | PRunInfo => s "run_info.json"
  | PInput n => s "inputs/" ++ n ++ s ".cloudpickle"
  | PDefaults => s "defaults/defaults.cloudpickle"
  | PSingle o => s "outputs/" ++ o ++ s ".cloudpickle"
  | PArrDir o => s "outputs/" ++ o
  | PElem o i => s "outputs/" ++ o ++ s "/__" ++ dec i ++ s "__.pickle"
  | PDictFile o => s "outputs/" ++ o ++ s "/dict_array.cloudpickle"
  end.
Definition path_str (root : str) (p : path) : str := root ++ s "/" ++ path_rel p.

(* the path strings recorded in run_info.json (input_paths, defaults_path) are opened as they are *)
Fixpoint strip_prefix (p x : str) : option str :=
  match p, x with
  | [], _ => Some x
  | a :: p', b :: x' => if Ascii.eqb a b then strip_prefix p' x' else None
  | _ :: _, [] => None
  end.
Definition strip_suffix (suf x : str) : option str :=
  match strip_prefix (rev suf) (rev x) with Some r => Some (rev r) | None => None end.
Definition parse_path (root x : str) : option path :=
  match strip_prefix (root ++ s "/") x with
  | None => None
  | Some rel =>
      if str_eqb rel (s "defaults/defaults.cloudpickle") then Some PDefaults
      else match strip_prefix (s "inputs/") rel with
           | Some r => match strip_suffix (s ".cloudpickle") r with
                       | Some n => if mem_char "/"%char n then None else Some (PInput n)
                       | None => None
                       end
           | None => None
           end
  end.

(* ---------- contents ---------- *)
(* what cloudpickle stores (assumed to round-trip): a value, a dict name -> value (defaults),
   a dict external key -> value (DictArray._dict) *)
Inductive pyv := PVal (v : val) | PEnv (e : env) | PDict (d : list (list nat * val)).
Inductive content :=
| Pickled (p : pyv)
| Json (j : json)
| ProxyHandle (id : nat)   (* a pickled multiprocessing DictProxy: only the address of manager process `id` *)
| Dir.

Definition files := list (path * content).
Record world := {
  w_root : str;                                     (* the run folder *)
  w_files : files;
  w_live : list (nat * list (list nat * val))       (* manager processes alive in this interpreter, with their dict *)
}.

Fixpoint fs_get (f : files) (p : path) : option content :=
  match f with
  | [] => None
  | (q, c) :: t => if path_eqb p q then Some c else fs_get t p
  end.
(* open(path, "w"/"wb"): overwrite or create *)
Fixpoint fs_set (f : files) (p : path) (c : content) : files :=
  match f with
  | [] => [(p, c)]
  | (q, d) :: t => if path_eqb p q then (q, c) :: t else (q, d) :: fs_set t p c
  end.
Definition with_files (w : world) (f : files) : world :=
  {| w_root := w_root w; w_files := f; w_live := w_live w |}.
Definition write (w : world) (p : path) (c : content) : world := with_files w (fs_set (w_files w) p c).
(* folder.mkdir(parents=True, exist_ok=True) *)
Definition mkdir (w : world) (o : str) : world :=
  match fs_get (w_files w) (PArrDir o) with Some _ => w | None => write w (PArrDir o) Dir end.
(* folder.exists() *)
Definition dir_exists (w : world) (o : str) : bool :=
  existsb (fun pc => match fst pc with
                     | PArrDir o' | PElem o' _ | PDictFile o' => str_eqb o o'
                     | _ => false end) (w_files w).

(* a fresh interpreter started after the run: same files, none of the run's manager processes *)
Definition reopen (w : world) : world := {| w_root := w_root w; w_files := w_files w; w_live := [] |}.

Fixpoint live_get (l : list (nat * list (list nat * val))) (id : nat) : option (list (list nat * val)) :=
  match l with [] => None | (i, d) :: t => if i =? id then Some d else live_get t id end.

(* pipefunc._utils.load *)
Definition unpickle (w : world) (p : path) : result pyv :=
  match fs_get (w_files w) p with
  | None => Err FileNotFoundError
  | Some (Pickled v) => Ok v
  | Some (ProxyHandle id) =>
      (* rebuilding the proxy connects to the manager's socket; reads then go to the manager's dict *)
      match live_get (w_live w) id with Some d => Ok (PDict d) | None => Err FileNotFoundError end
  | Some (Json _) => Err OtherError      (* UnpicklingError *)
  | Some Dir => Err OtherError           (* IsADirectoryError *)
  end.
Definition unpickle_str (w : world) (x : str) : result pyv :=
  match parse_path (w_root w) x with
  | Some p => unpickle w p
  | None => outside_schema               (* a recorded path outside <run_folder>/inputs|defaults: not modelled *)
  end.

(* ---------- RunInfo.__post_init__ ---------- *)
(* every input, then the defaults, and LAST run_info.json: an existing run_info.json implies that the files it refers to
   are complete.  Each file is written to a temporary name and moved into place (os.replace): one atomic step here. *)
Definition post_init (w : world) (ri : run_info) (inputs : list (str * pyv)) (defaults : pyv) : world :=
  let w1 := fold_left (fun acc kv => write acc (PInput (fst kv)) (Pickled (snd kv))) inputs w in
  let w2 := write w1 PDefaults (Pickled defaults) in
  write w2 PRunInfo (Json (encode ri)).

(* ---------- RunInfo.load ---------- *)
Record loaded_info := { li_info : run_info; li_inputs : list (str * pyv); li_defaults : pyv }.

Definition runinfo_load (cur_version : str) (w : world) : result (loaded_info * world) :=
  do j <- match fs_get (w_files w) PRunInfo with
          | Some (Json j) => Ok j
          | None => Err FileNotFoundError
          | Some _ => Err OtherError        (* JSONDecodeError / IsADirectoryError *)
          end;
  do o <- jtop j;
  do p <- decode_head o;
  do inputs <- mapM (fun kv => do v <- unpickle_str w (snd kv); Ok (fst kv, v)) (p_input_paths p);
  do dp <- decode_defaults_path o;
  do dflt <- unpickle_str w dp;
  do ri <- decode_tail cur_version o p;
  (* cls(...) runs __post_init__, which writes below the *recorded* run_folder *)
  if negb (str_eqb (ri_run_folder ri) (w_root w)) then outside_schema    (* a moved folder: not modelled *)
  else Ok ({| li_info := ri; li_inputs := inputs; li_defaults := dflt |}, post_init w ri inputs dflt).

(* ---------- RunInfo.init_store ---------- *)
Inductive sitem :=
| SFileArr (o : str) (sh : list nat) (mask : list bool)
| SDictArr (o : str) (sh : list nat) (mask : list bool) (d : list (list nat * val))
| SPath (o : str).

(* name_mapping = {at_least_tuple(name): name for name in self.shapes} ; name_mapping[names] *)
Fixpoint name_mapping_get {V} (d : list (okey * V)) (names : list str) : option okey :=
  match d with
  | [] => None
  | (k, _) :: t =>
      match name_mapping_get t names with
      | Some k' => Some k'                                          (* a later entry wins *)
      | None => if list_eqb str_eqb (at_least_tuple k) names then Some k else None
      end
  end.

Definition get_or {A} (o : option A) (e : err) : result A := match o with Some a => Ok a | None => Err e end.

(* storage_class(path, external_shape, internal_shape, mask) *)
Definition init_array (w : world) (k : skind) (o : str) (sh : list nat) (mask : list bool) : result (sitem * world) :=
  if negb (length mask =? length (ext_of mask sh) + length (int_of mask sh)) then Err ValueError else
  match k with
  | FileArrayK => Ok (SFileArr o sh mask, mkdir w o)
  | DictK | SharedDictK =>
      (* DictArray.load (also for SharedMemoryDictArray): nothing to load unless dict_array.cloudpickle is a file
         (an existing folder without it is tolerated: all elements missing); otherwise self._dict = load(path),
         a plain dict since persist dumps dict(self._dict) *)
      match fs_get (w_files w) (PDictFile o) with
      | None | Some Dir => Ok (SDictArr o sh mask [], w)
      | Some _ =>
          do pv <- unpickle w (PDictFile o);
          match pv with
          | PDict d => Ok (SDictArr o sh mask d, w)
          | _ => outside_schema
          end
      end
  end.

Definition store_t := list (str * sitem).

Definition init_store (w : world) (ri : run_info) : result (store_t * world) :=
  do sw <- fold_left
      (fun acc spec =>
         do sw <- acc;
         do ms <- parse spec;                                        (* MapSpec.from_string *)
         do key <- get_or (name_mapping_get (ri_shapes ri) (map aname (outs ms))) KeyError;
         match ins ms with
         | [] => Ok sw
         | _ :: _ =>
             do sh <- get_or (odict_get (ri_shapes ri) key) KeyError;
             do mask <- get_or (odict_get (ri_shape_masks ri) key) KeyError;
             do kind <- storage_class (ri_storage ri) key;
             (* _init_arrays, then store.update(zip(mapspec.output_names, arrays)) *)
             do aw <- fold_left (fun acc2 o => do aw <- acc2;
                                              do iw <- init_array (snd aw) kind o sh mask;
                                              Ok (fst aw ++ [fst iw], snd iw))
                                (at_least_tuple key) (Ok ([], snd sw));
             Ok (fold_left (fun st na => dict_set st (fst na) (snd na)) (combine (map aname (outs ms)) (fst aw)) (fst sw),
                 snd aw)
         end)
      (ri_mapspecs ri) (Ok ([], w));
  (* every other output is a single pickle file *)
  Ok (fold_left (fun st o => match dict_get st o with Some _ => st | None => st ++ [(o, SPath o)] end)
                (ri_all_output_names ri) (fst sw), snd sw).

(* the outputs of a recorded MapSpec string that get a StorageBase (mapspec.inputs is not empty) *)
Definition mapped_outs (x : str) : list str :=
  match parse x with
  | Ok ms => match ins ms with [] => [] | _ :: _ => map aname (outs ms) end
  | Err _ => []
  end.

(* ---------- to_array ---------- *)
Definition masked_str : str := s "--".

(* np.asarray(sub_array)[internal_index]  (FileArray.to_array / __getitem__) *)
Definition file_elem (v : val) (int jj : list nat) : result str :=
  match int, v with
  | [], VS x => Ok x
  | [], VA _ => outside_schema                   (* an element that is itself an array *)
  | _ :: _, VA a => if negb (length (shp a) =? length int) then outside_schema
                    else match nd_get a jj with Some x => Ok x | None => Err IndexError end
  | _ :: _, VS _ => Err IndexError               (* too many indices for a 0-d array *)
  end.

Definition file_to_array (w : world) (o : str) (sh : list nat) (mask : list bool) : result (nd str) :=
  let ext := ext_of mask sh in
  let int := int_of mask sh in
  do d <- mapM (fun idx =>
                  let p := PElem o (ravel ext (ext_of mask idx)) in
                  match fs_get (w_files w) p with
                  | None => Ok masked_str                            (* not file.is_file() *)
                  | Some _ => do pv <- unpickle w p;
                              match pv with
                              | PVal v => file_elem v int (int_of mask idx)
                              | _ => outside_schema
                              end
                  end) (all_indices sh);
  Ok {| shp := sh; dat := d |}.

Fixpoint key_get {V} (d : list (list nat * V)) (k : list nat) : option V :=
  match d with
  | [] => None
  | (k', v) :: t => if list_eqb Nat.eqb k k' then Some v else key_get t k
  end.

(* data[full_index] = value  (DictArray.to_array) *)
Definition dict_elem (v : val) (int jj : list nat) : result str :=
  match v with
  | VS x => Ok x                                                    (* a scalar is broadcast *)
  | VA a => match int with
            | [] => outside_schema
            | _ :: _ => if negb (list_eqb Nat.eqb (shp a) int) then outside_schema   (* NumPy broadcasting rules *)
                        else match nd_get a jj with Some x => Ok x | None => Err IndexError end
            end
  end.

Definition dict_to_array (d : list (list nat * val)) (sh : list nat) (mask : list bool) : result (nd str) :=
  let ext := ext_of mask sh in
  let int := int_of mask sh in
  if negb (forallb (fun kv => in_bounds ext (fst kv)) d) then Err IndexError else
  do l <- mapM (fun idx => match key_get d (ext_of mask idx) with
                           | None => Ok masked_str
                           | Some v => dict_elem v int (int_of mask idx)
                           end) (all_indices sh);
  Ok {| shp := sh; dat := l |}.

(* ---------- load_outputs(name, run_folder=F) ---------- *)
(* the returned Python value: None when a single output's file does not exist *)
Definition load_outputs (cur_version : str) (w : world) (o : str) : result (option pyv * world) :=
  do lw <- runinfo_load cur_version w;
  do sw <- init_store (snd lw) (li_info (fst lw));
  let w' := snd sw in
  match dict_get (fst sw) o with
  | None => Err KeyError
  | Some (SPath o') =>
      match fs_get (w_files w') (PSingle o') with
      | Some Dir | None => Ok (None, w')                             (* not is_file() *)
      | Some _ => do v <- unpickle w' (PSingle o'); Ok (Some v, w')
      end
  | Some (SFileArr o' sh mask) => do a <- file_to_array w' o' sh mask; Ok (Some (PVal (VA a)), w')
  | Some (SDictArr _ sh mask d) => do a <- dict_to_array d sh mask; Ok (Some (PVal (VA a)), w')
  end.

(* ================================================================================================= *)
(* What a finished  pipeline.map(inputs, run_folder=F, storage=..., persist_memory=...)  leaves on disk. *)

(* the value stored for external key e of a full array a:  a scalar, or the internal sub-array *)
Definition sub_value (a : nd str) (mask : list bool) (e : list nat) : result val :=
  match int_of mask (shp a) with
  | [] => match nd_get a (merge mask e []) with Some x => Ok (VS x) | None => Err IndexError end
  | int => do d <- mapM (fun j => match nd_get a (merge mask e j) with Some x => Ok x | None => Err IndexError end)
                       (all_indices int);
           Ok (VA {| shp := int; dat := d |})
  end.

(* one output of a finished run *)
Inductive out_desc :=
| OMapped (o : str) (k : skind) (mask : list bool) (a : nd str)     (* a = store.to_array() at the end of the run *)
| OSingle (o : str) (v : val).
Definition od_name (d : out_desc) : str := match d with OMapped o _ _ _ => o | OSingle o _ => o end.

(* `legacy` = the protocol before the repair (repo commit 7bf0304): persist pickled the DictProxy of a
   SharedMemoryDictArray itself *)
Definition out_files (legacy persist : bool) (id : nat) (d : out_desc)
  : result (files * list (nat * list (list nat * val))) :=
  match d with
  | OSingle o v => Ok ([(PSingle o, Pickled (PVal v))], [])
  | OMapped o k mask a =>
      let ext := ext_of mask (shp a) in
      do vals <- mapM (fun e => do v <- sub_value a mask e; Ok (e, v)) (all_indices ext);
      match k with
      | FileArrayK =>
          Ok ((PArrDir o, Dir) :: map (fun ev => (PElem o (ravel ext (fst ev)), Pickled (PVal (snd ev)))) vals, [])
      | DictK =>
          Ok (if persist then [(PArrDir o, Dir); (PDictFile o, Pickled (PDict vals))] else [], [])
      | SharedDictK =>
          Ok (if persist
              then [(PArrDir o, Dir); (PDictFile o, if legacy then ProxyHandle id else Pickled (PDict vals))]
              else [], [(id, vals)])
      end
  end.

Definition world_of (legacy persist : bool) (root : str) (ri : run_info) (inputs : list (str * pyv)) (defaults : pyv)
  (outs : list out_desc) : result world :=
  let w0 := post_init {| w_root := root; w_files := []; w_live := [] |} ri inputs defaults in
  do fl <- mapM (fun nd => out_files legacy persist (fst nd) (snd nd)) (combine (seq 0 (length outs)) outs);
  Ok {| w_root := root; w_files := w_files w0 ++ flat_map fst fl; w_live := flat_map snd fl |}.

(* A run into a folder that already holds an earlier run.  cleanup=True: _cleanup_run_folder (shutil.rmtree) empties
   the folder first; the manager processes of earlier runs whose results are still referenced stay alive. *)
Definition cleanup_folder (w : world) : world := with_files w [].

Definition world_after_cleanup (w0 : world) (legacy persist : bool) (ri : run_info) (inputs : list (str * pyv))
  (defaults : pyv) (outs : list out_desc) : result world :=
  let w1 := post_init (cleanup_folder w0) ri inputs defaults in
  do fl <- mapM (fun nd => out_files legacy persist (fst nd) (snd nd)) (combine (seq 0 (length outs)) outs);
  Ok {| w_root := w_root w0; w_files := w_files w1 ++ flat_map fst fl; w_live := w_live w0 ++ flat_map snd fl |}.

(* ================================================================================================= *)
(* RunInfo.create for a map request (Model/MapRun.v) and the folder left by its run.                   *)

(* internal_shape / internal_shapes entries may be given as a bare int for one internal axis *)
Definition ishape_of (as_int : bool) (l : list nat) : ishape :=
  if as_int then match l with [n] => IInt n | _ => ITup l end else ITup l.

(* _construct_internal_shapes: the user's dict, then every function attribute whose output_name is not a key
   (a tuple output_name never is one) *)
Definition construct_internal (user : list (str * ishape)) (func_int : list str) (funcs : list mfunc)
  : option (list (str * ishape)) :=
  let d := fold_left
    (fun d f =>
       let present := match fouts f with [o] => match dict_get d o with Some _ => true | None => false end | _ => false end in
       if present then d else
       match fint f with
       | [] => d
       | sh => fold_left (fun d' o => dict_set d' o (ishape_of (mem_str (fname f) func_int) sh)) (fouts f) d
       end) funcs user in
  match d with [] => None | _ => Some d end.

Definition mapspec_names (funcs : list mfunc) : list str :=
  flat_map (fun f => match fspec f with
                     | Some ms => map aname (ins ms) ++ map aname (outs ms)
                     | None => [] end) funcs.

(* map_shapes: root arrays named in a MapSpec, then per MapSpec function its output_name (and, for a tuple
   output_name, also each component) *)
Definition create_shapes (funcs : list mfunc) (inputs : env) (shapes : shapes_t)
  : result (list (okey * (list nat * list bool))) :=
  let roots := flat_map (fun kv => match snd kv with
                                   | VA a => if mem_str (fst kv) (mapspec_names funcs)
                                             then [(KName (fst kv), (shp a, repeat true (length (shp a))))] else []
                                   | VS _ => [] end) inputs in
  do per <- mapM (fun f => match fspec f, fouts f with
                           | None, _ => Ok []
                           | Some _, [] => Err IndexError
                           | Some _, [o] => do sm <- get_or (dict_get shapes o) KeyError; Ok [(KName o, sm)]
                           | Some _, o :: _ => do sm <- get_or (dict_get shapes o) KeyError;
                                               Ok ((KTup (fouts f), sm) :: map (fun o' => (KName o', sm)) (fouts f))
                           end) funcs;
  Ok (fold_left (fun d kv => odict_set d (fst kv) (snd kv)) (roots ++ concat per) []).

(* pipeline.defaults *)
Definition pipeline_defaults (funcs : list mfunc) : env :=
  let outs := flat_map fouts funcs in
  fold_left (fun d f => fold_left (fun d' kv => if mem_str (fst kv) (map fst (fbound f)) || mem_str (fst kv) outs then d'
                                                else dict_set d' (fst kv) (snd kv)) (fdefaults f) d) funcs [].

(* _normalize_storage_keys: a 1-tuple key names the same output as the bare name (dict comprehension) *)
Definition normalize_storage (st : storage_cfg) : storage_cfg :=
  match st with
  | StUni n => StUni n
  | StDict d => StDict (fold_left (fun acc kv => odict_set acc (match fst kv with KTup [x] => KName x | k => k end) (snd kv))
                                  d [])
  end.

Definition create_run_info (root version : str) (funcs : list mfunc) (inputs : env) (user : list (str * ishape))
  (func_int : list str) (storage : storage_cfg) (shapes : shapes_t) : result run_info :=
  do sm <- create_shapes funcs inputs shapes;
  Ok {| ri_input_names := map fst inputs;
        ri_all_output_names := sort_set (flat_map fouts funcs);
        ri_shapes := map (fun kv => (fst kv, fst (snd kv))) sm;
        ri_internal_shapes := construct_internal user func_int funcs;
        ri_shape_masks := map (fun kv => (fst kv, snd (snd kv))) sm;
        ri_run_folder := root;
        ri_mapspecs := flat_map (fun f => match fspec f with Some ms => [print ms] | None => [] end) funcs;
        ri_storage := normalize_storage storage;
        ri_version := version |}.

(* the outputs of a finished run, from the final state of Model/MapRun.v *)
Definition output_key_of (f : mfunc) : okey := match fouts f with [o] => KName o | l => KTup l end.

Definition outs_of_run (funcs : list mfunc) (storage : storage_cfg) (st : run_state) : result (list out_desc) :=
  do l <- mapM (fun f =>
      mapM (fun o =>
        match find (fun x => str_eqb (fst (fst x)) o) (r_out st) with
        | None => Err KeyError
        | Some (_, _, stored) =>
            if is_mapped f then
              match stored with
              | VA a => do sm <- get_or (dict_get (r_shapes st) o) KeyError;
                        do k <- storage_class storage (output_key_of f);
                        Ok (OMapped o k (snd sm) a)
              | VS _ => Err AssertionError
              end
            else Ok (OSingle o stored)
        end) (fouts f)) funcs;
  Ok (concat l).
