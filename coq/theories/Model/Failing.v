(* Model/Failing.v - error semantics of user-function failures, part 1: exceptions as terms, and the
   pipeline(...) / Pipeline.run path on top of Model/Pipe.v.   (Part 2, Pipeline.map: Model/FailingMap.v.)

   WHAT IS MODELLED
     pipefunc/_utils.py   handle_error            : adds ONE note "func(kwargs)" and re-raises the SAME exception object
     pipefunc/_pipeline/_base.py _execute_func    : try: func( **func_args ) except: handle_error(e, func, func_args)
                                                    (func_args are keyed by the CURRENT = renamed parameter names)
     pipefunc/_pipefunc.py PipeFunc.__call__      : on an exception of the wrapped callable sets
                                                    self.error_snapshot = ErrorSnapshot(self.func, e, args=(), kwargs)
                                                    (kwargs keyed by the ORIGINAL parameter names) and re-raises
     ErrorSnapshot.reproduce                      : self.function( *args, **kwargs )   (the raw callable: no note)
     ErrorSnapshot.save_to_file / load_from_file  : cloudpickle round trip, assumed to be the identity on
                                                    (function, kwargs, exception)            [trusted, see C13 ASSUMPTIONS]
     Pipeline.error_snapshot                      : the snapshot of the first function that has one (one failing
                                                    function per fresh pipeline object here)

   DESIGN CHOICE (documented as requested): the Prelude `err` enum is too coarse for "same type and message", so an
   exception is a term `exn` and user code is an oracle  ubody : fname -> kwargs -> outcome str.  Pipe.run is REUSED
   unchanged: its oracle is instantiated with `enc ubody`, which encodes a raise as `Err OtherError`; Pipe.run keeps
   the call log also on errors and logs a call BEFORE evaluating the oracle, so the raising invocation is the last
   entry of the log and the exception term is recovered by re-asking the (deterministic) oracle.  Pipe.run itself
   never produces OtherError (it raises ValueError / KeyError / UnusedParametersError / RuntimeError), which is
   proved (Proofs/FailingFacts.v, run_out_inv), not assumed. *)
From Verif Require Import Base.Prelude Base.StrOrd Base.Graph Model.Pipe.
From Verif Require Export Model.Exn.

Definition note := (str * alist)%type.       (* (func.__name__, kwargs of that invocation) *)

Section PipeFail.
  Variable ubody : str -> alist -> outcome str.
  Variable pick : str -> str -> str.

  Definition enc : str -> alist -> result str :=
    fun f a => match ubody f a with Done v => Ok v | Raised _ => Err OtherError end.

  Definition func_named (p : pipeline) (n : str) : option pfunc := find (fun f => str_eqb (fname f) n) p.

  (* the note of handle_error in _execute_func: func.__name__ and func_args (CURRENT names, signature order);
     the call log carries the ORIGINAL names with the same values in the same order *)
  Definition note_of (p : pipeline) (c : call) : note :=
    match func_named p (fst c) with
    | Some f => (fst c, combine (pnames f) (map snd (snd c)))
    | None => (fst c, snd c)
    end.

  Definition run_f (p : pipeline) (o : str) (kw : alist) (full : bool)
    : fres Pipe.outcome note * list call :=
    let '(r, lg) := Pipe.run enc pick p o kw full in
    match r with
    | Ok v => (FOk v, lg)
    | Err OtherError =>
        match last_opt lg with
        | Some c => match ubody (fst c) (snd c) with
                    | Raised e => (FRaised e (note_of p c), lg)
                    | Done _ => (FErr OtherError, lg)
                    end
        | None => (FErr OtherError, lg)
        end
    | Err e => (FErr e, lg)
    end.

  (* ErrorSnapshot(function, exception, args=(), kwargs) of the failing PipeFunc; kwargs with ORIGINAL names *)
  Record snapshot := { sn_fname : str; sn_kwargs : alist; sn_exn : exn }.
  Definition snapshot_of (c : call) (e : exn) : snapshot :=
    {| sn_fname := fst c; sn_kwargs := snd c; sn_exn := e |}.
  Definition reproduce (sn : snapshot) : outcome str := ubody (sn_fname sn) (sn_kwargs sn).

  (* the snapshot exposed after the call (None when no user function raised) *)
  Definition run_snapshot (p : pipeline) (o : str) (kw : alist) (full : bool) : option snapshot :=
    let '(r, lg) := Pipe.run enc pick p o kw full in
    match r with
    | Err OtherError =>
        match last_opt lg with
        | Some c => match ubody (fst c) (snd c) with Raised e => Some (snapshot_of c e) | Done _ => None end
        | None => None
        end
    | _ => None
    end.
End PipeFail.

(* the structural instance used by the correspondence harness (harness/failsym.py FailSym): the invocation
   whose call string equals `tgt` raises `e`, every other invocation returns Sym.app *)
Definition fail_body (tgt : str) (e : exn) : str -> alist -> outcome str :=
  fun f a => if str_eqb (Sym.app f a) tgt then Raised e else Done (Sym.app f a).
