(* Model/FailingMap.v - error semantics of user-function failures, part 2: Pipeline.map / map_async
   (pipefunc/map/_run.py) on top of the building blocks of Model/MapRun.v.

   MapRun.map_run returns `result run_state`, i.e. it forgets the state when an error propagates.  What C13 is
   about is exactly that state (call log, stores), so the thin propagation layer is re-implemented here
   (generation loop, task loop, post-processing) while the per-element machinery is REUSED from MapRun.v /
   MapSpec.v unchanged: func_shape, func_kwargs, select_kwargs, output_key, sto_dump, sto_array.

   WHAT IS MODELLED (the code after the C13 fixes "persist memory-based storage also when the map fails" and
   "keep the results that completed before a function raised"):
     run_map / run_map_async : for gen in topological_generations: _run_and_process_generation(gen); an exception
                               leaves the loop (no later generation is submitted); _maybe_persist_memory runs in
                               any case, so every storage backend is readable from the run folder afterwards
     _submit_generation      : for func in gen: _func_kwargs (from the stores of EARLIER generations), then
       sequential (no executor): mapped function  -> [process_index(i) for i in missing]  (stops at the first raise)
                                 other function   -> _execute_single(...)                 (value kept in the task)
       with an executor       : every task of every function of the generation is submitted, all of them run
                                (the harness waits for the executor before observing: `with Executor() as ex`)
     _run_iteration_and_process(i) : _select_kwargs, call (handle_error adds the note func(selected kwargs)),
                               _pick_output, _update_array(in_post_process=False): dumps element i NOW iff the
                               storage has dump_in_subprocess (file_array, shared_memory_dict: yes; dict: no)
     _process_generation     : for func in gen (in order): Future.result() per task in submission order -- the first
                               failing task re-raises; otherwise _output_from_mapspec_task (dumps the elements of
                               storages without dump_in_subprocess) / _dump_single_output (writes the single value)
   When a task fails, the results that completed BEFORE it in submission order are still post-processed (repaired
   code, see `salvage` below): on both paths the functions listed before the failing one, and the elements of the
   failing function before the failing index.

   The order of the functions inside a generation (networkx insertion order) is an INPUT of the model
   (`gens : list (list mfunc)`); the theorems hold for every such order.

   NOT MODELLED: caches, resources, progress tracking, fixed_indices, resuming (cleanup=False), SLURM executors,
   real interleavings inside an executor (the model runs the tasks of a generation in submission order; the harness
   compares the call log as a multiset for executor runs). *)
From Verif Require Import Base.Prelude Base.StrUtil Base.Index Base.NdArr Model.MapSpec Model.MapRun.
From Verif Require Export Model.Exn.

Definition mcall := (mfunc * env)%type.                     (* one invocation of user code: function, kwargs *)

(* what is loadable for one output name *)
Inductive stored :=
| SArr (sh : list nat) (mask : list bool) (st : sto)        (* a StorageBase of a mapped function *)
| SVal (v : option val).                                    (* a single value (file / DirectValue); None = absent *)

Definition store_t := list (str * stored).

Fixpoint store_set (s : store_t) (k : str) (v : stored) : store_t :=
  match s with
  | [] => [(k, v)]
  | (k', v') :: t => if str_eqb k k' then (k', v) :: t else (k', v') :: store_set t k v
  end.

(* one unit of work of a generation *)
Record task := {
  t_f : mfunc;
  t_kw : env;                                                (* _func_kwargs of the function *)
  t_map : option (mapspec * list nat * list bool * nat)      (* mapped: spec, shape, mask, linear index *)
}.

Inductive tres :=
| TDone (outs : list val)
| TRaised (e : exn) (c : mcall)          (* the user function raised e in invocation c *)
| TErr (e : err).                        (* the library's own machinery raised *)

Definition is_done (r : tres) : bool := match r with TDone _ => true | _ => false end.

Record mstate := { m_env : env; m_store : store_t; m_log : list mcall }.

Section FMap.
  Variable ubody : mfunc -> env -> outcome (list val).
  Variable dump_sub : bool.               (* StorageBase.dump_in_subprocess of the storage backend in use *)
  Variable stop : bool.                   (* true: sequential path (no executor); false: executor *)

  (* array.dump(output_key, value) for every output of f *)
  Fixpoint dump_outs (sh : list nat) (mask : list bool) (key : list nat) (os : list str) (vs : list val)
           (s : store_t) : result store_t :=
    match os, vs with
    | o :: os', v :: vs' =>
        match dict_get s o with
        | Some (SArr sh' mask' st) =>
            do st' <- sto_dump sh mask key v st;
            dump_outs sh mask key os' vs' (store_set s o (SArr sh' mask' st'))
        | _ => Err KeyError
        end
    | _, _ => Ok s
    end.

  Definition dump_elem (t : task) (outs : list val) (s : store_t) : result store_t :=
    match t_map t with
    | Some (ms, sh, mask, i) =>
        do key <- output_key ms (ext_of mask sh) i;
        dump_outs sh mask key (fouts (t_f t)) outs s
    | None => Ok s
    end.

  (* one task: select the kwargs, enter the user function (logged), dump in the worker when the storage allows *)
  Definition exec_task (st : mstate) (t : task) : mstate * tres :=
    let f := t_f t in
    match (match t_map t with
           | Some (ms, sh, mask, i) => select_kwargs ms (t_kw t) (ext_of mask sh) i
           | None => Ok (t_kw t)
           end) with
    | Err e => (st, TErr e)
    | Ok sel =>
        let st1 := {| m_env := m_env st; m_store := m_store st; m_log := m_log st ++ [(f, sel)] |} in
        match ubody f sel with
        | Raised e => (st1, TRaised e (f, sel))
        | Done outs =>
            if negb (length outs =? length (fouts f)) then (st1, TErr ValueError)
            else if dump_sub then
              match dump_elem t outs (m_store st1) with
              | Ok s' => ({| m_env := m_env st1; m_store := s'; m_log := m_log st1 |}, TDone outs)
              | Err e => (st1, TErr e)
              end
            else (st1, TDone outs)
        end
    end.

  (* the tasks of a generation in submission order; `stop` (sequential path): nothing runs after the first failure *)
  Fixpoint exec_tasks (ts : list task) (st : mstate) : mstate * list (task * tres) :=
    match ts with
    | [] => (st, [])
    | t :: ts' =>
        let '(st1, r) := exec_task st t in
        if is_done r || negb stop then
          let '(st2, rs) := exec_tasks ts' st1 in (st2, (t, r) :: rs)
        else (st1, [(t, r)])
    end.

  Definition first_fail (rs : list (task * tres)) : option (task * tres) :=
    find (fun tr => negb (is_done (snd tr))) rs.

  (* ---------- post-processing of one function whose tasks all succeeded ---------- *)
  Definition same_func (f : mfunc) (tr : task * tres) : bool := str_eqb (fname (t_f (fst tr))) (fname f).

  Definition post_elems (rs : list (task * tres)) (s : store_t) : result store_t :=
    fold_left (fun acc tr => do s' <- acc;
                             match snd tr with TDone outs => dump_elem (fst tr) outs s' | _ => Ok s' end)
              rs (Ok s).

  (* _single_dump_single_output: `assert not isinstance(storage, StorageBase)`, then write the value *)
  Fixpoint dump_single (new : env) (s : store_t) : result store_t :=
    match new with
    | [] => Ok s
    | (o, v) :: t =>
        match dict_get s o with
        | Some (SVal _) => dump_single t (store_set s o (SVal (Some v)))
        | _ => Err AssertionError
        end
    end.

  Definition post_func (rs : list (task * tres)) (st : mstate) (f : mfunc) : result mstate :=
    let mine := filter (same_func f) rs in
    if is_mapped f then
      do s1 <- (if dump_sub then Ok (m_store st) else post_elems mine (m_store st));
      (* later generations read the storage objects: `_load_from_store` *)
      do new <- mapM (fun o => match dict_get s1 o with
                               | Some (SArr sh _ sto) => Ok (o, VA (sto_array sh sto))
                               | _ => Err KeyError end) (fouts f);
      Ok {| m_env := new ++ m_env st; m_store := s1; m_log := m_log st |}
    else
      match mine with
      | [(_, TDone outs)] =>
          let new := combine (fouts f) outs in
          do s1 <- dump_single new (m_store st);
          Ok {| m_env := new ++ m_env st; m_store := s1; m_log := m_log st |}
      | _ => Err AssertionError
      end.

  Fixpoint post_funcs (rs : list (task * tres)) (fs : list mfunc) (st : mstate) : result mstate :=
    match fs with
    | [] => Ok st
    | f :: fs' => do st' <- post_func rs st f; post_funcs rs fs' st'
    end.

  (* ---------- a task of the generation failed: keep what completed before it ----------
     (repaired code, fix "keep the results that completed before a function raised": the except branches of
     _maybe_parallel_map / _submit_generation on the sequential path, of _process_task / _process_task_async and the
     ordinary _process_generation of the functions listed before the failing one with an executor).
     `done` = the results that precede the first failing task in submission order: every task of the functions listed
     before the failing function, and the elements of the failing function before the failing index.  For each
     function the same store operations as in post_func are performed on what it has in `done`; an error of these
     operations is raised from inside the handler and replaces the user's exception. *)
  Fixpoint take_done (rs : list (task * tres)) : list (task * tres) :=
    match rs with
    | tr :: tl => if is_done (snd tr) then tr :: take_done tl else []
    | [] => []
    end.

  Definition salvage (done : list (task * tres)) (s : store_t) (f : mfunc) : result store_t :=
    let mine := filter (same_func f) done in
    if is_mapped f then (if dump_sub then Ok s else post_elems mine s)
    else match mine with
         | [(_, TDone outs)] => dump_single (combine (fouts f) outs) s
         | _ => Ok s
         end.

  Fixpoint salvage_all (done : list (task * tres)) (fs : list mfunc) (s : store_t) : result store_t :=
    match fs with
    | [] => Ok s
    | f :: fs' => do s' <- salvage done s f; salvage_all done fs' s'
    end.

  (* ---------- one generation ---------- *)
  Definition tasks_of (shapes : shapes_t) (f : mfunc) (kw : env) : result (list task) :=
    if is_mapped f then
      match fspec f, dict_get shapes (hd [] (fouts f)) with
      | Some ms, Some (sh, mask) =>
          Ok (map (fun i => {| t_f := f; t_kw := kw; t_map := Some (ms, sh, mask, i) |})
                  (seq 0 (prod (ext_of mask sh))))
      | _, _ => Err AssertionError
      end
    else Ok [{| t_f := f; t_kw := kw; t_map := None |}].

  Definition gen_tasks (shapes : shapes_t) (gen : list mfunc) (e : env) : result (list task) :=
    do tss <- mapM (fun f => do kw <- func_kwargs f e; tasks_of shapes f kw) gen;
    Ok (concat tss).

  Inductive failure := FailUser (e : exn) (c : mcall) | FailLib (e : err).
  Definition failure_of (r : tres) : failure :=
    match r with TRaised e c => FailUser e c | TErr e => FailLib e | TDone _ => FailLib AssertionError end.

  Definition gen_run (shapes : shapes_t) (gen : list mfunc) (st : mstate)
    : mstate * list (task * tres) * option failure :=
    match gen_tasks shapes gen (m_env st) with
    | Err e => (st, [], Some (FailLib e))
    | Ok ts =>
        let '(st1, rs) := exec_tasks ts st in
        match first_fail rs with
        | Some (t, r) =>
            match salvage_all (take_done rs) gen (m_store st1) with
            | Ok s2 => ({| m_env := m_env st1; m_store := s2; m_log := m_log st1 |}, rs, Some (failure_of r))
            | Err e => (st1, rs, Some (FailLib e))
            end
        | None =>
            match post_funcs rs gen st1 with
            | Ok st2 => (st2, rs, None)
            | Err e => (st1, rs, Some (FailLib e))
            end
        end
    end.

  (* ---------- the generation loop: an exception leaves it ---------- *)
  Fixpoint gens_run (shapes : shapes_t) (gens : list (list mfunc)) (st : mstate)
    : mstate * list (list (task * tres)) * option failure :=
    match gens with
    | [] => (st, [], None)
    | g :: gs =>
        let '(st1, rs, fl) := gen_run shapes g st in
        match fl with
        | Some x => (st1, [rs], Some x)
        | None => let '(st2, rss, fl2) := gens_run shapes gs st1 in (st2, rs :: rss, fl2)
        end
    end.

  (* RunInfo.create: all shapes are computed before anything runs *)
  Definition all_shapes (user : shape_dict) (inputs : env) (fs : list mfunc) : result shapes_t :=
    fold_left (fun acc f =>
                 do shapes <- acc;
                 do shm <- func_shape user shapes f;
                 Ok (match shm with
                     | Some sm => map (fun o => (o, sm)) (fouts f) ++ shapes
                     | None => shapes end))
              fs (Ok (init_shapes inputs)).

  (* RunInfo.init_store *)
  Definition init_store (shapes : shapes_t) (fs : list mfunc) : store_t :=
    flat_map (fun f => map (fun o => (o, if is_mapped f
                                         then match dict_get shapes o with
                                              | Some (sh, mask) => SArr sh mask []
                                              | None => SVal None end
                                         else SVal None)) (fouts f)) fs.

  Definition map_run_f (gens : list (list mfunc)) (inputs : env) (user : shape_dict)
    : mstate * list (list (task * tres)) * option failure :=
    let fs := concat gens in
    match all_shapes user inputs fs with
    | Err e => ({| m_env := inputs; m_store := []; m_log := [] |}, [], Some (FailLib e))
    | Ok shapes =>
        gens_run shapes gens {| m_env := inputs; m_store := init_store shapes fs; m_log := [] |}
    end.

  (* ErrorSnapshot of the failing PipeFunc (in-process execution): (function, kwargs, exception) *)
  Definition msnapshot := (mcall * exn)%type.
  Definition mreproduce (sn : msnapshot) : outcome (list val) := ubody (fst (fst sn)) (snd (fst sn)).
  Definition map_snapshot (fl : option failure) : option msnapshot :=
    match fl with Some (FailUser e c) => Some (c, e) | _ => None end.
End FMap.
