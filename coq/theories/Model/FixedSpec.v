(* Declarative statement of what a fixed_indices request means, written against the index space
   (coordinates of external positions), not against the model functions of Model/MapResume.v.
   Used by the theorems of Props/C06.v and as the oracle spec_ok of Corr/Run_C06.v. *)
From Verif Require Import Base.Prelude Base.StrUtil Base.Index Base.NdArr Base.PyRange
  Model.MapSpec Model.MapSpecSpec Model.MapRun.

Definition request := list (str * fsel).      (* axis name -> int | slice ; names unique *)

(* the request admits coordinate c on an axis called `name` of size `size` *)
Definition coord_ok (d : request) (name : str) (size c : nat) : bool :=
  match dict_get d name with
  | None => true
  | Some f => match fsel_indices f size with
              | Ok l => existsb (Nat.eqb c) l
              | Err _ => false
              end
  end.

(* a part selects exactly the external positions whose coordinate on every fixed axis lies in the request *)
Fixpoint in_part (d : request) (names : list str) (ext e : list nat) : bool :=
  match names, ext, e with
  | [], [], [] => true
  | a :: names', n :: ext', c :: e' => coord_ok d a n c && in_part d names' ext' e'
  | _, _, _ => false
  end.

(* as a boolean vector over the row-major enumeration of the external index space *)
Definition part_positions (d : request) (names : list str) (ext : list nat) : list bool :=
  map (in_part d names ext) (all_indices ext).

(* ---- partitions ---- *)
(* index sets (one per part) partition an axis of the given size: pairwise disjoint, cover seq 0 size *)
Definition count_nat (k : nat) (l : list nat) : nat := length (filter (Nat.eqb k) l).
Definition sets_partition (sets : list (list nat)) (size : nat) : bool :=
  forallb (fun l => forallb (fun k => k <? size) l) sets
  && forallb (fun k => fold_right Nat.add 0 (map (count_nat k) sets) =? 1) (seq 0 size).

(* a family of requests over the axes `axes` (name, size) partitions their product space:
   every point lies in exactly one part *)
Definition n_containing (parts : list request) (axes : list (str * nat)) (pt : list nat) : nat :=
  length (filter (fun d => in_part d (map fst axes) (map snd axes) pt) parts).
Definition family_partitions (parts : list request) (axes : list (str * nat)) : bool :=
  forallb (fun d => forallb (fun a => mem_str a (map fst axes)) (map fst d)) parts
  && forallb (fun pt => n_containing parts axes pt =? 1) (all_indices (map snd axes)).
Definition family_covers (parts : list request) (axes : list (str * nat)) : bool :=
  forallb (fun d => forallb (fun a => mem_str a (map fst axes)) (map fst d)) parts
  && forallb (fun pt => 1 <=? n_containing parts axes pt) (all_indices (map snd axes)).

(* ---- which requests are acceptable for a pipeline ---- *)
(* the name of axis k of array `name`, as some MapSpec of the pipeline spells it *)
Definition arrayspecs (p : list mfunc) : list aspec :=
  flat_map (fun f => match fspec f with Some m => ins m ++ outs m | None => [] end) p.
Definition carriers_of (p : list mfunc) (a : str) : list (str * nat) :=
  flat_map (fun sp => flat_map (fun kx => match snd kx with
                                          | Some x => if str_eqb x a then [(aname sp, fst kx)] else []
                                          | None => [] end)
                               (combine (seq 0 (length (axes sp))) (axes sp)))
           (arrayspecs p).
Definition axis_known (p : list mfunc) (a : str) : bool :=
  negb (length (carriers_of p a) =? 0).

(* every array is spelled with the same axis name at the same position in all MapSpecs (what
   validate_consistent_axes enforces when the Pipeline is built); decidable form of Proofs/FixedSpecFacts.consistent_axes *)
Fixpoint axes_agree (l1 l2 : list (option str)) : bool :=
  match l1, l2 with
  | Some x :: t1, Some y :: t2 => str_eqb x y && axes_agree t1 t2
  | _ :: t1, _ :: t2 => axes_agree t1 t2
  | _, _ => true
  end.
Definition consistent_axesb (arrs : list aspec) : bool :=
  forallb (fun sp1 => forallb (fun sp2 => negb (str_eqb (aname sp1) (aname sp2)) || axes_agree (axes sp1) (axes sp2)) arrs) arrs.

(* axis a is reduced: some function consumes an array carrying a either whole (not through its MapSpec)
   or with ':' at a's position *)
Definition axis_reduced (p : list mfunc) (a : str) : bool :=
  existsb (fun nk =>
             let name := fst nk in
             let k := snd nk in
             existsb (fun f =>
                        mem_str name (fparams f)
                        && match fspec f with
                           | None => true
                           | Some m =>
                               match find (fun sp => str_eqb (aname sp) name) (ins m) with
                               | None => true
                               | Some sp => match nth_error (axes sp) k with
                                            | Some None => true
                                            | _ => false
                                            end
                               end
                           end) p)
          (carriers_of p a).

(* sizes: dimension k of array `name` *)
Definition dim_of (shapes : shapes_t) (nk : str * nat) : option nat :=
  match dict_get shapes (fst nk) with
  | Some sm => nth_error (fst sm) (snd nk)
  | None => None
  end.

Definition sel_in_range (f : fsel) (size : nat) : bool := is_ok (fsel_indices f size).

(* every fixed index is in range on every array that carries its axis (known shapes).  _validate_fixed_indices checks
   this only on supplied inputs; on an axis carried only by internal shapes the run itself raises IndexError. *)
Definition fixed_in_range (p : list mfunc) (shapes : shapes_t) (d : request) : bool :=
  forallb (fun af => forallb (fun nk => match dim_of shapes nk with
                                        | Some n => sel_in_range (snd af) n
                                        | None => true end) (carriers_of p (fst af))) d.

Inductive status := Valid | Rejected | Unspecified.

(* Rejected: an unknown axis, a reduced axis, or an index out of range on an axis of a supplied input.
   Unspecified: out of range only on axes that no supplied input carries (internal axes).
   Valid: every fixed axis is known, not reduced, and in range wherever it occurs. *)
Definition request_status (p : list mfunc) (inputs : env) (shapes : shapes_t) (d : request) : status :=
  let bad_early (af : str * fsel) :=
    negb (axis_known p (fst af)) || axis_reduced p (fst af)
    || existsb (fun nk => match dict_get inputs (fst nk), dim_of shapes nk with
                          | Some _, Some n => negb (sel_in_range (snd af) n)
                          | _, _ => false end) (carriers_of p (fst af)) in
  let bad_late (af : str * fsel) :=
    existsb (fun nk => match dim_of shapes nk with
                       | Some n => negb (sel_in_range (snd af) n)
                       | None => false end) (carriers_of p (fst af)) in
  if existsb bad_early d then Rejected
  else if existsb bad_late d then Unspecified
  else Valid.
