(* Direct calls of the index helpers, with their error branches (Base/Index.v has the total versions):
   shape_to_strides, _shape_to_key (pipefunc/map/_mapspec.py), select_by_mask (pipefunc/map/_storage_array/_base.py),
   external_shape_from_mask / internal_shape_from_mask (pipefunc/map/_shapes.py).  Definitions only. *)
From Verif Require Import Base.Prelude Base.Index.

Definition n_true (mask : list bool) : nat := length (filter id mask).
Definition n_false (mask : list bool) : nat := length (filter negb mask).

(* select_by_mask: `tuple1[index1]` / `tuple2[index2]` past the end raises IndexError; surplus elements are ignored *)
Definition select_by_mask {A} (mask : list bool) (e i : list A) : result (list A) :=
  if (n_true mask <=? length e) && (n_false mask <=? length i) then Ok (merge mask e i) else Err IndexError.

Inductive idx_call :=
| IStrides (sh : list nat)                       (* shape_to_strides(sh) *)
| IKey (sh : list nat) (n : nat)                 (* _shape_to_key(sh, n) *)
| ISelect (mask : list bool) (e i : list nat)    (* select_by_mask(mask, e, i) *)
| IExt (sh : list nat) (mask : list bool)        (* external_shape_from_mask(sh, mask) *)
| IInt (sh : list nat) (mask : list bool).       (* internal_shape_from_mask(sh, mask) *)

Definition idx_run (c : idx_call) : result (list nat) :=
  match c with
  | IStrides sh => Ok (strides sh)
  | IKey sh n => unravel_checked sh n
  | ISelect mask e i => select_by_mask mask e i
  | IExt sh mask => Ok (ext_of mask sh)          (* zip stops at the shorter argument *)
  | IInt sh mask => Ok (int_of mask sh)
  end.
