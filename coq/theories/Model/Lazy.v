(* Model/Lazy.v - lazy pipelines (C18).

   WHAT IS MODELLED
     Pipeline(lazy=True).run / _run / _get_func_args            -> lazy_run, lazy_run_out (same shape as Pipe.run_out)
     _execute_func (lazy branch): _LazyFunction(func, kwargs)   -> allocation of an NFun node (no user code runs)
     _update_all_results (lazy branch): picker _LazyFunction    -> allocation of one NPick node per output name
     _LazyFunction.__init__ under construct_dag()               -> the recorded edges `ldag` (arg id, new id)
     _LazyFunction.evaluate / evaluate_lazy / PipeFunc.__call__ -> ev, evaluate (memo per node, call log)
   NOT MODELLED: the SimpleCache of the task graph (a fresh cache per construct_dag() and one run inside it
   never hits), containers of lazy objects inside argument values (values are plain strings).

   A heap is the list of _LazyFunction objects in allocation order; the id of a node is its index (Python:
   _LazyFunction._counter is global; the harness relabels ids by allocation order). *)
From Verif Require Import Base.Prelude Base.StrOrd Base.Graph Model.Pipe.

Inductive larg := AVal (v : str) | ARef (id : nat).
Inductive nkind := NFun (f : pfunc) | NPick (n : str).
Record node := { nk : nkind;
                 nargs : list (str * larg);    (* NFun: (original parameter name, argument) in signature order;
                                                  NPick: [("", ARef raw)]  (args = (r, name)) *)
                 memo : option str }.          (* _evaluated / _result *)
Definition heap := list node.

Definition llist := list (str * larg).
Fixpoint lget (l : llist) (k : str) : option larg :=
  match l with [] => None | (k', v) :: t => if str_eqb k k' then Some v else lget t k end.
Definition lhas (l : llist) (k : str) : bool := match lget l k with Some _ => true | None => false end.
Fixpoint lset (l : llist) (k : str) (v : larg) : llist :=
  match l with
  | [] => [(k, v)]
  | (k', v') :: t => if str_eqb k k' then (k', v) :: t else (k', v') :: lset t k v
  end.

Record lstate := { lres : llist;                (* all_results: supplied values or lazy objects *)
                   lused : list str;            (* used_parameters *)
                   lheap : heap;
                   ldag : list (nat * nat) }.   (* TaskGraph.graph edges *)

Definition refs_of (args : list (str * larg)) : list nat :=
  flat_map (fun ka => match snd ka with ARef r => [r] | AVal _ => [] end) args.

Section Lazy.
  Variable p : pipeline.
  Variable kw : alist.
  Variable dagon : bool.          (* inside `with construct_dag()` *)

  Definition ls_use (st : lstate) (k : str) : lstate :=
    {| lres := lres st; lused := k :: lused st; lheap := lheap st; ldag := ldag st |}.

  (* _LazyFunction(...): allocate; under construct_dag register the node and an edge from every lazy argument *)
  Definition alloc (st : lstate) (nd : node) : lstate * nat :=
    let id := length (lheap st) in
    ({| lres := lres st; lused := lused st; lheap := lheap st ++ [nd];
        ldag := if dagon then ldag st ++ map (fun r => (r, id)) (refs_of (nargs nd)) else ldag st |}, id).
  Definition ls_set (st : lstate) (k : str) (v : larg) : lstate :=
    {| lres := lset (lres st) k v; lused := lused st; lheap := lheap st; ldag := ldag st |}.

  Definition lresolve (rec : lstate -> str -> lstate * result larg) (f : pfunc) (st : lstate) (cur : str)
    : lstate * result larg :=
    match aget (bound f) cur with
    | Some b => (st, Ok (AVal b))
    | None =>
        match aget kw cur with
        | Some v => (st, Ok (AVal v))
        | None =>
            if is_output p cur then rec st cur
            else match pdefault p cur with
                 | Some d => (st, Ok (AVal d))
                 | None => (st, Err ValueError)
                 end
        end
    end.

  Fixpoint lget_args (rec : lstate -> str -> lstate * result larg) (f : pfunc) (ps : list (str * str))
           (st : lstate) (acc : list (str * larg)) {struct ps} : lstate * result (list (str * larg)) :=
    match ps with
    | [] => (st, Ok acc)
    | (cur, orig) :: t =>
        let '(st1, rv) := lresolve rec f st cur in
        match rv with
        | Err e => (st1, Err e)
        | Ok a => lget_args rec f t (ls_use st1 cur) (acc ++ [(orig, a)])
        end
    end.

  (* _update_all_results, lazy branch (repaired code: names already present are kept) *)
  Definition lupdate (f : pfunc) (id : nat) (st : lstate) : lstate :=
    if multi f then
      fold_left (fun s n => if lhas (lres s) n then s
                            else let '(s1, pid) := alloc s {| nk := NPick n; nargs := [([], ARef id)]; memo := None |} in
                                 ls_set s1 n (ARef pid)) (outs f) st
    else ls_set st (fid f) (ARef id).

  Fixpoint lazy_run_out (fuel : nat) (st : lstate) (o : str) {struct fuel} : lstate * result larg :=
    match fuel with
    | O => (st, Err RuntimeError)
    | S n =>
        match lget (lres st) o with
        | Some a => (st, Ok a)
        | None =>
            match producer p o with
            | None => (st, Err KeyError)
            | Some f =>
                let '(st1, ra) := lget_args (lazy_run_out n) f (params f) st [] in
                match ra with
                | Err e => (st1, Err e)
                | Ok args =>
                    let '(st2, id) := alloc st1 {| nk := NFun f; nargs := args; memo := None |} in
                    let st3 := lupdate f id st2 in
                    (st3, match lget (lres st3) o with Some a => Ok a | None => Err KeyError end)
                end
            end
        end
    end.

  Definition linit : lstate :=
    {| lres := map (fun kv => (fst kv, AVal (snd kv))) kw; lused := []; lheap := []; ldag := [] |}.
End Lazy.

Inductive loutcome := LValue (a : larg) | LFull (d : llist).

(* Pipeline(lazy=True).run(o, full_output=full, kwargs=kw): nothing is evaluated *)
Definition lazy_run (p : pipeline) (o : str) (kw : alist) (full dagon : bool) : result loutcome * lstate :=
  let st0 := linit kw in
  if negb (is_node p o) then (Err KeyError, st0)
  else if ahas kw o then (Err ValueError, st0)
  else
    let '(st, r) := lazy_run_out p kw dagon (S (length p)) st0 o in
    match r with
    | Err e => (Err e, st)
    | Ok a =>
        match filter (fun k => negb (mem_str k (lused st))) (akeys kw) with
        | _ :: _ => (Err UnusedParametersError, st)
        | [] => (Ok (if full then LFull (lres st) else LValue a), st)
        end
    end.

(* Pipeline.run since the repair "validate the keyword arguments of Pipeline.run before executing anything" *)
Definition lazy_run_checked (p : pipeline) (o : str) (kw : alist) (full dagon : bool) : result loutcome * lstate :=
  match run_precheck p o kw with
  | Err e => (Err e, linit kw)
  | Ok _ => lazy_run p o kw full dagon
  end.

(* ---------- evaluation ---------- *)
Record estate := { eheap : heap; elog : list (nat * call) }.   (* the log also remembers which node called *)

Fixpoint set_memo (h : heap) (id : nat) (v : str) : heap :=
  match h, id with
  | [], _ => []
  | nd :: t, O => {| nk := nk nd; nargs := nargs nd; memo := Some v |} :: t
  | nd :: t, S i => nd :: set_memo t i v
  end.

Section Eval.
  Variable body : str -> alist -> result str.
  Variable pick : str -> str -> str.

  (* evaluate_lazy(kwargs): values in order *)
  Fixpoint eargs (rec : estate -> nat -> estate * result str) (l : list (str * larg)) (st : estate) (acc : alist)
           {struct l} : estate * result alist :=
    match l with
    | [] => (st, Ok acc)
    | (k, AVal v) :: t => eargs rec t st (acc ++ [(k, v)])
    | (k, ARef r) :: t =>
        let '(st1, rv) := rec st r in
        match rv with
        | Err e => (st1, Err e)
        | Ok v => eargs rec t st1 (acc ++ [(k, v)])
        end
    end.

  (* _LazyFunction.evaluate *)
  Fixpoint ev (fuel : nat) (st : estate) (id : nat) {struct fuel} : estate * result str :=
    match fuel with
    | O => (st, Err RuntimeError)
    | S n =>
        match nth_error (eheap st) id with
        | None => (st, Err KeyError)
        | Some nd =>
            match memo nd with
            | Some v => (st, Ok v)                                   (* if self._evaluated *)
            | None =>
                let '(st1, ra) := eargs (ev n) (nargs nd) st [] in
                match ra with
                | Err e => (st1, Err e)
                | Ok args =>
                    match nk nd with
                    | NFun f =>
                        let st2 := {| eheap := eheap st1; elog := elog st1 ++ [(id, (fname f, args))] |} in
                        match body (fname f) args with
                        | Err e => (st2, Err e)                      (* not memoised: _evaluated stays False *)
                        | Ok r => ({| eheap := set_memo (eheap st2) id r; elog := elog st2 |}, Ok r)
                        end
                    | NPick n =>
                        match args with
                        | [(_, raw)] =>
                            let v := pick n raw in
                            ({| eheap := set_memo (eheap st1) id v; elog := elog st1 |}, Ok v)
                        | _ => (st1, Err TypeError)
                        end
                    end
                end
            end
        end
    end.

  (* evaluate_lazy(x) for what a lazy run returns *)
  Definition evaluate (st : estate) (a : larg) : estate * result str :=
    match a with
    | AVal v => (st, Ok v)
    | ARef id => ev (S (length (eheap st))) st id
    end.

  (* evaluate_lazy(dict): entries in dict order *)
  Fixpoint evaluate_dict (st : estate) (d : llist) (acc : alist) : estate * result alist :=
    match d with
    | [] => (st, Ok acc)
    | (k, a) :: t =>
        let '(st1, r) := evaluate st a in
        match r with
        | Err e => (st1, Err e)
        | Ok v => evaluate_dict st1 t (acc ++ [(k, v)])
        end
    end.
End Eval.

Definition node_label (nd : node) : str :=
  match nk nd with NFun f => fname f | NPick n => s "pick:" ++ n end.
