(* Model/LazySeq.v - sequences of requests to ONE lazy pipeline object, with the caches that Pipeline._run consults
   (C18, second part).

   WHAT IS MODELLED (pipefunc/_pipeline/_base.py Pipeline._run, pipefunc/_pipeline/_cache.py, pipefunc/lazy.py)
     * inside `with construct_dag():` every function uses the SimpleCache of the task graph (use_cache is true for
       all functions, `_current_cache` returns tg.cache); outside, the pipeline's own LRU cache is used for
       functions with cache=True (it exists iff some function has cache=True; lazy => shared=False, so the cached
       objects are the _LazyFunction nodes themselves);
     * compute_cache_key(func.output_name, _func_defaults(func) | kwargs, root_args(output_name)): None as soon as
       a root argument of the requested name has no value in that dict, and None whenever a keyword supplies an
       intermediate result (the code of /repo main after the C09 fixes 56230d4, b271be1);
     * get_result_from_cache: on a hit `_update_all_results(func, r, output_name, all_results, lazy)` (new picker
       nodes for a tuple output), `used_parameters.add(None)` and immediate return unless full_output (then the
       arguments are still resolved and the cached result is returned afterwards);
     * update_cache after an execution; the unused-keyword check is skipped when None is in used_parameters;
     * the _LazyFunction nodes (and their memo) and the recorded task graph persist from request to request;
       evaluation may happen between the requests.
   The first request of a sequence never hits a cache (Proofs/LazySeqFacts.v): it is Lazy.lazy_run.
   NOT MODELLED: eviction of the LRU cache (max_size 128 is never reached), hybrid / disk caches (C09, C14). *)
From Verif Require Import Base.Prelude Base.StrOrd Base.Graph Model.Pipe Model.Lazy.

Definition ckey := (list str * alist)%type.          (* (func.output_name, ((root arg, value), ...)) *)
Definition ckey_eqb (a b : ckey) : bool :=
  list_eqb str_eqb (fst a) (fst b)
  && list_eqb (fun x y => str_eqb (fst x) (fst y) && str_eqb (snd x) (snd y)) (snd a) (snd b).
Fixpoint cache_find (c : list (ckey * nat)) (k : ckey) : option nat :=
  match c with [] => None | (k', r) :: t => if ckey_eqb k k' then Some r else cache_find t k end.

Record cstate := { cl : lstate;                    (* all_results / used_parameters of this request; heap; task graph *)
                   cskip : bool;                   (* None in used_parameters: a result came from the cache *)
                   ccache : list (ckey * nat) }.   (* cache key -> cached _LazyFunction (its node id) *)
Definition with_cl (st : cstate) (l : lstate) : cstate := {| cl := l; cskip := cskip st; ccache := ccache st |}.

Section Seq.
  Variable p : pipeline.
  Variable dagon : bool.

  Definition has_cache : bool := existsb cached p.   (* cache_type=None and any(f.cache) -> "lru" *)

  Section Request.
    Variable kw : alist.
    Variable full : bool.

    (* (self._func_defaults(func) | flat_scope_kwargs).get(k)   -- func._bound does not enter the key *)
    Definition key_lookup (f : pfunc) (k : str) : option str :=
      match aget kw k with
      | Some v => Some v
      | None =>
          match aget (dflt f) k with
          | Some d => Some d
          | None => if mem_str k (pnames f) then pdefault p k else None
          end
      end.
    Fixpoint key_items (f : pfunc) (ra : list str) : option alist :=
      match ra with
      | [] => Some []
      | k :: t => match key_lookup f k, key_items f t with
                  | Some v, Some l => Some ((k, v) :: l)
                  | _, _ => None
                  end
      end.
    (* no key when a keyword supplies an intermediate result (it replaces its producer) *)
    Definition cache_key (f : pfunc) (ra : list str) : option ckey :=
      if existsb (is_output p) (akeys kw) then None
      else option_map (fun l => (outs f, l)) (key_items f ra).

    Definition cresolve (rec : cstate -> str -> cstate * result larg) (f : pfunc) (st : cstate) (cur : str)
      : cstate * result larg :=
      match aget (bound f) cur with
      | Some b => (st, Ok (AVal b))
      | None =>
          match aget kw cur with
          | Some v => (st, Ok (AVal v))
          | None =>
              if is_output p cur then rec st cur
              else match pdefault p cur with
                   | Some d => (st, Ok (AVal d))
                   | None => (st, Err ValueError)
                   end
          end
      end.

    Fixpoint cget_args (rec : cstate -> str -> cstate * result larg) (f : pfunc) (ps : list (str * str))
             (st : cstate) (acc : list (str * larg)) {struct ps} : cstate * result (list (str * larg)) :=
      match ps with
      | [] => (st, Ok acc)
      | (cur, orig) :: t =>
          let '(st1, rv) := cresolve rec f st cur in
          match rv with
          | Err e => (st1, Err e)
          | Ok a => cget_args rec f t (with_cl st1 (ls_use (cl st1) cur)) (acc ++ [(orig, a)])
          end
      end.

    Definition result_of (st : cstate) (o : str) : result larg :=
      match lget (lres (cl st)) o with Some a => Ok a | None => Err KeyError end.

    Fixpoint crun_out (fuel : nat) (st : cstate) (o : str) {struct fuel} : cstate * result larg :=
      match fuel with
      | O => (st, Err RuntimeError)
      | S n =>
          match lget (lres (cl st)) o with
          | Some a => (st, Ok a)
          | None =>
              match producer p o with
              | None => (st, Err KeyError)
              | Some f =>
                  match root_args p o with
                  | Err e => (st, Err e)
                  | Ok ra =>
                      let use_cache := dagon || (cached f && has_cache) in
                      let key := if use_cache then cache_key f ra else None in
                      let hit := match key with Some k => cache_find (ccache st) k | None => None end in
                      match hit with
                      | Some r =>
                          (* get_result_from_cache: _update_all_results(func, r, ...) with the cached lazy object *)
                          let st0 := with_cl st (lupdate dagon f r (cl st)) in
                          if full then
                            let '(st1, ra') := cget_args (crun_out n) f (params f) st0 [] in
                            match ra' with
                            | Err e => (st1, Err e)
                            | Ok _ => (st1, result_of st1 o)                 (* if result_from_cache: return *)
                            end
                          else
                            let st1 := {| cl := cl st0; cskip := true; ccache := ccache st0 |} in
                            (st1, result_of st1 o)
                      | None =>
                          let '(st1, ra') := cget_args (crun_out n) f (params f) st [] in
                          match ra' with
                          | Err e => (st1, Err e)
                          | Ok args =>
                              let '(l2, id) := alloc dagon (cl st1) {| nk := NFun f; nargs := args; memo := None |} in
                              let c2 := match key with Some k => (k, id) :: ccache st1 | None => ccache st1 end in
                              let st3 := {| cl := lupdate dagon f id l2; cskip := cskip st1; ccache := c2 |} in
                              (st3, result_of st3 o)
                          end
                      end
                  end
              end
          end
      end.
  End Request.

  (* the part of the state that survives a request *)
  Record pstate := { pheap : heap; pdag : list (nat * nat); pcache : list (ckey * nat); plog : list (nat * call) }.
  Definition pinit : pstate := {| pheap := []; pdag := []; pcache := []; plog := [] |}.

  (* Pipeline.run(o, full_output=full, kwargs=kw) on the lazy pipeline, in the persistent state ps *)
  Definition crequest (ps : pstate) (o : str) (kw : alist) (full : bool) : result loutcome * pstate :=
    if negb (is_node p o) then (Err KeyError, ps)
    else if ahas kw o then (Err ValueError, ps)
    else
      let st0 := {| cl := {| lres := lres (linit kw); lused := []; lheap := pheap ps; ldag := pdag ps |};
                    cskip := false; ccache := pcache ps |} in
      let '(st, r) := crun_out kw full (S (length p)) st0 o in
      let ps' := {| pheap := lheap (cl st); pdag := ldag (cl st); pcache := ccache st; plog := plog ps |} in
      match r with
      | Err e => (Err e, ps')
      | Ok a =>
          if cskip st then (Ok (if full then LFull (lres (cl st)) else LValue a), ps')
          else match filter (fun k => negb (mem_str k (lused (cl st)))) (akeys kw) with
               | _ :: _ => (Err UnusedParametersError, ps')
               | [] => (Ok (if full then LFull (lres (cl st)) else LValue a), ps')
               end
      end.
  (* Pipeline.run since the repair "validate the keyword arguments of Pipeline.run before executing anything" *)
  Definition crequest_checked (ps : pstate) (o : str) (kw : alist) (full : bool) : result loutcome * pstate :=
    match run_precheck p o kw with
    | Err e => (Err e, ps)
    | Ok _ => crequest ps o kw full
    end.
End Seq.

Section SeqEval.
  Variable body : str -> alist -> result str.
  Variable pick : str -> str -> str.

  (* evaluate_lazy(result) in the persistent state *)
  Definition eval_outcome_p (ps : pstate) (x : loutcome) : pstate * result (str + alist) :=
    let e0 := {| eheap := pheap ps; elog := plog ps |} in
    match x with
    | LValue a =>
        let '(e1, r) := evaluate body pick e0 a in
        ({| pheap := eheap e1; pdag := pdag ps; pcache := pcache ps; plog := elog e1 |},
         match r with Ok v => Ok (inl v) | Err e => Err e end)
    | LFull d =>
        let '(e1, r) := evaluate_dict body pick e0 d [] in
        ({| pheap := eheap e1; pdag := pdag ps; pcache := pcache ps; plog := elog e1 |},
         match r with Ok v => Ok (inr v) | Err e => Err e end)
    end.

  (* one request = (output, keywords, full_output, evaluate right away) *)
  Definition request := (str * alist * bool * bool)%type.

  (* all requests in order (evaluating right away where asked), giving the outcome of every request *)
  Fixpoint run_requests (p : pipeline) (dagon : bool) (ps : pstate) (rs : list request)
    : pstate * list (result loutcome) :=
    match rs with
    | [] => (ps, [])
    | (o, kw, full, now) :: t =>
        let '(r, ps1) := crequest p dagon ps o kw full in
        let ps2 := match r, now with
                   | Ok x, true => fst (eval_outcome_p ps1 x)
                   | _, _ => ps1
                   end in
        let '(ps3, l) := run_requests p dagon ps2 t in
        (ps3, r :: l)
    end.

  (* the same on the code since the repair "validate the keyword arguments of Pipeline.run before executing
     anything" (crequest_checked) *)
  Fixpoint run_requests_checked (p : pipeline) (dagon : bool) (ps : pstate) (rs : list request)
    : pstate * list (result loutcome) :=
    match rs with
    | [] => (ps, [])
    | (o, kw, full, now) :: t =>
        let '(r, ps1) := crequest_checked p dagon ps o kw full in
        let ps2 := match r, now with
                   | Ok x, true => fst (eval_outcome_p ps1 x)
                   | _, _ => ps1
                   end in
        let '(ps3, l) := run_requests_checked p dagon ps2 t in
        (ps3, r :: l)
    end.

  (* finally evaluate every deferred object, in request order *)
  Fixpoint eval_all (ps : pstate) (l : list (result loutcome)) : pstate * list (option (result (str + alist))) :=
    match l with
    | [] => (ps, [])
    | Err _ :: t => let '(ps', vs) := eval_all ps t in (ps', None :: vs)
    | Ok x :: t =>
        let '(ps1, v) := eval_outcome_p ps x in
        let '(ps2, vs) := eval_all ps1 t in
        (ps2, Some v :: vs)
    end.
End SeqEval.
