(* Model/LazyXref.v - requests whose keyword VALUES are deferred results of earlier requests of the same
   construct_dag() block: bare, or inside list / tuple containers (C18, third part).

   WHAT IS MODELLED (pipefunc/lazy.py)
     * a keyword value travels unchanged into the kwargs of the _LazyFunction node that consumes it
       (Pipeline._get_func_args / _execute_func);
     * _LazyFunction.__init__ under construct_dag(): `for arg in kwargs.values(): add_edge(arg)` where add_edge
       records an edge for a _LazyFunction and, walking dict values / tuples / lists / sets recursively exactly like
       evaluate_lazy (repaired code), for every _LazyFunction inside a container at ANY depth;
     * evaluate_lazy resolves containers recursively (any depth), in order;
     * the cache key of the task-graph cache contains the keyword value itself (the same objects => the same key).
   REPRESENTATION: values stay `str`.  A keyword value with deferred objects inside is a TEMPLATE: the canonical
   string of the container in which every deferred object is written as the marker  \001 1^id \002  (id in unary).
   Substituting every marker by the evaluated value of its node gives exactly canon(evaluate_lazy(value)).
   A tuple is written like a list with the extra character \003 after the bracket (dropped by the substitution): the
   cache key distinguishes lists from tuples, the canonical value does not.
   Every marker gets an edge (add_edge, repaired code) and every marker is a dependency.
   Plain strings inside templates must not contain '[' ']' or the two marker characters (generator guarantee). *)
From Verif Require Import Base.Prelude Base.StrOrd Base.Graph Model.Pipe Model.Lazy Model.LazySeq.

Definition mopen : ascii := ascii_of_nat 1.
Definition mclose : ascii := ascii_of_nat 2.
Definition mk_ref (id : nat) : str := mopen :: repeat "1"%char id ++ [mclose].

(* a keyword value of a request: a string, the result of the j-th earlier request, or a list/tuple of such *)
Inductive kwval := KStr (v : str) | KRes (j : nat) | KList (tup : bool) (l : list kwval).
Definition mtuple : ascii := ascii_of_nat 3.    (* marks a tuple: a list and a tuple of the same items are different cache keys *)

(* res: what the earlier requests returned (None: failed, or a full_output dict - then the harness passes "none") *)
Fixpoint tmpl (res : list (option larg)) (v : kwval) : str :=
  match v with
  | KStr x => x
  | KRes j => match nth j res None with
              | Some (ARef id) => mk_ref id
              | Some (AVal x) => x
              | None => s "none"
              end
  | KList tup l => s "[" ++ (if tup then [mtuple] else []) ++ Sym.commas (map (tmpl res) l) ++ s "]"
  end.

(* the marker ids of a template that sit at bracket depth <= maxd *)
Fixpoint scan (v : str) (depth : nat) (cur : option nat) (maxd : nat) : list nat :=
  match v with
  | [] => []
  | c :: t =>
      match cur with
      | Some n =>
          if Ascii.eqb c mclose then (if depth <=? maxd then [n] else []) ++ scan t depth None maxd
          else scan t depth (Some (S n)) maxd
      | None =>
          if Ascii.eqb c mopen then scan t depth (Some 0) maxd
          else if Ascii.eqb c "["%char then scan t (S depth) None maxd
          else if Ascii.eqb c "]"%char then scan t (pred depth) None maxd
          else scan t depth None maxd
      end
  end.
Definition refs_edge (v : str) : list nat := scan v 0 None 1000.         (* what add_edge sees (repaired: any depth) *)
Definition refs_all (v : str) : list nat := scan v 0 None 1000.          (* what evaluate_lazy evaluates *)

Definition tmpl_refs (f : str -> list nat) (args : list (str * larg)) : list nat :=
  flat_map (fun ka => match snd ka with AVal v => f v | ARef _ => [] end) args.

(* the edges add_edge records for the container / bare deferred keyword values of the nodes from..end *)
Definition tmpl_edges (h : heap) (from : nat) : list (nat * nat) :=
  flat_map (fun i => match nth_error h i with
                     | Some nd => map (fun r => (r, i)) (tmpl_refs refs_edge (nargs nd))
                     | None => []
                     end) (seq from (length h - from)).

(* dependencies of a node: those recorded as edges and those evaluated (the same since the repair) *)
Definition deps_edge (nd : node) : list nat := refs_of (nargs nd) ++ tmpl_refs refs_edge (nargs nd).
Definition deps_all (nd : node) : list nat := refs_of (nargs nd) ++ tmpl_refs refs_all (nargs nd).

Section EvalT.
  Variable body : str -> alist -> result str.
  Variable pick : str -> str -> str.

  (* evaluate_lazy on a template: every marker is replaced by the value of its node *)
  Fixpoint subst (rec : estate -> nat -> estate * result str) (v : str) (cur : option nat) (st : estate) (acc : str)
    : estate * result str :=
    match v with
    | [] => (st, Ok acc)
    | c :: t =>
        match cur with
        | Some n =>
            if Ascii.eqb c mclose then
              let '(st1, r) := rec st n in
              match r with
              | Err e => (st1, Err e)
              | Ok x => subst rec t None st1 (acc ++ x)
              end
            else subst rec t (Some (S n)) st acc
        | None =>
            if Ascii.eqb c mopen then subst rec t (Some 0) st acc
            else if Ascii.eqb c mtuple then subst rec t None st acc          (* canon(tuple) = canon(list) *)
            else subst rec t None st (acc ++ [c])
        end
    end.

  Fixpoint eargs_t (rec : estate -> nat -> estate * result str) (l : list (str * larg)) (st : estate) (acc : alist)
           {struct l} : estate * result alist :=
    match l with
    | [] => (st, Ok acc)
    | (k, AVal v) :: t =>
        let '(st1, rv) := subst rec v None st [] in
        match rv with
        | Err e => (st1, Err e)
        | Ok x => eargs_t rec t st1 (acc ++ [(k, x)])
        end
    | (k, ARef r) :: t =>
        let '(st1, rv) := rec st r in
        match rv with
        | Err e => (st1, Err e)
        | Ok x => eargs_t rec t st1 (acc ++ [(k, x)])
        end
    end.

  (* _LazyFunction.evaluate (Lazy.ev with templates) *)
  Fixpoint ev_t (fuel : nat) (st : estate) (id : nat) {struct fuel} : estate * result str :=
    match fuel with
    | O => (st, Err RuntimeError)
    | S n =>
        match nth_error (eheap st) id with
        | None => (st, Err KeyError)
        | Some nd =>
            match memo nd with
            | Some v => (st, Ok v)
            | None =>
                let '(st1, ra) := eargs_t (ev_t n) (nargs nd) st [] in
                match ra with
                | Err e => (st1, Err e)
                | Ok args =>
                    match nk nd with
                    | NFun f =>
                        let st2 := {| eheap := eheap st1; elog := elog st1 ++ [(id, (fname f, args))] |} in
                        match body (fname f) args with
                        | Err e => (st2, Err e)
                        | Ok r => ({| eheap := set_memo (eheap st2) id r; elog := elog st2 |}, Ok r)
                        end
                    | NPick n0 =>
                        match args with
                        | [(_, raw)] =>
                            let v := pick n0 raw in
                            ({| eheap := set_memo (eheap st1) id v; elog := elog st1 |}, Ok v)
                        | _ => (st1, Err TypeError)
                        end
                    end
                end
            end
        end
    end.

  Definition evaluate_t (st : estate) (a : larg) : estate * result str :=
    match a with
    | AVal v => subst (ev_t (S (length (eheap st)))) v None st []
    | ARef id => ev_t (S (length (eheap st))) st id
    end.

  Fixpoint evaluate_dict_t (st : estate) (d : llist) (acc : alist) : estate * result alist :=
    match d with
    | [] => (st, Ok acc)
    | (k, a) :: t =>
        let '(st1, r) := evaluate_t st a in
        match r with
        | Err e => (st1, Err e)
        | Ok v => evaluate_dict_t st1 t (acc ++ [(k, v)])
        end
    end.

  Definition eval_outcome_t (ps : pstate) (x : loutcome) : pstate * result (str + alist) :=
    let e0 := {| eheap := pheap ps; elog := plog ps |} in
    match x with
    | LValue a =>
        let '(e1, r) := evaluate_t e0 a in
        ({| pheap := eheap e1; pdag := pdag ps; pcache := pcache ps; plog := elog e1 |},
         match r with Ok v => Ok (inl v) | Err e => Err e end)
    | LFull d =>
        let '(e1, r) := evaluate_dict_t e0 d [] in
        ({| pheap := eheap e1; pdag := pdag ps; pcache := pcache ps; plog := elog e1 |},
         match r with Ok v => Ok (inr v) | Err e => Err e end)
    end.

  (* one request = (output, keywords with possibly deferred values, full_output, evaluate right away) *)
  Definition request_t := (str * list (str * kwval) * bool * bool)%type.

  (* LazySeq.crequest_checked on the templates; the nodes it allocates get the edges of their container values *)
  Fixpoint run_requests_t (p : pipeline) (dagon : bool) (ps : pstate) (res : list (option larg)) (rs : list request_t)
    : pstate * list (result loutcome) :=
    match rs with
    | [] => (ps, [])
    | (o, kwt, full, now) :: t =>
        let kw := map (fun kv => (fst kv, tmpl res (snd kv))) kwt in
        let old := length (pheap ps) in
        let '(r, ps1) := crequest_checked p dagon ps o kw full in
        let ps1' := {| pheap := pheap ps1;
                       pdag := if dagon then pdag ps1 ++ tmpl_edges (pheap ps1) old else pdag ps1;
                       pcache := pcache ps1; plog := plog ps1 |} in
        let ps2 := match r, now with
                   | Ok x, true => fst (eval_outcome_t ps1' x)
                   | _, _ => ps1'
                   end in
        let res' := res ++ [match r with Ok (LValue a) => Some a | _ => None end] in
        let '(ps3, l) := run_requests_t p dagon ps2 res' t in
        (ps3, r :: l)
    end.

  Fixpoint eval_all_t (ps : pstate) (l : list (result loutcome)) : pstate * list (option (result (str + alist))) :=
    match l with
    | [] => (ps, [])
    | Err _ :: t => let '(ps', vs) := eval_all_t ps t in (ps', None :: vs)
    | Ok x :: t =>
        let '(ps1, v) := eval_outcome_t ps x in
        let '(ps2, vs) := eval_all_t ps1 t in
        (ps2, Some v :: vs)
    end.
End EvalT.
