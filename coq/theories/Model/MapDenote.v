(* The denotation of a map request: what the MapSpec index notation says each output array is.
   Written pointwise over full output indices; no loops over linear indices, no flat-index arithmetic,
   no storage.  Used as the specification for Model/MapRun.v and as the oracle for the implementation. *)
From Verif Require Import Base.Prelude Base.StrUtil Base.Index Base.NdArr Model.MapSpec Model.MapSpecSpec Model.MapRun.

Section WithBody.
  Variable body : mfunc -> env -> result (list val).

  (* the argument delivered for parameter p at external position e (a tuple over external_indices ms):
     mapped inputs are sliced at the coordinates named by their axes (':' axes whole), other parameters whole *)
  Definition arg_at (ms : mapspec) (e : list nat) (pv : str * val) : result (str * val) :=
    match find (fun a => str_eqb (aname a) (fst pv)) (ins ms) with
    | None => Ok pv
    | Some a =>
        do key <- mapM (fun ax => match ax with
                                  | None => Ok KAll
                                  | Some x => match pos_of x (external_indices ms) with
                                              | Some q => match nth_error e q with
                                                          | Some c => Ok (KInt c) | None => Err IndexError end
                                              | None => Err KeyError
                                              end
                                  end) (axes a);
        do v <- index_val (snd pv) key;
        Ok (fst pv, v)
    end.

  Definition denote_elem (f : mfunc) (ms : mapspec) (kw : env) (mask : list bool) (j : nat) (idx : list nat)
    : result str :=
    do sel <- mapM (arg_at ms (ext_of mask idx)) kw;
    do outs <- body f sel;
    match nth_error outs j with
    | None => Err ValueError
    | Some (VS x) => if forallb id mask then Ok x else Err ValueError
    | Some (VA a) => if forallb id mask then Err ValueError
                     else match nd_get a (int_of mask idx) with Some x => Ok x | None => Err IndexError end
    end.

  (* for functions with internal axes the returned array must have exactly the internal shape *)
  Definition ret_shape_ok (f : mfunc) (ms : mapspec) (kw : env) (sh : list nat) (mask : list bool) : result unit :=
    if forallb id mask then Ok tt else
    do _ <- mapM (fun e =>
                    do sel <- mapM (arg_at ms e) kw;
                    do outs <- body f sel;
                    if forallb (fun v => match v with
                                         | VA a => list_eqb Nat.eqb (shp a) (int_of mask sh) && nd_wf a
                                         | VS _ => false end) outs
                    then Ok tt else Err ValueError) (all_indices (ext_of mask sh));
    Ok tt.

  Definition denote_mapped (f : mfunc) (ms : mapspec) (kw : env) (sh : list nat) (mask : list bool)
    : result (list (nd str)) :=
    do _ <- ret_shape_ok f ms kw sh mask;
    mapM (fun j => do d <- mapM (denote_elem f ms kw mask j) (all_indices sh);
                   Ok {| shp := sh; dat := d |})
         (seq 0 (length (fouts f))).

  Record den_state := { d_env : env; d_shapes : shapes_t; d_out : list (str * val) }.

  Definition denote_func (user : shape_dict) (st : den_state) (f : mfunc) : result den_state :=
    do shm <- func_shape user (d_shapes st) f;
    let shapes' := match shm with
                   | Some sm => map (fun o => (o, sm)) (fouts f) ++ d_shapes st
                   | None => d_shapes st
                   end in
    do kw <- func_kwargs f (d_env st);
    if is_mapped f then
      match fspec f, shm with
      | Some ms, Some (sh, mask) =>
          if negb (forallb (fun d => 0 <? d) sh) then Err ValueError else
          do arrs <- denote_mapped f ms kw sh mask;
          let new := combine (fouts f) (map VA arrs) in
          Ok {| d_env := new ++ d_env st; d_shapes := shapes'; d_out := d_out st ++ new |}
      | _, _ => Err AssertionError
      end
    else
      do outs <- body f kw;
      if negb (length outs =? length (fouts f)) then Err ValueError else
      (* a generator function `... -> v[j]` must return arrays of the declared internal shape *)
      if negb (match shm with
               | Some (sh, _) => forallb (fun v => match v with
                                                   | VA a => list_eqb Nat.eqb (shp a) sh && nd_wf a
                                                   | VS _ => false end) outs
               | None => true end) then Err ValueError else
      let new := combine (fouts f) outs in
      Ok {| d_env := new ++ d_env st; d_shapes := shapes'; d_out := d_out st ++ new |}.

  Definition denote_run (p : list mfunc) (inputs : env) (user : shape_dict) : result den_state :=
    fold_left (fun acc f => do st <- acc; denote_func user st f) p
              (Ok {| d_env := inputs; d_shapes := init_shapes inputs; d_out := [] |}).

  (* declarative side conditions of a valid request (beyond "the denotation is defined") *)
  Definition func_ok (f : mfunc) : bool :=
    nodup_str (fouts f) && nodup_str (fparams f) &&
    match fspec f with
    | None => true
    | Some ms =>
        wf_decl ms && list_eqb str_eqb (map aname (outs ms)) (fouts f)
        && forallb (fun a => mem_str (aname a) (fparams f) && negb (mem_str (aname a) (map fst (fbound f)))) (ins ms)
        && nodup_str (map aname (ins ms)) && nodup_str (output_indices ms) && forallb nodup_axes (ins ms)
    end.

  Definition request_ok (p : list mfunc) (inputs : env) : bool :=
    forallb func_ok p
    && nodup_str (flat_map fouts p ++ map fst inputs)
    && forallb (fun kv => match snd kv with VA a => nd_wf a && forallb (fun d => 0 <? d) (shp a) | VS _ => true end) inputs.
End WithBody.
