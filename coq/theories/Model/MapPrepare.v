(* The input validations of Pipeline.map that run before the first function (pipefunc/map/_prepare.py
   `_validate_complete_inputs`, pipefunc/map/_run_info.py `_check_inputs`), on the function records of Model/MapRun.v,
   and the declarative reading "conforming inputs" of property C01 (every root argument is supplied or has a default,
   nothing else is supplied, N-d inputs (N >= 2) are ndarrays).
   (prepare_run also re-runs validate_consistent_axes: the same call on the same MapSpecs as the last validation of
   the construction, Model/AutoGen.validate_mapspec.)  C12 (Model/Validate.v) covers these validations in depth on its
   own request type; here they complete the C01 model so that non-conforming requests are compared as well.
   Definitions only. *)
From Verif Require Import Base.Prelude Base.StrUtil Base.Index Base.NdArr Model.MapSpec Model.MapRun Model.AutoGen.

(* Pipeline.defaults (keys): signature defaults of parameters that are not bound in their function and that no
   function produces (PipeFunc.defaults already omits bound parameters) *)
Definition pipeline_defaults (fs : list mfunc) : list str :=
  flat_map (fun f => filter (fun p => negb (is_bound f p) && negb (mem_str p (all_outs fs))) (map fst (fdefaults f))) fs.

Definition subset_str (a b : list str) : bool := forallb (fun x => mem_str x b) a.

(* _validate_complete_inputs: "Missing inputs" / "Got extra inputs" *)
Definition validate_complete_inputs (fs : list mfunc) (inputs : env) : result unit :=
  let roots := root_args fs in
  let given := map fst inputs ++ pipeline_defaults fs in
  if negb (subset_str roots given) then Err ValueError
  else if negb (subset_str given roots) then Err ValueError
  else Ok tt.

(* mapspec_dimensions: a dict comprehension over all ArraySpecs - the last one of a name wins; .get(name, 0) *)
Definition mapspec_dim (fs : list mfunc) (n : str) : nat :=
  match find (fun a => str_eqb (aname a) n) (rev (flat_map (fun m => ins m ++ outs m) (specs_of fs))) with
  | Some a => rank a
  | None => 0
  end.

(* _check_inputs: an input of declared rank > 1 given as a list / tuple; `aslist` = the inputs passed as lists *)
Definition check_inputs (fs : list mfunc) (inputs : env) (aslist : list str) : result unit :=
  if existsb (fun kv => (1 <? mapspec_dim fs (fst kv)) && mem_str (fst kv) aslist) inputs
  then Err ValueError else Ok tt.

Definition prepare_checks (fs : list mfunc) (inputs : env) (aslist : list str) : result unit :=
  do _ <- validate_complete_inputs fs inputs;
  check_inputs fs inputs aslist.

(* ---------- declarative: the inputs conform to the pipeline ---------- *)
Definition conforming (fs : list mfunc) (inputs : env) (aslist : list str) : bool :=
  let supplied := map fst inputs ++ pipeline_defaults fs in
  forallb (fun r => mem_str r supplied) (root_args fs)                     (* every root argument supplied or defaulted *)
  && forallb (fun n => mem_str n (root_args fs)) supplied                  (* nothing else *)
  && forallb (fun kv => negb (mem_str (fst kv) aslist)                     (* lists only where no MapSpec declares rank >= 2 *)
                        || forallb (fun a => negb (str_eqb (aname a) (fst kv)) || (rank a <=? 1))
                                   (flat_map (fun m => ins m ++ outs m) (specs_of fs))) inputs.
