(* Model of "running a map on an existing store": pipefunc/map/_run.py (_mask_fixed_axes,
   _existing_and_missing_indices, _prepare_submit_map_spec, _output_from_mapspec_task, _execute_single,
   _load_from_store, _func_kwargs, generation-wise submit/process), pipefunc/map/_prepare.py
   (_validate_fixed_indices, _reduced_axes), pipefunc/map/_mapspec.py (mapspec_axes) and
   pipefunc/map/adaptive.py (create_learners, _sequence, _execute_iteration_in_map_spec/_single,
   _identify_cross_product_axes, _iterate_axes) with Pipeline._axis_in_root_arg.
   Builds on Model/MapRun.v (select_kwargs, place, func_shape).  Definitions only. *)
From Verif Require Import Base.Prelude Base.StrUtil Base.Index Base.NdArr Base.PyRange Base.StrSeq
  Model.MapSpec Model.MapRun.

(* ------------------------------------------------------------------ fixed_indices *)
Definition fixed := list (str * fsel).                  (* the dict fixed_indices (keys unique) *)

(* fixed_indices.get(axis, slice(None)) *)
Definition key_of (d : fixed) (axis : str) : fsel :=
  match dict_get d axis with Some f => f | None => full_slice end.

(* itertools.product of the per-axis index lists *)
Fixpoint cart (ls : list (list nat)) : list (list nat) :=
  match ls with
  | [] => [[]]
  | l :: t => flat_map (fun i => map (cons i) (cart t)) l
  end.

(* select = np.zeros(ext, bool); select[key] = True; select.flat
   (basic indexing with ints and slices: the assigned positions are the product of the per-axis
   selections; a key shorter than the rank is padded with full slices, a longer one is an IndexError) *)
Definition np_assign_true (ext : list nat) (key : list fsel) : result (list bool) :=
  if length ext <? length key then Err IndexError
  else
    let key' := key ++ repeat full_slice (length ext - length key) in
    do ls <- mapM (fun kn => fsel_indices (fst kn) (snd kn)) (combine key' ext);
    Ok (fold_left (fun acc pos => upd acc (ravel ext pos) true) (cart ls) (repeat false (prod ext))).

(* _mask_fixed_axes *)
Definition mask_fixed_axes (fx : option fixed) (ms : mapspec) (sh : list nat) (mask : list bool)
  : result (option (list bool)) :=
  match fx with
  | None => Ok None
  | Some d =>
      let key := map (key_of d) (output_indices ms) in
      do m <- np_assign_true (ext_of mask sh) (ext_of mask key);
      Ok (Some m)
  end.

(* the linear external indices a request selects (np.flatnonzero of the mask; everything without a request) *)
Definition flatnonzero (m : list bool) : list nat :=
  filter (fun i => nth i m false) (seq 0 (length m)).

Definition selected (fx : option fixed) (ms : mapspec) (sh : list nat) (mask : list bool) : result (list nat) :=
  do fm <- mask_fixed_axes fx ms sh mask;
  match fm with
  | None => Ok (seq 0 (prod (ext_of mask sh)))
  | Some m => Ok (flatnonzero m)
  end.

(* ------------------------------------------------------------------ stores *)
(* one element of a storage array, by external linear index:
   None = missing, Some (Ok v) = stored, Some (Err e) = present but loading it raises e (torn file) *)
Definition cell := option (result val).
Definition estore := list cell.
Definition cell_missing (c : cell) : bool := match c with None => true | Some _ => false end.
Definition mask_linear (st : estore) : list bool := map cell_missing st.
Definition has_index (st : estore) (i : nat) : bool := negb (cell_missing (nth i st None)).

(* what a run folder holds: storage arrays of mapped outputs, files of unmapped outputs *)
Record rstore := { st_arr : list (str * estore); st_val : list (str * result val) }.
Definition empty_store : rstore := {| st_arr := []; st_val := [] |}.

Definition get_arr (rs : rstore) (o : str) (n : nat) : estore :=
  match dict_get (st_arr rs) o with Some st => st | None => repeat None n end.
Definition set_arr (rs : rstore) (o : str) (st : estore) : rstore :=
  {| st_arr := dict_set (st_arr rs) o st; st_val := st_val rs |}.
Definition set_val (rs : rstore) (o : str) (v : val) : rstore :=
  {| st_arr := st_arr rs; st_val := dict_set (st_val rs) o (Ok v) |}.

(* _existing_and_missing_indices: zip of the masks of all outputs and the fixed mask.
   Every store handled by the model has exactly prod(ext) cells. *)
Definition classify (stores : list estore) (fm : option (list bool)) (n : nat) : list nat * list nat :=
  let selb i := match fm with None => true | Some m => nth i m false end in
  let miss i := existsb (fun st => cell_missing (nth i st None)) stores in
  (filter (fun i => selb i && negb (miss i)) (seq 0 n),
   filter (fun i => selb i && miss i) (seq 0 n)).

(* StorageBase.to_array(): masked positions are rendered "--" *)
Definition render (sh : list nat) (mask : list bool) (st : estore) : result (nd str) :=
  do d <- fold_left (fun acc ic =>
                       do arr <- acc;
                       match snd ic with
                       | None => Ok arr
                       | Some (Err e) => Err e
                       | Some (Ok v) => place sh mask (fst ic) v arr
                       end)
            (combine (seq 0 (length st)) st) (Ok (repeat (s "--") (prod sh)));
  Ok {| shp := sh; dat := d |}.

(* ------------------------------------------------------------------ traces *)
Inductive action :=
| ACall (f : str) (i : option nat) (kw : env)   (* the user function is entered (element i / whole) with these arguments *)
| ADump (o : str) (i : nat) (v : val)     (* array.dump(output_key, v) at linear position i *)
| ADumpSingle (o : str) (v : val).        (* outputs/<o>.cloudpickle written *)

(* a failing run keeps the trace up to the failure *)
Inductive res (A : Type) := ROk (a : A) | RErr (e : err) (tr : list action).
Arguments ROk {A} a.
Arguments RErr {A} e tr.
Definition lift {A} (tr : list action) (r : result A) : res A :=
  match r with Ok a => ROk a | Err e => RErr e tr end.
Definition rbind {A B} (r : res A) (f : A -> res B) : res B :=
  match r with ROk a => f a | RErr e tr => RErr e tr end.
Notation "'rdo' x <- r ; k" := (rbind r (fun x => k)) (at level 200, x pattern, r at level 100, k at level 200).

Definition calls_of (tr : list action) : list (str * option nat) :=
  flat_map (fun a => match a with ACall f i _ => [(f, i)] | _ => [] end) tr.

(* ------------------------------------------------------------------ static facts of a pipeline *)
Definition specs_of (p : list mfunc) : list mapspec :=
  flat_map (fun f => match fspec f with Some m => [m] | None => [] end) p.

(* shapes/masks of all arrays (map_shapes), functions in topological order *)
Definition all_shapes (user : shape_dict) (inputs : env) (p : list mfunc) : result shapes_t :=
  fold_left (fun acc f =>
               do shapes <- acc;
               do shm <- func_shape user shapes f;
               Ok (match shm with
                   | Some sm => map (fun o => (o, sm)) (fouts f) ++ shapes
                   | None => shapes
                   end))
            p (Ok (init_shapes inputs)).

Definition producer (p : list mfunc) (name : str) : option mfunc :=
  find (fun f => mem_str name (fouts f)) p.

(* topological generations: root arguments and bound values are generation 0, a function is one
   generation after its latest producer (nx.topological_generations = longest-path layering) *)
Definition levels (p : list mfunc) : list (str * nat) :=
  fold_left (fun lv f =>
               let l := S (fold_right Nat.max 0
                             (map (fun q => if mem_str q (map fst (fbound f)) then 0
                                            else match dict_get lv q with Some l => l | None => 0 end)
                                  (fparams f))) in
               lv ++ map (fun o => (o, l)) (fouts f))
            p [].
Definition level_of (lv : list (str * nat)) (f : mfunc) : nat :=
  match fouts f with o :: _ => match dict_get lv o with Some l => l | None => 0 end | [] => 0 end.
Definition generations (p : list mfunc) : list (list mfunc) :=
  let lv := levels p in
  let top := fold_right Nat.max 0 (map snd lv) in
  filter (fun g => negb (length g =? 0))
         (map (fun l => filter (fun f => level_of lv f =? l) p) (seq 1 top)).

(* decidable order conditions on the list of functions (used by the link to the denotation, Props/C06.v): the list is
   in topological order, every produced parameter is produced in an earlier generation, every function is in a
   generation.  pipefunc's sorted_functions / topological_generations satisfy them. *)
Definition indepb (g f : mfunc) : bool := forallb (fun o => negb (mem_str o (fparams f))) (fouts g).
Fixpoint topo_listb (p : list mfunc) : bool :=
  match p with
  | [] => true
  | f :: rest => indepb f f
                 && forallb (fun g => indepb g f && forallb (fun o => negb (mem_str o (fouts f))) (fouts g)) rest
                 && topo_listb rest
  end.
(* every parameter that some function produces is produced in an earlier generation (by names) *)
Fixpoint producers_beforeb (p : list mfunc) (names : list str) (gens : list (list mfunc)) : bool :=
  match gens with
  | [] => true
  | gen :: rest =>
      forallb (fun f => forallb (fun q => match producer p q with Some _ => mem_str q names | None => true end) (fparams f)) gen
      && producers_beforeb p (names ++ flat_map fouts gen) rest
  end.
Definition levels_okb (p : list mfunc) : bool :=
  let lv := levels p in
  let top := fold_right Nat.max 0 (map snd lv) in
  forallb (fun f => (1 <=? level_of lv f) && (level_of lv f <=? top)) p.
Definition pipeline_order_ok (p : list mfunc) : bool :=
  topo_listb p && producers_beforeb p [] (generations p) && levels_okb p.

(* mapspec_axes (with never-named leading axes reported as None, trailing ones dropped) *)
Definition axes_dict := list (str * list (option str)).
Fixpoint merge_axes (old new : list (option str)) : list (option str) :=
  match old, new with
  | [], l => l
  | l, [] => l
  | o :: old', n :: new' => (match n with Some x => Some x | None => o end) :: merge_axes old' new'
  end.
Fixpoint trim_none (l : list (option str)) : list (option str) :=
  match l with
  | [] => []
  | x :: t => match x, trim_none t with
              | None, [] => []
              | _, t' => x :: t'
              end
  end.
Definition mapspec_axes (specs : list mapspec) : axes_dict :=
  let arrs := flat_map (fun m => ins m ++ outs m) specs in
  let d := fold_left (fun d a =>
                        if existsb (fun x => negb (is_none x)) (axes a) then
                          match dict_get d (aname a) with
                          | Some old => dict_set d (aname a) (merge_axes old (axes a))
                          | None => d ++ [(aname a, axes a)]
                          end
                        else d) arrs [] in
  map (fun na => (fst na, trim_none (snd na))) d.

Definition axes_get (axd : axes_dict) (name : str) : list (option str) :=
  match dict_get axd name with Some l => l | None => [] end.

(* _reduced_axes, per array name *)
Definition reduced_axes_of (p : list mfunc) (axd : axes_dict) (name : str) : list str :=
  flat_map (fun f =>
              let in_spec := match fspec f with
                             | Some m => find (fun a => str_eqb (aname a) name) (ins m)
                             | None => None end in
              match in_spec with
              | None => if mem_str name (fparams f) then somes (axes_get axd name) else []
              | Some a =>
                  if existsb is_none (axes a)
                  then somes (map fst (filter (fun x => is_none (snd x)) (combine (axes_get axd name) (axes a))))
                  else []
              end) p.
Definition mapspec_names (p : list mfunc) : list str :=
  flat_map (fun m => map aname (ins m) ++ map aname (outs m)) (specs_of p).
Definition reduced_axes (p : list mfunc) : list str :=
  let axd := mapspec_axes (specs_of p) in
  flat_map (reduced_axes_of p axd) (mapspec_names p).

(* _validate_fixed_indices *)
Definition validate_fixed (fx : option fixed) (inputs : env) (p : list mfunc) : result unit :=
  match fx with
  | None => Ok tt
  | Some d =>
      let axd := mapspec_axes (specs_of p) in
      do _ <- mapM (fun na =>
                      match dict_get inputs (fst na) with
                      | None => Ok tt
                      | Some (VS _) => Err TypeError
                      | Some (VA a) =>
                          let key := map (fun ax => match ax with Some x => key_of d x | None => full_slice end) (snd na) in
                          if length (shp a) <? length key then Err IndexError
                          else do _ <- mapM (fun kn => fsel_indices (fst kn) (snd kn)) (combine key (shp a)); Ok tt
                      end) axd;
      let known := flat_map (fun na => somes (snd na)) axd in
      if existsb (fun a => negb (mem_str a known)) (map fst d) then Err ValueError
      else if existsb (fun a => mem_str a (reduced_axes p)) (map fst d) then Err ValueError
      else Ok tt
  end.

(* ------------------------------------------------------------------ one run *)
Section WithBody.
  Variable body : mfunc -> env -> result (list val).

  Record ctx := { x_p : list mfunc; x_inputs : env; x_shapes : shapes_t }.

  Definition shape_of (c : ctx) (f : mfunc) : result (list nat * list bool) :=
    match fouts f with
    | o :: _ => match dict_get (x_shapes c) o with Some sm => Ok sm | None => Err KeyError end
    | [] => Err IndexError
    end.

  (* _func_kwargs: bound > inputs > outputs (from the store) > defaults.
     Storage arrays are materialised here (to_array); the code does it at the first use. *)
  Definition lookup_arg_sel (c : ctx) (rs : rstore) (f : mfunc) (q : str) : result val :=
    match dict_get (fbound f) q with
    | Some v => Ok v
    | None =>
        match dict_get (x_inputs c) q with
        | Some v => Ok v
        | None =>
            match producer (x_p c) q with
            | Some g =>
                if is_mapped g then
                  do sm <- shape_of c g;
                  do a <- render (fst sm) (snd sm) (get_arr rs q (prod (ext_of (snd sm) (fst sm))));
                  Ok (VA a)
                else
                  match dict_get (st_val rs) q with
                  | Some (Ok v) => Ok v
                  | Some (Err e) => Err e
                  | None => Ok (VS none_str)
                  end
            | None =>
                match dict_get (fdefaults f) q with Some v => Ok v | None => Err ValueError end
            end
        end
    end.
  Definition func_kwargs_sel (c : ctx) (rs : rstore) (f : mfunc) : result env :=
    mapM (fun q => do v <- lookup_arg_sel c rs f q; Ok (q, v)) (fparams f).

  (* state of the element loop of one mapped function *)
  Record mstate := { m_stores : list estore; m_results : list (nat * list val); m_tr : list action }.

  (* _run_iteration_and_process + _update_array: select, call, pick, dump every output at output_key *)
  Definition compute_elem (f : mfunc) (ms : mapspec) (kw : env) (sh : list nat) (mask : list bool)
             (st : mstate) (i : nat) : res mstate :=
    let ext := ext_of mask sh in
    rdo sel <- lift (m_tr st) (select_kwargs ms kw ext i);
    let tr1 := m_tr st ++ [ACall (fname f) (Some i) sel] in
    rdo outs <- lift tr1 (body f sel);
    if negb (length outs =? length (fouts f)) then RErr ValueError tr1 else
    rdo key <- lift tr1 (output_key ms ext i);
    let pos := ravel ext key in
    ROk {| m_stores := map (fun sv => upd (fst sv) pos (Some (Ok (snd sv)))) (combine (m_stores st) outs);
           m_results := m_results st ++ [(i, outs)];
           m_tr := tr1 ++ map (fun ov => ADump (fst ov) pos (snd ov)) (combine (fouts f) outs) |}.

  Definition stores_of (rs : rstore) (f : mfunc) (n : nat) : list estore :=
    map (fun o => get_arr rs o n) (fouts f).
  Definition put_stores (rs : rstore) (f : mfunc) (sts : list estore) : rstore :=
    fold_left (fun r os => set_arr r (fst os) (snd os)) (combine (fouts f) sts) rs.

  (* _prepare_submit_map_spec + _maybe_parallel_map (sequential): classify, compute the missing ones *)
  Definition submit_mapped (f : mfunc) (ms : mapspec) (kw : env) (sh : list nat) (mask : list bool)
             (fx : option fixed) (stores : list estore) (tr : list action) : res (mstate * list nat) :=
    rdo fm <- lift tr (mask_fixed_axes fx ms sh mask);
    let em := classify stores fm (prod (ext_of mask sh)) in
    rdo st <- fold_left (fun acc i => rdo st <- acc; compute_elem f ms kw sh mask st i) (snd em)
                        (ROk {| m_stores := stores; m_results := []; m_tr := tr |});
    ROk (st, fst em).

  Definition get_from_index (st : estore) (i : nat) : result val :=
    match nth i st None with
    | Some r => r
    | None => Err FileNotFoundError
    end.

  (* _update_result_array for one element *)
  Definition put_elem (sh : list nat) (mask : list bool) (arrs : list (list str)) (i : nat) (outs : list val)
    : result (list (list str)) :=
    mapM (fun av : list str * val => place sh mask i (snd av) (fst av)) (combine arrs outs).

  (* _output_from_mapspec_task: result arrays from the computed and the existing elements;
     positions that were not selected keep None *)
  Definition process_mapped (f : mfunc) (sh : list nat) (mask : list bool) (st : mstate) (existing : list nat)
    : res (list (nd str)) :=
    let tr := m_tr st in
    let k := length (fouts f) in
    rdo a1 <- lift tr (fold_left (fun acc (io : nat * list val) =>
                                    do arrs <- acc; put_elem sh mask arrs (fst io) (snd io)) (m_results st)
                                 (Ok (repeat (repeat none_str (prod sh)) k)));
    rdo a2 <- lift tr (fold_left (fun acc (i : nat) =>
                                    do arrs <- acc;
                                    do outs <- mapM (fun e : estore => get_from_index e i) (m_stores st);
                                    put_elem sh mask arrs i outs) existing (Ok a1));
    ROk (map (fun d : list str => {| shp := sh; dat := d |}) a2).

  (* _load_from_store for a function without mapped inputs: Some outs when every file exists *)
  Definition load_single (rs : rstore) (f : mfunc) : result (option (list val)) :=
    do l <- mapM (fun o => match dict_get (st_val rs) o with
                           | Some (Ok v) => Ok (Some v)
                           | Some (Err e) => Err e
                           | None => Ok None
                           end) (fouts f);
    Ok (if forallb (fun x => match x with Some _ => true | None => false end) l
        then Some (flat_map (fun x => match x with Some v => [v] | None => [] end) l)
        else None).
  Definition single_exists (rs : rstore) (f : mfunc) : bool :=
    forallb (fun o => match dict_get (st_val rs) o with Some _ => true | None => false end) (fouts f).

  (* _execute_single: the stored output when it exists, else one call *)
  Definition execute_single (f : mfunc) (kw : env) (rs : rstore) (tr : list action) : res (list val * list action) :=
    rdo ld <- lift tr (load_single rs f);
    match ld with
    | Some outs => ROk (outs, tr)
    | None =>
        let tr1 := tr ++ [ACall (fname f) None kw] in
        rdo outs <- lift tr1 (body f kw);
        if negb (length outs =? length (fouts f)) then RErr ValueError tr1 else ROk (outs, tr1)
    end.

  (* _dump_single_output (also re-dumps an output that was loaded from the store) *)
  Definition dump_single (f : mfunc) (outs : list val) (rs : rstore) (tr : list action) : rstore * list action :=
    (fold_left (fun r ov => set_val r (fst ov) (snd ov)) (combine (fouts f) outs) rs,
     tr ++ map (fun ov => ADumpSingle (fst ov) (snd ov)) (combine (fouts f) outs)).

  (* the state of a run: store, Result.output per output name, trace *)
  Record pstate := { p_store : rstore; p_out : list (str * val); p_tr : list action }.

  Inductive task :=
  | TMapped (f : mfunc) (sh : list nat) (mask : list bool) (st : mstate) (existing : list nat)
  | TSingle (f : mfunc) (outs : list val).

  (* _submit_func *)
  Definition submit_func (c : ctx) (fx : option fixed) (ps : pstate) (f : mfunc) : res (pstate * task) :=
    rdo kw <- lift (p_tr ps) (func_kwargs_sel c (p_store ps) f);
    if is_mapped f then
      match fspec f with
      | Some ms =>
          rdo sm <- lift (p_tr ps) (shape_of c f);
          let sh := fst sm in
          let mask := snd sm in
          let stores := stores_of (p_store ps) f (prod (ext_of mask sh)) in
          rdo r <- submit_mapped f ms kw sh mask fx stores (p_tr ps);
          let st := fst r in
          ROk ({| p_store := put_stores (p_store ps) f (m_stores st); p_out := p_out ps; p_tr := m_tr st |},
               TMapped f sh mask st (snd r))
      | None => RErr AssertionError (p_tr ps)
      end
    else
      rdo r <- execute_single f kw (p_store ps) (p_tr ps);
      ROk ({| p_store := p_store ps; p_out := p_out ps; p_tr := snd r |}, TSingle f (fst r)).

  (* _process_task *)
  Definition process_task (ps : pstate) (t : task) : res pstate :=
    match t with
    | TMapped f sh mask st existing =>
        rdo arrs <- process_mapped f sh mask {| m_stores := m_stores st; m_results := m_results st; m_tr := p_tr ps |} existing;
        ROk {| p_store := p_store ps;
               p_out := p_out ps ++ combine (fouts f) (map VA arrs);
               p_tr := p_tr ps |}
    | TSingle f outs =>
        let r := dump_single f outs (p_store ps) (p_tr ps) in
        ROk {| p_store := fst r; p_out := p_out ps ++ combine (fouts f) outs; p_tr := snd r |}
    end.

  (* _run_and_process_generation: submit every function of the generation, then process them *)
  Definition run_generation (c : ctx) (fx : option fixed) (ps : pstate) (gen : list mfunc) : res pstate :=
    rdo r <- fold_left (fun acc f =>
                          rdo pt <- acc;
                          rdo r <- submit_func c fx (fst pt) f;
                          ROk (fst r, snd pt ++ [snd r])) gen (ROk (ps, []));
    fold_left (fun acc t => rdo ps' <- acc; process_task ps' t) (snd r) (ROk (fst r)).

  (* Pipeline.map(inputs, run_folder, fixed_indices=fx, cleanup=False) on the store rs *)
  Definition map_run_sel (p : list mfunc) (inputs : env) (user : shape_dict) (fx : option fixed) (rs : rstore)
    : res pstate :=
    rdo _ <- lift [] (validate_fixed fx inputs p);
    rdo shapes <- lift [] (all_shapes user inputs p);
    let c := {| x_p := p; x_inputs := inputs; x_shapes := shapes |} in
    fold_left (fun acc gen => rdo ps <- acc; run_generation c fx ps gen) (generations p)
              (ROk {| p_store := rs; p_out := []; p_tr := [] |}).

  (* what load_outputs / the storages show: every output rendered *)
  Definition stored_view (c : ctx) (rs : rstore) (f : mfunc) : result (list (str * val)) :=
    if is_mapped f then
      do sm <- shape_of c f;
      mapM (fun o => do a <- render (fst sm) (snd sm) (get_arr rs o (prod (ext_of (snd sm) (fst sm))));
                     Ok (o, VA a)) (fouts f)
    else
      mapM (fun o => match dict_get (st_val rs) o with
                     | Some (Ok v) => Ok (o, v)
                     | Some (Err e) => Err e
                     | None => Err FileNotFoundError
                     end) (fouts f).

  (* per output: mask_linear of the storage (one cell for an unmapped output) *)
  Definition masks_view (c : ctx) (rs : rstore) (f : mfunc) : result (list (str * list bool)) :=
    if is_mapped f then
      do sm <- shape_of c f;
      Ok (map (fun o => (o, mask_linear (get_arr rs o (prod (ext_of (snd sm) (fst sm)))))) (fouts f))
    else
      Ok (map (fun o => (o, [match dict_get (st_val rs) o with Some _ => false | None => true end])) (fouts f)).

  (* ---------------------------------------------------------------- learners (adaptive.py) *)
  Record learner := { l_f : mfunc; l_seq : list (option nat) }.

  (* _sequence *)
  Definition sequence_of (fx : option fixed) (ms : mapspec) (sh : list nat) (mask : list bool) : result (list nat) :=
    selected fx ms sh mask.

  (* _learner *)
  Definition learner_of (c : ctx) (fx : option fixed) (f : mfunc) : result learner :=
    if is_mapped f then
      match fspec f with
      | Some ms =>
          do sm <- shape_of c f;
          do sq <- sequence_of fx ms (fst sm) (snd sm);
          Ok {| l_f := f; l_seq := map Some sq |}
      | None => Err AssertionError
      end
    else Ok {| l_f := f; l_seq := [None] |}.

  (* Pipeline._axis_in_root_arg: accumulates visited names and the set of verdicts *)
  Fixpoint air_func (fuel : nat) (p : list mfunc) (axd : axes_dict) (axis : str) (f : mfunc)
           (st : list str * list bool) : result (list str * list bool) :=
    match fuel with
    | O => Err RuntimeError
    | S fuel' =>
        match fspec f with
        | None => Err AssertionError
        | Some ms =>
            if negb (mem_str axis (output_indices ms)) then Err ValueError
            else
              let st1 := if mem_str axis (input_indices_list ms) then st else (fst st, false :: snd st) in
              fold_left (fun acc a =>
                           do st' <- acc;
                           let name := aname a in
                           if negb (mem_str axis (somes (axes_get axd name))) then Ok st'
                           else match producer p name with
                                | None => Ok (fst st', true :: snd st')
                                | Some g =>
                                    if mem_str name (fst st') then Ok st'
                                    else air_func fuel' p axd axis g (name :: fst st', snd st')
                                end) (ins ms) (Ok st1)
        end
    end.
  Definition axis_in_root_arg (p : list mfunc) (axd : axes_dict) (axis : str) (f : mfunc) : result bool :=
    do r <- air_func (S (length (flat_map fouts p))) p axd axis f (fouts f, []);
    Ok (forallb id (snd r)).

  (* Pipeline.independent_axes_in_mapspecs *)
  Definition independent_axes (p : list mfunc) (axd : axes_dict) (f : mfunc) : result (list str) :=
    match fspec f with
    | None => Ok []
    | Some ms =>
        do l <- mapM (fun ax => do b <- axis_in_root_arg p axd ax f; Ok (ax, b)) (output_indices ms);
        Ok (map fst (filter snd l))
    end.

  Definition consumes (g f : mfunc) : bool :=
    existsb (fun q => mem_str q (fouts f) && negb (mem_str q (map fst (fbound g)))) (fparams g).
  Definition is_leaf (p : list mfunc) (f : mfunc) : bool := negb (existsb (fun g => consumes g f) p).
  (* func_dependencies: all transitive producers *)
  Fixpoint deps (fuel : nat) (p : list mfunc) (f : mfunc) : list mfunc :=
    match fuel with
    | O => []
    | S fuel' =>
        flat_map (fun g => if consumes f g then g :: deps fuel' p g else []) p
    end.

  (* _identify_cross_product_axes *)
  Definition cross_product_axes (p : list mfunc) : result (list str) :=
    let axd := mapspec_axes (specs_of p) in
    let leaves := filter (is_leaf p) p in
    let impossible :=
      flat_map (fun lf => flat_map (fun g => flat_map (reduced_axes_of p axd) (fouts g)) (deps (length p) p lf)) leaves in
    do poss <- mapM (independent_axes p axd) leaves;
    let possible := dedup_sorted (sort_str (concat poss)) in
    if existsb (fun a => mem_str a impossible) possible then Err AssertionError else Ok possible.

  (* _iterate_axes: the size of each axis from the first supplied input that names it *)
  Definition iterate_axes (axs : list str) (c : ctx) : result (list fixed) :=
    let axd := mapspec_axes (specs_of (x_p c)) in
    do sizes <- mapM (fun ax =>
                        match find (fun na => mem_str ax (somes (snd na))
                                              && match dict_get (x_inputs c) (fst na) with Some _ => true | None => false end) axd with
                        | None => Err RuntimeError        (* StopIteration inside a generator *)
                        | Some na =>
                            match index_of ax (snd na), dict_get (x_shapes c) (fst na) with
                            | Some dim, Some sm => match nth_error (fst sm) dim with Some d => Ok d | None => Err IndexError end
                            | _, _ => Err KeyError
                            end
                        end) axs;
    Ok (map (fun idx => combine axs (map (fun i => FInt (Z.of_nat i)) idx)) (all_indices sizes)).

  (* _maybe_iterate_axes *)
  Definition learner_requests (c : ctx) (fixed_arg : option fixed) (split : bool) : result (list (option fixed)) :=
    match fixed_arg with
    | Some (_ :: _ as d) =>
        do _ <- validate_fixed (Some d) (x_inputs c) (x_p c); Ok [Some d]
    | _ =>
        if negb split then Ok [None]
        else
          do axs <- cross_product_axes (x_p c);
          do reqs <- iterate_axes axs c;
          do _ <- mapM (fun d => validate_fixed (Some d) (x_inputs c) (x_p c)) reqs;
          Ok (map Some reqs)
    end.

  (* create_learners: per request (key), per generation, one learner per function (sorted by name here) *)
  Definition mfunc_leb (a b : mfunc) : bool := str_leb (fname a) (fname b).
  Definition create_learners (p : list mfunc) (inputs : env) (user : shape_dict) (fixed_arg : option fixed) (split : bool)
    : result (ctx * list (fixed * list (list learner))) :=
    do shapes <- all_shapes user inputs p;
    let c := {| x_p := p; x_inputs := inputs; x_shapes := shapes |} in
    do reqs <- learner_requests c fixed_arg split;
    do l <- mapM (fun fx =>
                    do gens <- mapM (fun gen => mapM (learner_of c fx) (sort_by mfunc_leb gen)) (generations p);
                    Ok (match fx with Some d => sort_by (fun a b => str_leb (fst a) (fst b)) d | None => [] end, gens)) reqs;
    Ok (c, l).

  Record lstate := { ls_store : rstore; ls_tr : list action }.

  (* one point of a learner: _execute_iteration_in_map_spec / _execute_iteration_in_single *)
  Definition learner_step (c : ctx) (f : mfunc) (x : option nat) (ls : lstate) : res lstate :=
    let tr := ls_tr ls in
    match x with
    | Some i =>
        match fspec f with
        | Some ms =>
            rdo sm <- lift tr (shape_of c f);
            let sh := fst sm in
            let mask := snd sm in
            let stores := stores_of (ls_store ls) f (prod (ext_of mask sh)) in
            if forallb (fun st => has_index st i) stores then ROk ls
            else
              rdo kw <- lift tr (func_kwargs_sel c (ls_store ls) f);
              rdo st <- compute_elem f ms kw sh mask {| m_stores := stores; m_results := []; m_tr := tr |} i;
              ROk {| ls_store := put_stores (ls_store ls) f (m_stores st); ls_tr := m_tr st |}
        | None => RErr AssertionError tr
        end
    | None =>
        if single_exists (ls_store ls) f then ROk ls
        else
          rdo kw <- lift tr (func_kwargs_sel c (ls_store ls) f);
          rdo r <- execute_single f kw (ls_store ls) tr;
          let d := dump_single f (fst r) (ls_store ls) (snd r) in
          ROk {| ls_store := fst d; ls_tr := snd d |}
    end.

  Definition run_learner (c : ctx) (l : learner) (rev_points : bool) (ls : lstate) : res lstate :=
    fold_left (fun acc x => rdo s' <- acc; learner_step c (l_f l) x s')
              (if rev_points then rev (l_seq l) else l_seq l) (ROk ls).

  (* run the learners addressed by (key index, generation index, position) in the given order *)
  Definition run_learners (c : ctx) (ls : list (fixed * list (list learner))) (order : list (nat * nat * nat))
             (rev_points : bool) (s0 : lstate) : res lstate :=
    fold_left (fun acc kgl =>
                 rdo st <- acc;
                 match nth_error ls (fst (fst kgl)) with
                 | Some kg => match nth_error (snd kg) (snd (fst kgl)) with
                              | Some g => match nth_error g (snd kgl) with
                                          | Some l => run_learner c l rev_points st
                                          | None => ROk st end
                              | None => ROk st end
                 | None => ROk st
                 end) order (ROk s0).
End WithBody.
