(* Model of the sequential path of Pipeline.map (pipefunc/map/_run.py, _shapes.py, _run_info.py):
   map_shapes, _func_kwargs, _select_kwargs, _run_iteration_and_process, _update_result_array/_set_output,
   _update_array (storage dump at output_key), _execute_single/_dump_single_output.
   Values are strings or object arrays of strings.  Definitions only. *)
From Verif Require Import Base.Prelude Base.StrUtil Base.Index Base.NdArr Model.MapSpec.

Inductive val := VS (x : str) | VA (a : nd str).

Record mfunc := {
  fname : str;
  fouts : list str;
  fparams : list str;
  fbound : list (str * val);
  fdefaults : list (str * val);
  fspec : option mapspec;
  fint : list nat;  (* PipeFunc(internal_shape=...); [] = not given *)
  fret : list nat   (* shape of the arrays the user function returns ([] = scalar); read only by oracles *)
}.

Definition env := list (str * val).

Definition val_shape (v : val) : result (list nat) :=
  match v with VA a => Ok (shp a) | VS _ => Err TypeError end.   (* array_shape of a non-array *)

Definition is_mapped (f : mfunc) : bool :=
  match fspec f with Some ms => match ins ms with [] => false | _ => true end | None => false end.

(* ---------- map_shapes ---------- *)
(* internal shapes: user dict first, else the function attribute for each of its outputs *)
Definition internal_of (user : shape_dict) (f : mfunc) : shape_dict :=
  flat_map (fun o => match dict_get user o with
                     | Some sh => [(o, sh)]
                     | None => match fint f with [] => [] | sh => [(o, sh)] end
                     end) (fouts f).

(* shapes / masks of every array known so far *)
Definition shapes_t := list (str * (list nat * list bool)).

Definition func_shape (user : shape_dict) (shapes : shapes_t) (f : mfunc) : result (option (list nat * list bool)) :=
  match fspec f with
  | None => Ok None
  | Some ms =>
      let ish := flat_map (fun n => match dict_get shapes n with Some sm => [(n, fst sm)] | None => [] end)
                          (map aname (ins ms)) in
      do r <- shape ms ish (internal_of user f); Ok (Some r)
  end.

(* ---------- one function ---------- *)
Definition lookup_arg (f : mfunc) (e : env) (p : str) : result val :=
  match dict_get (fbound f) p with
  | Some v => Ok v
  | None => match dict_get e p with
            | Some v => Ok v
            | None => match dict_get (fdefaults f) p with Some v => Ok v | None => Err ValueError end
            end
  end.

Definition func_kwargs (f : mfunc) (e : env) : result env :=
  mapM (fun p => do v <- lookup_arg f e p; Ok (p, v)) (fparams f).

Definition index_val (v : val) (key : list kitem) : result val :=
  match v with
  | VS _ => Err TypeError
  | VA a =>
      do r <- nd_index a key;
      match shp r, dat r with
      | [], [x] => Ok (VS x)
      | _, _ => Ok (VA r)
      end
  end.

(* _select_kwargs *)
Definition select_kwargs (ms : mapspec) (kw : env) (ext : list nat) (i : nat) : result env :=
  do keys <- input_keys ms ext i;
  mapM (fun pv => match dict_get keys (fst pv) with
                  | Some k => do v <- index_val (snd pv) k; Ok (fst pv, v)
                  | None => Ok pv
                  end) kw.

Section WithBody.
  (* user code: one value per output name (the picker is applied); Err models a raise *)
  Variable body : mfunc -> env -> result (list val).

  (* _set_output / result_array[index] = output : place the returned value of linear index i *)
  Definition place (sh : list nat) (mask : list bool) (i : nat) (v : val) (arr : list str) : result (list str) :=
    let ext := ext_of mask sh in
    let int := int_of mask sh in
    if forallb id mask then
      match v with VS x => Ok (upd arr i x) | VA _ => Err ValueError end
    else
      match v with
      | VA a =>
          if negb (list_eqb Nat.eqb (shp a) int) then Err AssertionError
          else fold_left (fun acc jj =>
                            do r <- acc;
                            match nd_get a jj with
                            | Some x => Ok (upd r (ravel sh (merge mask (unravel ext i) jj)) x)
                            | None => Err IndexError
                            end) (all_indices int) (Ok arr)
      | VS _ => Err AssertionError
      end.

  (* storage content: full index -> option value; dump(output_key, value) *)
  Definition sto := list (list nat * str).
  Definition sto_dump (sh : list nat) (mask : list bool) (key : list nat) (v : val) (st : sto) : result sto :=
    let int := int_of mask sh in
    match v, int with
    | VS x, [] => Ok ((merge mask key [], x) :: st)
    | VA a, _ :: _ =>
        if negb (list_eqb Nat.eqb (shp a) int) then Err ValueError
        else do l <- mapM (fun jj => match nd_get a jj with
                                     | Some x => Ok (merge mask key jj, x)
                                     | None => Err IndexError end) (all_indices int);
             Ok (l ++ st)
    | _, _ => Err ValueError
    end.

  Fixpoint sto_get (st : sto) (idx : list nat) : option str :=
    match st with
    | [] => None
    | (k, x) :: t => if list_eqb Nat.eqb k idx then Some x else sto_get t idx
    end.
  (* to_array: masked entries are rendered "--" *)
  Definition sto_array (sh : list nat) (st : sto) : nd str :=
    nd_of_fun sh (fun idx => match sto_get st idx with Some x => x | None => s "--" end).

  Definition none_str : str := s "None".

  (* mapped function: loop over all linear indices *)
  Definition run_mapped (f : mfunc) (ms : mapspec) (kw : env) (sh : list nat) (mask : list bool)
    : result (list (nd str) * list (nd str) * nat) :=
    let ext := ext_of mask sh in
    let n := prod ext in
    let k := length (fouts f) in
    let init := (repeat (repeat none_str (prod sh)) k, repeat ([] : sto) k) in
    do fin <- fold_left
         (fun acc i =>
            do st <- acc;
            do sel <- select_kwargs ms kw ext i;
            do outs <- body f sel;
            if negb (length outs =? k) then Err ValueError else
            do key <- output_key ms ext i;
            do arrs <- mapM (fun av => place sh mask i (snd av) (fst av)) (combine (fst st) outs);
            do stos <- mapM (fun sv => sto_dump sh mask key (snd sv) (fst sv)) (combine (snd st) outs);
            Ok (arrs, stos))
         (seq 0 n) (Ok init);
    Ok (map (fun d => {| shp := sh; dat := d |}) (fst fin), map (sto_array sh) (snd fin), n).

  (* the whole run: functions in a topological order *)
  Record run_state := { r_env : env; r_shapes : shapes_t; r_out : list (str * val * val); r_calls : nat }.

  Definition run_func (user : shape_dict) (st : run_state) (f : mfunc) : result run_state :=
    do shm <- func_shape user (r_shapes st) f;
    let shapes' := match shm with
                   | Some sm => map (fun o => (o, sm)) (fouts f) ++ r_shapes st
                   | None => r_shapes st
                   end in
    do kw <- func_kwargs f (r_env st);
    if is_mapped f then
      match fspec f, shm with
      | Some ms, Some (sh, mask) =>
          do r <- run_mapped f ms kw sh mask;
          let '(arrs, stored, n) := r in
          let new := combine (fouts f) (combine arrs stored) in
          Ok {| r_env := map (fun x => (fst x, VA (snd (snd x)))) new ++ r_env st;
                r_shapes := shapes';
                r_out := r_out st ++ map (fun x => (fst x, VA (fst (snd x)), VA (snd (snd x)))) new;
                r_calls := r_calls st + n |}
      | _, _ => Err AssertionError
      end
    else
      do outs <- body f kw;
      if negb (length outs =? length (fouts f)) then Err ValueError else
      let new := combine (fouts f) outs in
      Ok {| r_env := new ++ r_env st; r_shapes := shapes';
            r_out := r_out st ++ map (fun x => (fst x, snd x, snd x)) new;
            r_calls := r_calls st + 1 |}.

  Definition init_shapes (inputs : env) : shapes_t :=
    flat_map (fun kv => match snd kv with
                        | VA a => [(fst kv, (shp a, repeat true (length (shp a))))]
                        | VS _ => [] end) inputs.

  Definition map_run (p : list mfunc) (inputs : env) (user : shape_dict) : result run_state :=
    fold_left (fun acc f => do st <- acc; run_func user st f) p
              (Ok {| r_env := inputs; r_shapes := init_shapes inputs; r_out := []; r_calls := 0 |}).
End WithBody.
