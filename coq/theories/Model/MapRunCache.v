(* Model/MapRunCache.v - the sequential Pipeline.map of Model/MapRun.v with the pipeline cache threaded through
   _get_or_set_cache (pipefunc/map/_run.py, repaired code: one cache.get, on a miss the user function and one
   cache.put).  EVERY function invocation of a map run goes through the cache (`cache=pipeline.cache` is passed for
   all functions, whatever their `cache` flag): _run_iteration for the elements of a mapped function, _execute_single
   for an unmapped one.  Key: (func.output_name, to_hashable(kwargs)) - the kwargs of one function always come in the
   order of its parameters, so the env itself is the key.  Value: what the user function returned (here: the list of
   picked outputs, as in MapRun.v).
   The cache is any container with get/put over these keys and values (`kvcache`); `kv_simple` is a dict. *)
From Verif Require Import Base.Prelude Base.StrUtil Base.Index Base.NdArr Model.MapSpec Model.MapRun.

Record kvcache (K V C : Type) := { kget : C -> K -> option V * C; kput : C -> K -> V -> C }.
Arguments kget {K V C}. Arguments kput {K V C}.

Definition mkey := (list str * env)%type.
Definition mval := list val.

(* what every replacement policy guarantees (cf. CacheSemSpec.lawful): reads never invent entries, a write adds
   exactly its entry; eviction may remove anything *)
Record kv_lawful {K V C} (P : kvcache K V C) (good : C -> Prop) : Prop := {
  KL_good_get : forall c k, good c -> good (snd (kget P c k));
  KL_good_put : forall c k v, good c -> good (kput P c k v);
  KL_get : forall c k k' v, good c -> fst (kget P (snd (kget P c k)) k') = Some v -> fst (kget P c k') = Some v;
  KL_put : forall c k v k' v', good c -> fst (kget P (kput P c k v) k') = Some v' ->
                               (k' = k /\ v' = v) \/ fst (kget P c k') = Some v'
}.

(* a dict: never evicts *)
Section Simple.
  Context {K V : Type}.
  Variable keqb : K -> K -> bool.
  Fixpoint kv_find (c : list (K * V)) (k : K) : option V :=
    match c with [] => None | (k', v) :: t => if keqb k k' then Some v else kv_find t k end.
  Fixpoint kv_set (c : list (K * V)) (k : K) (v : V) : list (K * V) :=
    match c with
    | [] => [(k, v)]
    | (k', v') :: t => if keqb k k' then (k', v) :: t else (k', v') :: kv_set t k v
    end.
  Definition kv_simple : kvcache K V (list (K * V)) :=
    {| kget := fun c k => (kv_find c k, c); kput := kv_set |}.
End Simple.

(* equality of keys *)
Definition nd_eqb (a b : nd str) : bool := list_eqb Nat.eqb (shp a) (shp b) && list_eqb str_eqb (dat a) (dat b).
Definition val_eqb (a b : val) : bool :=
  match a, b with VS x, VS y => str_eqb x y | VA x, VA y => nd_eqb x y | _, _ => false end.
Definition env_eqb (a b : env) : bool := list_eqb (fun x y => str_eqb (fst x) (fst y) && val_eqb (snd x) (snd y)) a b.
Definition mkey_eqb (a b : mkey) : bool := list_eqb str_eqb (fst a) (fst b) && env_eqb (snd a) (snd b).
Definition map_simple : kvcache mkey mval (list (mkey * mval)) := kv_simple mkey_eqb.

Section WithBody.
  Variable body : mfunc -> env -> result (list val).
  Context {C : Type}.
  Variable P : kvcache mkey mval C.

  (* _get_or_set_cache(func, kwargs, cache, compute_fn): value, cache, number of executions of the user function *)
  Definition gos (f : mfunc) (kw : env) (c : C) : result mval * C * nat :=
    let '(ov, c1) := kget P c (fouts f, kw) in
    match ov with
    | Some r => (Ok r, c1, 0)
    | None =>
        match body f kw with
        | Err e => (Err e, c1, 1)
        | Ok r => (Ok r, kput P c1 (fouts f, kw) r, 1)
        end
    end.

  (* MapRun.run_mapped with the cache: state = (arrays so far | error, cache, executions) *)
  Definition mapped_step (f : mfunc) (ms : mapspec) (kw : env) (sh : list nat) (mask : list bool)
             (acc : result (list (list str) * list sto) * C * nat) (i : nat)
    : result (list (list str) * list sto) * C * nat :=
    let '(a, c, n) := acc in
    let ext := ext_of mask sh in
    let k := length (fouts f) in
    match a with
    | Err e => (Err e, c, n)
    | Ok st =>
        match select_kwargs ms kw ext i with
        | Err e => (Err e, c, n)
        | Ok sel =>
            let '(r, c', x) := gos f sel c in
            (do outs <- r;
             if negb (length outs =? k) then Err ValueError else
             do key <- output_key ms ext i;
             do arrs <- mapM (fun av => place sh mask i (snd av) (fst av)) (combine (fst st) outs);
             do stos <- mapM (fun sv => sto_dump sh mask key (snd sv) (fst sv)) (combine (snd st) outs);
             Ok (arrs, stos), c', n + x)
        end
    end.

  Definition run_mapped_c (f : mfunc) (ms : mapspec) (kw : env) (sh : list nat) (mask : list bool) (c : C)
    : result (list (nd str) * list (nd str) * nat) * C * nat :=
    let ext := ext_of mask sh in
    let n := prod ext in
    let k := length (fouts f) in
    let init := (repeat (repeat none_str (prod sh)) k, repeat ([] : sto) k) in
    let '(fin, c', x) := fold_left (mapped_step f ms kw sh mask) (seq 0 n) (Ok init, c, 0) in
    (do fin' <- fin; Ok (map (fun d => {| shp := sh; dat := d |}) (fst fin'), map (sto_array sh) (snd fin'), n), c', x).

  Definition run_func_c (user : shape_dict) (st : run_state) (f : mfunc) (c : C) : result run_state * C * nat :=
    match func_shape user (r_shapes st) f with
    | Err e => (Err e, c, 0)
    | Ok shm =>
        let shapes' := match shm with
                       | Some sm => map (fun o => (o, sm)) (fouts f) ++ r_shapes st
                       | None => r_shapes st
                       end in
        match func_kwargs f (r_env st) with
        | Err e => (Err e, c, 0)
        | Ok kw =>
            if is_mapped f then
              match fspec f, shm with
              | Some ms, Some (sh, mask) =>
                  let '(r, c', x) := run_mapped_c f ms kw sh mask c in
                  (do r' <- r;
                   let '(arrs, stored, n) := r' in
                   let new := combine (fouts f) (combine arrs stored) in
                   Ok {| r_env := map (fun x => (fst x, VA (snd (snd x)))) new ++ r_env st;
                         r_shapes := shapes';
                         r_out := r_out st ++ map (fun x => (fst x, VA (fst (snd x)), VA (snd (snd x)))) new;
                         r_calls := r_calls st + n |}, c', x)
              | _, _ => (Err AssertionError, c, 0)
              end
            else
              let '(r, c', x) := gos f kw c in
              (do outs <- r;
               if negb (length outs =? length (fouts f)) then Err ValueError else
               let new := combine (fouts f) outs in
               Ok {| r_env := new ++ r_env st; r_shapes := shapes';
                     r_out := r_out st ++ map (fun x => (fst x, snd x, snd x)) new;
                     r_calls := r_calls st + 1 |}, c', x)
        end
    end.

  (* the whole run: (MapRun's result, cache afterwards, executions of user functions) *)
  Definition map_run_c (p : list mfunc) (inputs : env) (user : shape_dict) (c : C) : result run_state * C * nat :=
    fold_left (fun acc f =>
                 let '(a, c0, n) := acc in
                 match a with
                 | Err e => (Err e, c0, n)
                 | Ok st => let '(r, c1, x) := run_func_c user st f c0 in (r, c1, n + x)
                 end) p
              (Ok {| r_env := inputs; r_shapes := init_shapes inputs; r_out := []; r_calls := 0 |}, c, 0).
End WithBody.
