(* Model of pipefunc/map/_mapspec.py: ArraySpec, MapSpec (construction, parse, print, shape,
   output_key, input_keys, rename, add_axes), validate_consistent_axes, mapspec_axes.
   Definitions only (proofs are in Proofs/). *)
From Verif Require Import Base.Prelude Base.StrUtil Base.Index.

Record aspec := { aname : str; axes : list (option str) }.
Record mapspec := { ins : list aspec; outs : list aspec }.

Definition axis_eqb := opt_eqb str_eqb.
Definition aspec_eqb (a b : aspec) : bool :=
  str_eqb (aname a) (aname b) && list_eqb axis_eqb (axes a) (axes b).
Definition mapspec_eqb (a b : mapspec) : bool :=
  list_eqb aspec_eqb (ins a) (ins b) && list_eqb aspec_eqb (outs a) (outs b).

(* ArraySpec.indices *)
Fixpoint somes {A} (l : list (option A)) : list A :=
  match l with [] => [] | Some x :: t => x :: somes t | None :: t => somes t end.
Definition indices (a : aspec) : list str := somes (axes a).
Definition rank (a : aspec) : nat := length (axes a).

(* ArraySpec.__post_init__ *)
Definition valid_name (n : str) : bool :=
  if mem_char "."%char n then
    match split_first "."%char n with
    | Some (scope, nm) => is_ident scope && is_ident nm
    | None => false
    end
  else is_ident n.
Definition valid_axis (a : option str) : bool :=
  match a with None => true | Some i => is_ident i end.
Definition mk_aspec (n : str) (ax : list (option str)) : result aspec :=
  if valid_name n && forallb valid_axis ax then Ok {| aname := n; axes := ax |} else Err ValueError.

Definition is_none {A} (o : option A) : bool := match o with None => true | Some _ => false end.

(* MapSpec.__post_init__ ; `self.outputs[0]` on an empty tuple raises IndexError *)
Definition mk_mapspec (i o : list aspec) : result mapspec :=
  match o with
  | [] => Err IndexError
  | o0 :: rest =>
      if existsb (fun x => existsb is_none (axes x)) o then Err ValueError
      else if negb (forallb (fun x => list_eqb str_eqb (indices x) (indices o0)) rest) then Err ValueError
      else if negb (forallb (fun ix => mem_str ix (indices o0)) (flat_map indices i)) then Err ValueError
      else Ok {| ins := i; outs := o |}
  end.

(* Re-validated construction from raw (name, axes) pairs, as done by every constructor call. *)
Definition build (i o : list (str * list (option str))) : result mapspec :=
  do i' <- mapM (fun na => mk_aspec (fst na) (snd na)) i;
  do o' <- mapM (fun na => mk_aspec (fst na) (snd na)) o;
  mk_mapspec i' o'.

(* ---------- printing ---------- *)
Definition axis_str (a : option str) : str := match a with None => s ":" | Some i => i end.
Definition print_aspec (a : aspec) : str :=
  aname a ++ s "[" ++ join (s ", ") (map axis_str (axes a)) ++ s "]".
Definition print (m : mapspec) : str :=
  (match ins m with [] => s "..." | l => join (s ", ") (map print_aspec l) end)
  ++ s " -> " ++ join (s ", ") (map print_aspec (outs m)).

(* ---------- parsing ---------- *)
(* _parse_index_string *)
Definition parse_index_string (x : str) : list (option str) :=
  map (fun p => let i := strip p in if str_eqb i (s ":") then None else Some i)
      (split_char ","%char x).

(* One attempt of the regex  (\w+(?:\.\w+)?\w* )\[(.+?)\]  anchored at the head of x.
   Returns (name, indices, rest after the closing bracket). *)
Definition not_nl (c : ascii) : bool := negb (Ascii.eqb c "010"%char).
Definition match_brackets (x : str) : option (str * str) :=
  (* x starts just after "[" ; `.+?\]` = one non-newline char, then lazily up to the first "]" *)
  match x with
  | [] => None
  | c :: t =>
      if not_nl c then
        let (body, rest) := span (fun d => not_nl d && negb (Ascii.eqb d "]"%char)) t in
        match rest with
        | "]"%char :: rest' => Some (c :: body, rest')
        | _ => None
        end
      else None
  end.
Definition try_match (x : str) : option (str * str * str) :=
  let (w1, r1) := span is_word x in
  match w1 with
  | [] => None
  | _ =>
      match r1 with
      | "["%char :: r2 =>
          match match_brackets r2 with
          | Some (body, rest) => Some (w1, body, rest)
          | None => None
          end
      | "."%char :: r2 =>
          let (w2, r3) := span is_word r2 in
          match w2, r3 with
          | _ :: _, "["%char :: r4 =>
              match match_brackets r4 with
              | Some (body, rest) => Some (w1 ++ "."%char :: w2, body, rest)
              | None => None
              end
          | _, _ => None
          end
      | _ => None
      end
  end.

(* re.findall: leftmost, non-overlapping *)
Fixpoint findall (fuel : nat) (x : str) : list (str * str) :=
  match fuel with
  | O => []
  | S fuel' =>
      match x with
      | [] => []
      | _ :: t =>
          match try_match x with
          | Some (n, b, rest) => (n, b) :: findall fuel' rest
          | None => findall fuel' t
          end
      end
  end.

(* _parse_indexed_arrays *)
Definition parse_indexed_arrays (x : str) : result (list aspec) :=
  if str_eqb (strip x) (s "...") then Ok []
  else if negb (mem_char "["%char x) || negb (mem_char "]"%char x) then Err ValueError
  else mapM (fun nb => mk_aspec (fst nb) (parse_index_string (snd nb))) (findall (S (length x)) x).

(* MapSpec.from_string *)
Definition parse (x : str) : result mapspec :=
  match split_arrow x with
  | [i; o] =>
      do i' <- parse_indexed_arrays i;
      do o' <- parse_indexed_arrays o;
      mk_mapspec i' o'
  | _ => Err ValueError
  end.

(* ---------- indices ---------- *)
Definition output_indices (m : mapspec) : list str :=
  match outs m with o0 :: _ => indices o0 | [] => [] end.
Definition input_indices_list (m : mapspec) : list str := flat_map indices (ins m).
Fixpoint dedup (l : list str) : list str :=
  match l with [] => [] | x :: t => if mem_str x t then dedup t else x :: dedup t end.
(* len(self.input_indices) : size of the set *)
Definition n_input_indices (m : mapspec) : nat := length (dedup (input_indices_list m)).
Definition external_indices (m : mapspec) : list str :=
  filter (fun n => mem_str n (input_indices_list m)) (output_indices m).

(* MapSpec.output_key *)
Definition output_key (m : mapspec) (sh : list nat) (n : nat) : result (list nat) :=
  if negb (length sh =? n_input_indices m) then Err ValueError else unravel_checked sh n.

(* dict(zip(names, key)) : later bindings win *)
Fixpoint zip_lookup (names : list str) (key : list nat) (x : str) : option nat :=
  match names, key with
  | n :: names', k :: key' =>
      match zip_lookup names' key' x with
      | Some v => Some v
      | None => if str_eqb n x then Some k else None
      end
  | _, _ => None
  end.

Inductive kitem := KInt (k : nat) | KAll.

(* MapSpec.input_keys : dict name -> key tuple (dict: later input with the same name wins, position of first) *)
Definition input_key_of (ids : str -> option nat) (a : aspec) : result (list kitem) :=
  mapM (fun ax => match ax with
                  | None => Ok KAll
                  | Some i => match ids i with Some k => Ok (KInt k) | None => Err KeyError end
                  end) (axes a).

Fixpoint dict_set {V} (d : list (str * V)) (k : str) (v : V) : list (str * V) :=
  match d with
  | [] => [(k, v)]
  | (k', v') :: t => if str_eqb k k' then (k', v) :: t else (k', v') :: dict_set t k v
  end.
Fixpoint dict_get {V} (d : list (str * V)) (k : str) : option V :=
  match d with
  | [] => None
  | (k', v') :: t => if str_eqb k k' then Some v' else dict_get t k
  end.

Definition input_keys (m : mapspec) (sh : list nat) (n : nat) : result (list (str * list kitem)) :=
  if negb (length sh =? length (external_indices m)) then Err ValueError
  else
    do key <- unravel_checked sh n;
    let ids := zip_lookup (external_indices m) key in
    fold_left (fun acc a => do d <- acc; do k <- input_key_of ids a; Ok (dict_set d (aname a) k))
              (ins m) (Ok []).

(* ---------- shape ---------- *)
Definition shape_dict := list (str * list nat).

Fixpoint index_of (x : str) (l : list (option str)) : option nat :=
  match l with
  | [] => None
  | Some y :: t => if str_eqb x y then Some 0 else option_map S (index_of x t)
  | None :: t => option_map S (index_of x t)
  end.

Definition keys_subset {V} (d : list (str * V)) (names : list str) : bool :=
  forallb (fun kv => mem_str (fst kv) names) d.

(* _validate_shapes *)
Definition validate_shapes (m : mapspec) (ishapes : shape_dict) (internal : shape_dict) : result unit :=
  let input_names := map aname (ins m) in
  if negb (keys_subset ishapes input_names) then Err ValueError
  else if negb (forallb (fun n => is_ok (match dict_get ishapes n with Some v => Ok v | None => Err KeyError end)) input_names)
       then Err ValueError
  else if negb (forallb (fun a => match dict_get ishapes (aname a) with
                                  | Some sh => length sh =? rank a | None => false end) (ins m))
       then Err ValueError
  else if negb (keys_subset internal (map aname (outs m))) then Err ValueError
  else Ok tt.

(* _get_common_dim *)
Definition get_dim (ishapes : shape_dict) (index : str) (a : aspec) : result nat :=
  match index_of index (axes a), dict_get ishapes (aname a) with
  | Some ax, Some sh => match nth_error sh ax with Some d => Ok d | None => Err IndexError end
  | _, _ => Err KeyError
  end.
Definition common_dim (ishapes : shape_dict) (index : str) (arrays : list aspec) : result nat :=
  do dims <- mapM (get_dim ishapes index) arrays;
  match dims with
  | [] => Err ValueError
  | d :: rest => if forallb (Nat.eqb d) rest then Ok d else Err ValueError
  end.

(* MapSpec.shape *)
Definition shape (m : mapspec) (ishapes internal : shape_dict) : result (list nat * list bool) :=
  do _ <- validate_shapes m ishapes internal;
  match outs m with
  | [] => Err IndexError
  | o0 :: _ =>
      (fix go (axs : list (option str)) (k : nat) : result (list nat * list bool) :=
         match axs with
         | [] => Ok ([], [])
         | None :: _ => Err AssertionError
         | Some index :: t =>
             let relevant := filter (fun x => mem_str index (indices x)) (ins m) in
             match relevant with
             | _ :: _ =>
                 do d <- common_dim ishapes index relevant;
                 do r <- go t k;
                 Ok (d :: fst r, true :: snd r)
             | [] =>
                 match dict_get internal (aname o0) with
                 | None => Err ValueError
                 | Some ish =>
                     match nth_error ish k with
                     | None => Err ValueError
                     | Some d => do r <- go t (S k); Ok (d :: fst r, false :: snd r)
                     end
                 end
             end
         end) (axes o0) 0
  end.

(* ---------- rename / add_axes ---------- *)
Definition rename (m : mapspec) (ren : list (str * str)) : result mapspec :=
  let names := map aname (ins m) ++ map aname (outs m) in
  if negb (existsb (fun n => is_ok (match dict_get ren n with Some v => Ok v | None => Err KeyError end)) names)
  then Ok m
  else
    let rn (a : aspec) := mk_aspec (match dict_get ren (aname a) with Some n => n | None => aname a end) (axes a) in
    do i <- mapM rn (ins m);
    do o <- mapM rn (outs m);
    mk_mapspec i o.

Definition aspec_add_axes (a : aspec) (ax : list (option str)) : result aspec :=
  if existsb (fun x => match x with
                       | Some _ => existsb (axis_eqb x) (axes a)
                       | None => false end) ax
  then Err ValueError
  else mk_aspec (aname a) (axes a ++ ax).

Definition add_axes (m : mapspec) (ax : list (option str)) : result mapspec :=
  do i <- mapM (fun a => aspec_add_axes a ax) (ins m);
  do o <- mapM (fun a => aspec_add_axes a ax) (outs m);
  mk_mapspec i o.
