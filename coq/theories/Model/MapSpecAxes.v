(* The pipeline-level helpers of pipefunc/map/_mapspec.py over a LIST of MapSpecs:
     validate_consistent_axes   = Model/Validate.v   (written for C12; reused, not duplicated)
     mapspec_axes               = Model/XrLabel.v    (written for C19: one entry per dimension, None for ':'-only axes)
     mapspec_dimensions         = below
   Definitions only. *)
From Verif Require Import Base.Prelude Base.StrUtil Model.MapSpec.
From Verif Require Model.Validate Model.XrLabel.

Definition all_aspecs (specs : list mapspec) : list aspec := flat_map (fun m => ins m ++ outs m) specs.

Definition validate_consistent_axes : list mapspec -> result unit := Validate.validate_consistent_axes.
Definition mapspec_axes : list mapspec -> list (str * list (option str)) := XrLabel.mapspec_axes.

(* {arrayspec.name: len(arrayspec.axes) for mapspec in mapspecs for arrayspec in chain(inputs, outputs)}:
   the last occurrence wins, a name keeps the position of its first insertion *)
Definition mapspec_dimensions (specs : list mapspec) : list (str * nat) :=
  fold_left (fun d a => dict_set d (aname a) (rank a)) (all_aspecs specs) [].
