(* Declarative statements about MapSpecs, written against the notation's meaning (not against the
   model functions of Model/MapSpec.v).  They are used (a) by the theorems of Props/C08.v and
   (b) as the executable oracle `spec_ok` applied to the implementation's observations. *)
From Verif Require Import Base.Prelude Base.StrUtil Base.Index Model.MapSpec.

Definition wf_aspec (a : aspec) : bool := valid_name (aname a) && forallb valid_axis (axes a).
Definition no_colon (a : aspec) : bool := negb (existsb is_none (axes a)).

(* Well-formed MapSpec as the property states it: identifier names, at least one output, no ':' in any
   output, all outputs carry identical indices, every input index appears in the output. *)
Definition wf_decl (m : mapspec) : bool :=
  forallb wf_aspec (ins m) && forallb wf_aspec (outs m) &&
  match outs m with
  | [] => false
  | o0 :: rest =>
      forallb no_colon (outs m)
      && forallb (fun o => list_eqb str_eqb (indices o) (indices o0)) rest
      && forallb (fun a => forallb (fun ix => mem_str ix (indices o0)) (indices a)) (ins m)
  end.

Definition raw_of (l : list (str * list (option str))) : list aspec :=
  map (fun na => {| aname := fst na; axes := snd na |}) l.

(* the notation cannot express rank-0 arrays ("a[]" does not match the grammar) *)
Definition printable (m : mapspec) : bool :=
  forallb (fun a => negb (length (axes a) =? 0)) (ins m ++ outs m).

Fixpoint nodup_str (l : list str) : bool :=
  match l with [] => true | x :: t => negb (mem_str x t) && nodup_str t end.

Fixpoint pos_of (x : str) (l : list str) : option nat :=
  match l with
  | [] => None
  | y :: t => if str_eqb x y then Some 0 else option_map S (pos_of x t)
  end.

Fixpoint forallb2 {A B} (f : A -> B -> bool) (a : list A) (b : list B) : bool :=
  match a, b with
  | [], [] => true
  | x :: a', y :: b' => f x y && forallb2 f a' b'
  | _, _ => false
  end.

(* What the keys of linear index n must be, given the output position `pos` (a tuple over the
   external indices): every named axis of every input carries the coordinate of that name, ':' axes
   carry the full slice. *)
Definition input_key_ok (ext : list str) (pos : list nat) (a : aspec) (key : list kitem) : bool :=
  forallb2 (fun ax k =>
              match ax, k with
              | None, KAll => true
              | Some x, KInt v => match pos_of x ext with
                                  | Some p => match nth_error pos p with Some c => c =? v | None => false end
                                  | None => false
                                  end
              | _, _ => false
              end) (axes a) key.

Definition input_keys_ok (m : mapspec) (pos : list nat) (keys : list (str * list kitem)) : bool :=
  (length keys =? length (ins m))
  && forallb (fun a => match dict_get keys (aname a) with
                       | Some key => input_key_ok (external_indices m) pos a key
                       | None => false
                       end) (ins m).

(* ---- shape ---- *)
(* all declared (input, position) pairs carrying index x *)
Definition carriers (m : mapspec) (x : str) : list (aspec * nat) :=
  flat_map (fun a => flat_map (fun qa => match snd qa with
                                         | Some y => if str_eqb x y then [(a, fst qa)] else []
                                         | None => [] end)
                              (combine (seq 0 (length (axes a))) (axes a))) (ins m).

Definition dim_at (ishapes : shape_dict) (aq : aspec * nat) : option nat :=
  match dict_get ishapes (aname (fst aq)) with
  | Some sh => nth_error sh (snd aq)
  | None => None
  end.

Definition nodup_axes (a : aspec) : bool := nodup_str (indices a).

(* shape request is acceptable: exactly the inputs are given with the declared ranks, internal shapes
   only for outputs, zipped dimensions agree, and the internal shape of the first output covers the
   output axes that name no input *)
Definition n_internal (m : mapspec) : nat :=
  length (filter (fun x => negb (mem_str x (input_indices_list m))) (output_indices m)).

Definition shape_request_ok (m : mapspec) (ishapes internal : shape_dict) : bool :=
  keys_subset ishapes (map aname (ins m))
  && forallb (fun a => match dict_get ishapes (aname a) with
                       | Some sh => length sh =? rank a | None => false end) (ins m)
  && keys_subset internal (map aname (outs m))
  && forallb (fun x => match map (dim_at ishapes) (carriers m x) with
                       | [] => true
                       | d :: rest => forallb (opt_eqb Nat.eqb d) rest
                       end) (output_indices m)
  && ((n_internal m =? 0)
      || match outs m with
         | o0 :: _ => match dict_get internal (aname o0) with
                      | Some ish => n_internal m <=? length ish | None => false end
         | [] => false
         end).

(* the returned (shape, mask) is the one the notation implies *)
Definition shape_result_ok (m : mapspec) (ishapes internal : shape_dict) (sh : list nat) (mask : list bool) : bool :=
  let oi := output_indices m in
  (length sh =? length oi) && (length mask =? length oi)
  && forallb (fun kx =>
        let k := fst kx in let x := snd kx in
        match carriers m x with
        | aq :: _ => (* external axis: mask true, dimension equals that of every carrier *)
            opt_eqb Bool.eqb (nth_error mask k) (Some true)
            && forallb (fun aq' => opt_eqb Nat.eqb (dim_at ishapes aq') (nth_error sh k)) (carriers m x)
        | [] => (* internal axis: mask false, dimension is the next entry of the internal shape *)
            opt_eqb Bool.eqb (nth_error mask k) (Some false)
            && match outs m with
               | o0 :: _ =>
                   match dict_get internal (aname o0) with
                   | Some ish => opt_eqb Nat.eqb (nth_error ish (length (filter negb (firstn k mask)))) (nth_error sh k)
                   | None => false
                   end
               | [] => false
               end
        end) (combine (seq 0 (length oi)) oi).
