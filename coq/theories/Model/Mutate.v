(* Model/Mutate.v - post-construction mutations of a pipeline (C12, case kind "mutate-then-use").

   A well-formed pipeline can be made ill-formed AFTER construction through
     member-level API    pipeline[name].update_defaults / update_bound / update_renames
                         (PipeFunc.update_*: _validate_update, the change, PipeFunc._validate; the owning pipeline's
                          cached properties are cleared but Pipeline._validate is NOT called)
     pipeline-level API  Pipeline.update_defaults / update_renames / add / replace
                         (loop over the member functions, "unused keys" check, Pipeline._validate)
   `mutate_desc` is what the call MEANS (the description of the pipeline afterwards, no validation; used by the
   executable statement), `mutation_checks` are the validations the call performs, in the code's order.
   The next run / map rebuilds Pipeline.graph first: Validate.graph_checks.
   NOT MODELLED: update_from="original", overwrite=True for renames / defaults, update_scope, drop, a pipeline-level
   call that raises half-way leaves the earlier member functions changed (the model stops at the exception).
   Definitions only. *)
From Verif Require Import Base.Prelude Base.StrOrd Base.StrUtil Base.Graph Model.MapSpec Model.PrepareSteps
  Model.Validate.

Inductive mutation :=
| MDefaults (j : nat) (d : alist)                     (* pipeline.functions[j].update_defaults(d) *)
| MBound (j : nat) (b : alist) (overwrite : bool)     (* pipeline.functions[j].update_bound(b, overwrite=...) *)
| MRename (j : nat) (ren : alist)                     (* pipeline.functions[j].update_renames(ren)  (current names) *)
| PDefaults (d : alist)                               (* pipeline.update_defaults(d) *)
| PRename (ren : alist)                               (* pipeline.update_renames(ren) *)
| PAdd (f : raw_func)                                 (* pipeline.add(PipeFunc(...)) *)
| PReplace (f : raw_func).                            (* pipeline.replace(PipeFunc(...)) *)

(* ---------- what the calls mean ---------- *)
Definition upd_merge (d new : alist) : alist :=                      (* dict(d, **new) *)
  fold_left (fun acc kv => dict_set acc (fst kv) (snd kv)) new d.
Definition with_defs (f : raw_func) (d : alist) : raw_func :=
  {| rname := rname f; routs := routs f; rparams := rparams f; rsigd := rsigd f; rdefs := d; rbound := rbound f;
     rspec := rspec f; rint := rint f |}.
Definition with_bound (f : raw_func) (b : alist) : raw_func :=
  {| rname := rname f; routs := routs f; rparams := rparams f; rsigd := rsigd f; rdefs := rdefs f; rbound := b;
     rspec := rspec f; rint := rint f |}.
Definition ren_name (ren : alist) (n : str) : str := match dict_get ren n with Some m => m | None => n end.
Definition ren_keys (ren : alist) (d : alist) : alist := map (fun kv => (ren_name ren (fst kv), snd kv)) d.
Definition ren_aspec (ren : alist) (a : aspec) : aspec := {| aname := ren_name ren (aname a); axes := axes a |}.
Definition ren_spec (ren : alist) (m : mapspec) : mapspec :=
  {| ins := map (ren_aspec ren) (ins m); outs := map (ren_aspec ren) (outs m) |}.
Definition rename_func (ren : alist) (f : raw_func) : raw_func :=
  {| rname := rname f; routs := map (ren_name ren) (routs f); rparams := map (ren_name ren) (rparams f);
     rsigd := ren_keys ren (rsigd f); rdefs := ren_keys ren (rdefs f); rbound := ren_keys ren (rbound f);
     rspec := option_map (ren_spec ren) (rspec f); rint := rint f |}.

Fixpoint set_nth {A} (l : list A) (j : nat) (x : A) : list A :=
  match l, j with
  | [], _ => []
  | _ :: t, O => x :: t
  | y :: t, S k => y :: set_nth t k x
  end.
Definition on_member (fs : list raw_func) (j : nat) (g : raw_func -> raw_func) : list raw_func :=
  match nth_error fs j with Some f => set_nth fs j (g f) | None => fs end.

(* the part of a pipeline-level update that concerns f *)
Definition defaults_for (f : raw_func) (d : alist) : alist :=
  filter (fun kv => mem_str (fst kv) (rparams f) && negb (ahas (rbound f) (fst kv))) d.
Definition renames_for (f : raw_func) (ren : alist) : alist :=
  filter (fun kv => mem_str (fst kv) (rparams f ++ routs f)) ren.
(* drop(output_name=new.output_name): output_to_func[key]; a str key also finds the tuple-output function that
   produces it *)
Definition key_match (new g : raw_func) : bool :=
  match routs new with
  | [o] => mem_str o (routs g)
  | os => list_eqb str_eqb (routs g) os
  end.
Fixpoint remove_first {A} (p : A -> bool) (l : list A) : list A :=
  match l with [] => [] | x :: t => if p x then t else x :: remove_first p t end.

Definition mutate_desc (fs : list raw_func) (mu : mutation) : list raw_func :=
  match mu with
  | MDefaults j d => on_member fs j (fun f => with_defs f (upd_merge (rdefs f) d))
  | MBound j b ow => on_member fs j (fun f => with_bound f (if ow then b else upd_merge (rbound f) b))
  | MRename j ren => on_member fs j (rename_func ren)
  | PDefaults d => map (fun f => match defaults_for f d with
                                 | [] => f
                                 | u => with_defs f (upd_merge (rdefs f) u) end) fs
  | PRename ren => map (fun f => rename_func (renames_for f ren) f) fs
  | PAdd f => fs ++ [f]
  | PReplace new => if existsb (key_match new) fs then remove_first (key_match new) fs ++ [new] else fs
  end.

(* ---------- the validations the calls perform ---------- *)
(* PipeFunc.update_defaults / update_bound / update_renames on f, giving f' *)
Definition member_update (f f' : raw_func) (keys : list str) (allowed : list str) (values_ident : list str)
  : result unit :=
  if negb (subset_str keys allowed) then Err ValueError                    (* _validate_update: unexpected keys *)
  else if negb (forallb is_ident values_ident) then Err ValueError         (* _validate_identifier *)
  else validate_func f'.                                                   (* PipeFunc._validate *)
Definition check_member (fs : list raw_func) (j : nat) (k : raw_func -> result unit) : result unit :=
  match nth_error fs j with Some f => k f | None => Err IndexError end.

Definition all_ok_f {A} (k : A -> result unit) (l : list A) : result unit := do _ <- mapM k l; Ok tt.

Definition mutation_checks (fs : list raw_func) (mu : mutation) : result unit :=
  let fs' := mutate_desc fs mu in
  match mu with
  | MDefaults j d =>
      check_member fs j (fun f => member_update f (with_defs f (upd_merge (rdefs f) d)) (akeys d) (rparams f) [])
  | MBound j b ow =>
      check_member fs j (fun f => member_update f (with_bound f (if ow then b else upd_merge (rbound f) b))
                                                (akeys b) (rparams f) [])
  | MRename j ren =>
      check_member fs j (fun f => member_update f (rename_func ren f) (akeys ren) (rparams f ++ routs f) (map snd ren))
  | PDefaults d =>
      do _ <- all_ok_f (fun f => match defaults_for f d with
                                 | [] => Ok tt
                                 | u => member_update f (with_defs f (upd_merge (rdefs f) u)) (akeys u) (rparams f) []
                                 end) fs;
      if negb (forallb (fun k => existsb (fun f => mem_str k (akeys (defaults_for f d))) fs) (akeys d))
      then Err ValueError                                                  (* Unused keyword arguments *)
      else pipeline_validate fs'
  | PRename ren =>
      do _ <- all_ok_f (fun f => let u := renames_for f ren in
                                 member_update f (rename_func u f) (akeys u) (rparams f ++ routs f) (map snd u)) fs;
      if negb (forallb (fun k => existsb (fun f => mem_str k (akeys (renames_for f ren))) fs) (akeys ren))
      then Err ValueError
      else pipeline_validate fs'
  | PAdd f =>
      do _ <- validate_func f;                                             (* PipeFunc(...) *)
      add_checks fs f
  | PReplace new =>
      do _ <- validate_func new;
      if negb (existsb (key_match new) fs) then Err KeyError               (* output_to_func[output_name] *)
      else
        let fs1 := remove_first (key_match new) fs in
        do _ <- pipeline_validate fs1;                                     (* drop *)
        do _ <- add_checks fs1 new;                                        (* add *)
        pipeline_validate fs'
  end.

Definition apply_mutation (fs : list raw_func) (mu : mutation) : result (list raw_func) :=
  do _ <- mutation_checks fs mu; Ok (mutate_desc fs mu).

(* ---------- the next use ---------- *)
(* pipeline(output, **root_args): Pipeline.run reads mapspec_names first, i.e. sorted_functions, i.e. the graph *)
Definition use_run (fs : list raw_func) : result unit := graph_checks fs.

(* map on the run folder of an earlier valid run of the pipeline as it was BEFORE the mutation *)
Definition with_funcs (q : mreq) (fs' : list raw_func) : mreq :=
  {| q_funcs := fs'; q_inputs := q_inputs q; q_internal := q_internal q; q_storage := q_storage q;
     q_registry := q_registry q; q_parallel := q_parallel q; q_executor := q_executor q; q_cleanup := q_cleanup q;
     q_prev := option_map (fun p => {| pv_inputs := pv_inputs p; pv_internal := pv_internal p;
                                       pv_funcs := Some (match pv_funcs p with Some g => g | None => q_funcs q end) |})
                          (q_prev q) |}.

(* the observable state of the pipeline after an accepted mutation, per function:
   outputs, parameters, PipeFunc.defaults, bound (sorted by name), MapSpec as printed *)
Definition func_state (f : raw_func) : list (list str) * list (str * str) * list (str * str) * str :=
  ([routs f; rparams f], fdefaults f, sort_by_key (rbound f),
   match rspec f with Some m => print m | None => [] end).
