(* Generation-wise parallel execution of Pipeline.map (pipefunc/map/_run.py):
     _run_and_process_generation = _submit_generation ; _process_generation
     _submit_func / _prepare_submit_map_spec / _maybe_parallel_map / _maybe_execute_single / _submit
     _run_iteration_and_process (the task body run by a worker), _update_array (worker xor parent dumps),
     _process_task / _output_from_mapspec_task (parent: results paired with indices by position), _dump_single_output.
   Built on Model/MapRun.v (same per-index computation, same placement and storage functions).

   A generation is executed in three phases:
     1. SUBMIT   for each function of the generation in order: kwargs are taken from the values of the PREVIOUS
                 generations (`_func_kwargs`), then one task per missing linear index (mapped function) or one single
                 task is handed to the executor.  The tasks in this order are the submission list; a future is
                 identified by its slot (= position) in that list.
     2. EXECUTE  the executor runs the tasks in an order chosen by the schedule (a permutation of the slots).
                 A task computes select_kwargs / user function / worker-side dumps; its outcome completes its future.
     3. PARENT   for each function in order: the futures are awaited BY SLOT (k-th future of the function with the
                 k-th missing index: zip(args.missing, outputs_list)), results are placed into the result arrays and the
                 remaining dumps are performed.  Only then the next generation is submitted (barrier).
   The storage content of an output is derived from the trace of dump events (in time order).

   Not modelled (sampled by the real-pool runs of the harness): pre-emptive interleaving of two tasks inside worker
   threads/processes, the manager process behind shared_memory_dict, pickling, OS scheduling, tasks that start
   executing while later tasks of the same generation are still being submitted (harmless here: a task reads only
   what `_func_kwargs` took from earlier generations).  Definitions only. *)
From Verif Require Import Base.Prelude Base.StrUtil Base.Index Base.NdArr Model.MapSpec Model.MapSpecSpec Model.MapRun.

(* what _submit_func prepares for one function (kwargs, and for mapped functions _MapSpecArgs) *)
Inductive prep :=
| PMapped (f : mfunc) (ms : mapspec) (kw : env) (sh : list nat) (mask : list bool)
| PSingle (f : mfunc) (kw : env).

Definition prep_fun (p : prep) : mfunc :=
  match p with PMapped f _ _ _ _ => f | PSingle f _ => f end.

(* one invocation of a user function: function, linear index (None = no MapSpec loop), the keyword arguments *)
Record call := { c_fn : mfunc; c_idx : option nat; c_kw : env }.

(* one StorageBase.dump(key, value): output name, external key, the (full index, element) pairs written, who *)
Record dump_ev := { dv_out : str; dv_key : list nat; dv_entries : sto; dv_worker : bool }.

Record outcome := { oc_calls : list call; oc_dumps : list dump_ev; oc_res : result (list val) }.

Definition task := (prep * option nat)%type.

Record par_state := {
  p_env : env; p_shapes : shapes_t; p_out : list (str * val * val);
  p_log : list call;            (* calls in execution order *)
  p_trace : list dump_ev;       (* dumps in time order *)
  p_preps : list prep           (* everything submitted so far, in submission order *)
}.

(* args.missing on a fresh run: every linear index of the external shape *)
Definition missing_of (p : prep) : list nat :=
  match p with
  | PMapped _ _ _ sh mask => seq 0 (prod (ext_of mask sh))
  | PSingle _ _ => []
  end.

Definition tasks_of (p : prep) : list task :=
  match p with
  | PMapped _ _ _ _ _ => map (fun i => (p, Some i)) (missing_of p)
  | PSingle _ _ => [(p, None)]
  end.

(* the order in which the slots 0..n-1 execute: the given list when it is a permutation of the slots; anything else
   does not denote a schedule and is read as submission order (the harness' executor applies the same rule) *)
Definition sched_ok (n : nat) (pi : list nat) : bool :=
  (length pi =? n) && forallb (fun s => existsb (Nat.eqb s) pi) (seq 0 n).
Definition order (n : nat) (pi : list nat) : list nat := if sched_ok n pi then pi else seq 0 n.

(* content of the storage of output o after the dumps of `trace` (later dumps in front, as sto_dump) *)
Definition sto_of (o : str) (trace : list dump_ev) : sto :=
  flat_map (fun ev => if str_eqb (dv_out ev) o then dv_entries ev else []) (rev trace).

(* valid layering: no parameter of a function is produced by its own or a later generation *)
Fixpoint layered (gens : list (list mfunc)) : bool :=
  match gens with
  | [] => true
  | g :: rest =>
      forallb (fun f => forallb (fun p => negb (mem_str p (flat_map fouts (g ++ concat rest)))) (fparams f)) g
      && layered rest
  end.
Definition layering_ok (gens : list (list mfunc)) : bool :=
  nodup_str (flat_map fouts (concat gens)) && layered gens.

Section WithBody.
  Variable body : mfunc -> env -> result (list val).
  Variable dis : str -> bool.   (* StorageBase.dump_in_subprocess of the storage chosen for an output *)

  (* _func_kwargs + _prepare_submit_map_spec (shapes are threaded as in MapRun.run_func) *)
  Definition prep_func (user : shape_dict) (shapes : shapes_t) (e : env) (f : mfunc) : result (prep * shapes_t) :=
    do shm <- func_shape user shapes f;
    let shapes' := match shm with
                   | Some sm => map (fun o => (o, sm)) (fouts f) ++ shapes
                   | None => shapes
                   end in
    do kw <- func_kwargs f e;
    if is_mapped f then
      match fspec f, shm with
      | Some ms, Some (sh, mask) => Ok (PMapped f ms kw sh mask, shapes')
      | _, _ => Err AssertionError
      end
    else Ok (PSingle f kw, shapes').

  (* _submit_generation: every function of the generation reads the environment of the previous generations *)
  Fixpoint submit_gen (user : shape_dict) (e : env) (shapes : shapes_t) (gen : list mfunc)
    : result (list prep * shapes_t) :=
    match gen with
    | [] => Ok ([], shapes)
    | f :: t =>
        do ps <- prep_func user shapes e f;
        do r <- submit_gen user e (snd ps) t;
        Ok (fst ps :: fst r, snd r)
    end.

  Definition dump_items (sh : list nat) (mask : list bool) (key : list nat) (v : val) : result sto :=
    sto_dump sh mask key v [].

  (* _update_array(in_post_process = negb worker): dump the outputs whose storage has
     dump_in_subprocess = worker; the output key is only computed when there is something to dump *)
  Definition dumps_for (worker : bool) (f : mfunc) (ms : mapspec) (sh : list nat) (mask : list bool) (i : nat)
             (outs : list val) : result (list dump_ev) :=
    match filter (fun ov => Bool.eqb (dis (fst ov)) worker) (combine (fouts f) outs) with
    | [] => Ok []
    | sel =>
        do key <- output_key ms (ext_of mask sh) i;
        mapM (fun ov => do l <- dump_items sh mask key (snd ov);
                        Ok {| dv_out := fst ov; dv_key := key; dv_entries := l; dv_worker := worker |}) sel
    end.

  Definition failed (c : list call) (e : err) : outcome := {| oc_calls := c; oc_dumps := []; oc_res := Err e |}.

  (* what a worker does for one task: _run_iteration_and_process / _execute_single.
     A raise completes the future with the exception; dumps of a failed task are not observable and dropped. *)
  Definition run_task (t : task) : outcome :=
    match t with
    | (PMapped f ms kw sh mask, Some i) =>
        match select_kwargs ms kw (ext_of mask sh) i with
        | Err e => failed [] e
        | Ok sel =>
            let c := [{| c_fn := f; c_idx := Some i; c_kw := sel |}] in
            match body f sel with
            | Err e => failed c e
            | Ok outs =>
                if negb (length outs =? length (fouts f)) then failed c ValueError else
                match dumps_for true f ms sh mask i outs with
                | Err e => failed c e
                | Ok evs => {| oc_calls := c; oc_dumps := evs; oc_res := Ok outs |}
                end
            end
        end
    | (PSingle f kw, None) =>
        let c := [{| c_fn := f; c_idx := None; c_kw := kw |}] in
        match body f kw with
        | Err e => failed c e
        | Ok outs =>
            if negb (length outs =? length (fouts f)) then failed c ValueError
            else {| oc_calls := c; oc_dumps := []; oc_res := Ok outs |}
        end
    | _ => failed [] AssertionError
    end.

  Definition run_slot (tasks : list task) (s : nat) : outcome :=
    match nth_error tasks s with
    | Some t => run_task t
    | None => failed [] RuntimeError      (* no such future *)
    end.

  (* the executor: completions (slot, outcome) in execution order *)
  Definition execute (tasks : list task) (pi : list nat) : list (nat * outcome) :=
    map (fun s => (s, run_slot tasks s)) pi.

  (* Future.result() of the future in slot s (a future that never completes would block: not a Python error,
     unreachable because `order` always yields every slot) *)
  Definition await (done : list (nat * outcome)) (s : nat) : result (list val) :=
    match find (fun x => fst x =? s) done with
    | Some x => oc_res (snd x)
    | None => Err RuntimeError
    end.

  (* _output_from_mapspec_task: zip(args.missing, outputs_list); _update_result_array then
     _update_array(in_post_process=True) for every pair *)
  Definition collect_mapped (f : mfunc) (ms : mapspec) (sh : list nat) (mask : list bool)
             (missing : list nat) (outs_list : list (list val)) : result (list (list str) * list dump_ev) :=
    fold_left (fun acc io =>
                 do st <- acc;
                 do arrs <- mapM (fun av => place sh mask (fst io) (snd av) (fst av)) (combine (fst st) (snd io));
                 do evs <- dumps_for false f ms sh mask (fst io) (snd io);
                 Ok (arrs, snd st ++ evs))
              (combine missing outs_list)
              (Ok (repeat (repeat none_str (prod sh)) (length (fouts f)), [])).

  (* _process_task for the function whose futures start at slot `off`:
     returns (output name, Result.output, stored value) per output and the parent's dump events *)
  Definition finish_prep (done : list (nat * outcome)) (wtrace : list dump_ev) (off : nat) (p : prep)
    : result (list (str * val * val) * list dump_ev) :=
    match p with
    | PMapped f ms kw sh mask =>
        let missing := missing_of p in
        do outs_list <- mapM (fun k => await done (off + k)) (seq 0 (length missing));
        do fin <- collect_mapped f ms sh mask missing outs_list;
        let trace := wtrace ++ snd fin in
        let arrs := map (fun d => {| shp := sh; dat := d |}) (fst fin) in
        let stored := map (fun o => sto_array sh (sto_of o trace)) (fouts f) in
        Ok (map (fun x => (fst x, VA (fst (snd x)), VA (snd (snd x)))) (combine (fouts f) (combine arrs stored)),
            snd fin)
    | PSingle f kw =>
        do outs <- await done off;
        Ok (map (fun x => (fst x, snd x, snd x)) (combine (fouts f) outs), [])
    end.

  (* _process_generation *)
  Fixpoint parent (done : list (nat * outcome)) (wtrace : list dump_ev) (preps : list prep) (off : nat)
           (st : par_state) : result par_state :=
    match preps with
    | [] => Ok st
    | p :: t =>
        do r <- finish_prep done wtrace off p;
        parent done wtrace t (off + length (tasks_of p))
               {| p_env := map (fun x => (fst (fst x), snd x)) (fst r) ++ p_env st;
                  p_shapes := p_shapes st;
                  p_out := p_out st ++ fst r;
                  p_log := p_log st;
                  p_trace := p_trace st ++ snd r;
                  p_preps := p_preps st ++ [p] |}
    end.

  (* _run_and_process_generation under the schedule pi *)
  Definition par_gen (user : shape_dict) (st : par_state) (gen : list mfunc) (pi : list nat) : result par_state :=
    do sub <- submit_gen user (p_env st) (p_shapes st) gen;
    let tasks := flat_map tasks_of (fst sub) in
    let done := execute tasks (order (length tasks) pi) in
    let wtrace := flat_map (fun x => oc_dumps (snd x)) done in
    parent done wtrace (fst sub) 0
           {| p_env := p_env st; p_shapes := snd sub; p_out := p_out st;
              p_log := p_log st ++ flat_map (fun x => oc_calls (snd x)) done;
              p_trace := p_trace st ++ wtrace;
              p_preps := p_preps st |}.

  (* the generation loop of run_map; a missing schedule is the empty list (= submission order) *)
  Fixpoint par_gens (user : shape_dict) (st : par_state) (gens : list (list mfunc)) (pis : list (list nat))
    : result par_state :=
    match gens with
    | [] => Ok st
    | g :: gs => do st' <- par_gen user st g (hd [] pis); par_gens user st' gs (tl pis)
    end.

  Definition par_init (inputs : env) : par_state :=
    {| p_env := inputs; p_shapes := init_shapes inputs; p_out := []; p_log := []; p_trace := []; p_preps := [] |}.

  Definition par_run (gens : list (list mfunc)) (inputs : env) (user : shape_dict) (pis : list (list nat))
    : result par_state :=
    par_gens user (par_init inputs) gens pis.

  (* ---- the identities against which the logs are judged ---- *)
  Definition call_id (c : call) : mfunc * option nat := (c_fn c, c_idx c).
  (* one invocation per missing index of a mapped function, one invocation of an unmapped one *)
  Definition ids_of_prep (p : prep) : list (mfunc * option nat) :=
    match p with
    | PMapped f _ _ _ _ => map (fun i => (f, Some i)) (missing_of p)
    | PSingle f _ => [(f, None)]
    end.
  Definition dump_id (ev : dump_ev) : str * list nat * bool := (dv_out ev, dv_key ev, dv_worker ev).
  (* one dump per (output, element key); by the worker exactly when the storage dumps in the subprocess *)
  Definition dump_ids_of_prep (p : prep) : list (str * list nat * bool) :=
    match p with
    | PMapped f _ _ sh mask =>
        flat_map (fun i => map (fun o => (o, unravel (ext_of mask sh) i, dis o)) (fouts f)) (missing_of p)
    | PSingle _ _ => []
    end.
End WithBody.
