(* Generation-wise parallel execution of Pipeline.map ON AN EXISTING STORE (resume with cleanup=False and/or
   fixed_indices), under an arbitrary completion order per generation.  The parallel counterpart of
   Model/MapResume.run_generation / map_run_sel, built from MapResume's own pieces (func_kwargs_sel, classify,
   mask_fixed_axes, process_mapped's loops, load_single, dump_single) and ParGen's notion of a schedule (`order`).

   One generation:
     1. SUBMIT   per function in order: kwargs from the store as it is when the generation starts
                 (`_func_kwargs`); mapped function: `_existing_and_missing_indices` on its own storages and the
                 fixed_indices mask -> (existing, missing); ONE TASK PER MISSING SELECTED INDEX; a function without
                 mapped inputs: one task (`_execute_single`, which itself looks whether the output is stored).
     2. EXECUTE  the tasks run in the order given by the schedule; a task = select / call / worker-side dumps
                 (outputs whose storage has dump_in_subprocess).
     3. PARENT   per function in order: futures awaited by slot and paired with `missing` by position, the remaining
                 dumps, result arrays from the computed and the existing elements, single outputs dumped.
   The content of a storage after the generation is the content before with all dumps of the trace applied.
   Not modelled: as Model/ParGen.v.  Definitions only. *)
From Verif Require Import Base.Prelude Base.StrUtil Base.Index Base.NdArr Base.PyRange Base.StrSeq
  Model.MapSpec Model.MapRun Model.ParGen Model.MapResume.

(* what _submit_func prepares *)
Inductive rprep :=
| RMapped (f : mfunc) (ms : mapspec) (kw : env) (sh : list nat) (mask : list bool)
          (stores : list estore) (existing missing : list nat)
| RSingle (f : mfunc) (kw : env).

Definition rprep_fun (p : rprep) : mfunc :=
  match p with RMapped f _ _ _ _ _ _ _ => f | RSingle f _ => f end.

Definition rtask := (rprep * option nat)%type.
Definition rtasks_of (p : rprep) : list rtask :=
  match p with
  | RMapped _ _ _ _ _ _ _ missing => map (fun i => (p, Some i)) missing
  | RSingle _ _ => [(p, None)]
  end.

(* what a task leaves behind: its part of the trace, and the content of its future *)
Record routcome := { rk_acts : list action; rk_res : result (list val) }.

(* a storage after the dumps of a trace into output o *)
Definition apply_dumps (o : str) (st : estore) (tr : list action) : estore :=
  fold_left (fun s a => match a with
                        | ADump o' pos v => if str_eqb o' o then upd s pos (Some (Ok v)) else s
                        | _ => s
                        end) tr st.

Definition res_result {A} (r : res A) : result A :=
  match r with ROk a => Ok a | RErr e _ => Err e end.

Section WithBody.
  Variable body : mfunc -> env -> result (list val).
  Variable dis : str -> bool.     (* dump_in_subprocess of the storage of an output *)

  (* _func_kwargs + _prepare_submit_map_spec on the store rs *)
  Definition rprep_func (c : ctx) (fx : option fixed) (rs : rstore) (f : mfunc) : result rprep :=
    do kw <- func_kwargs_sel c rs f;
    if is_mapped f then
      match fspec f with
      | Some ms =>
          do sm <- shape_of c f;
          let sh := fst sm in
          let mask := snd sm in
          let stores := stores_of rs f (prod (ext_of mask sh)) in
          do fm <- mask_fixed_axes fx ms sh mask;
          let em := classify stores fm (prod (ext_of mask sh)) in
          Ok (RMapped f ms kw sh mask stores (fst em) (snd em))
      | None => Err AssertionError
      end
    else Ok (RSingle f kw).

  (* _update_array(in_post_process = negb worker) as trace actions *)
  Definition rdumps (worker : bool) (f : mfunc) (ms : mapspec) (sh : list nat) (mask : list bool) (i : nat)
             (outs : list val) : result (list action) :=
    match filter (fun ov => Bool.eqb (dis (fst ov)) worker) (combine (fouts f) outs) with
    | [] => Ok []
    | sel =>
        do key <- output_key ms (ext_of mask sh) i;
        Ok (map (fun ov : str * val => ADump (fst ov) (ravel (ext_of mask sh) key) (snd ov)) sel)
    end.

  Definition rfailed (a : list action) (e : err) : routcome := {| rk_acts := a; rk_res := Err e |}.

  (* one task, run by a worker, on the store as it was when the generation started *)
  Definition run_rtask (rs : rstore) (t : rtask) : routcome :=
    match t with
    | (RMapped f ms kw sh mask _ _ _, Some i) =>
        match select_kwargs ms kw (ext_of mask sh) i with
        | Err e => rfailed [] e
        | Ok sel =>
            let c := [ACall (fname f) (Some i) sel] in
            match body f sel with
            | Err e => rfailed c e
            | Ok outs =>
                if negb (length outs =? length (fouts f)) then rfailed c ValueError else
                match rdumps true f ms sh mask i outs with
                | Err e => rfailed c e
                | Ok d => {| rk_acts := c ++ d; rk_res := Ok outs |}
                end
            end
        end
    | (RSingle f kw, None) =>
        match load_single rs f with
        | Err e => rfailed [] e
        | Ok (Some outs) => {| rk_acts := []; rk_res := Ok outs |}
        | Ok None =>
            let c := [ACall (fname f) None kw] in
            match body f kw with
            | Err e => rfailed c e
            | Ok outs =>
                if negb (length outs =? length (fouts f)) then rfailed c ValueError
                else {| rk_acts := c; rk_res := Ok outs |}
            end
        end
    | _ => rfailed [] AssertionError
    end.

  Definition rrun_slot (rs : rstore) (tasks : list rtask) (s : nat) : routcome :=
    match nth_error tasks s with
    | Some t => run_rtask rs t
    | None => rfailed [] RuntimeError
    end.
  Definition rexecute (rs : rstore) (tasks : list rtask) (pi : list nat) : list (nat * routcome) :=
    map (fun s => (s, rrun_slot rs tasks s)) pi.
  Definition rawait (done : list (nat * routcome)) (s : nat) : result (list val) :=
    match find (fun x => fst x =? s) done with
    | Some x => rk_res (snd x)
    | None => Err RuntimeError
    end.

  (* the two loops of _output_from_mapspec_task, without MapResume's error traces *)
  Definition collect_arrays (f : mfunc) (sh : list nat) (mask : list bool) (stores : list estore)
             (results : list (nat * list val)) (existing : list nat) : result (list (nd str)) :=
    do a1 <- fold_left (fun acc (io : nat * list val) => do arrs <- acc; put_elem sh mask arrs (fst io) (snd io))
                       results (Ok (repeat (repeat none_str (prod sh)) (length (fouts f))));
    do a2 <- fold_left (fun acc (i : nat) =>
                          do arrs <- acc;
                          do outs <- mapM (fun e : estore => get_from_index e i) stores;
                          put_elem sh mask arrs i outs) existing (Ok a1);
    Ok (map (fun d : list str => {| shp := sh; dat := d |}) a2).

  (* _process_task for the function whose futures start at slot off; wtrace = what the workers of this generation
     dumped.  Returns the new state. *)
  Definition rfinish (done : list (nat * routcome)) (wtrace : list action) (off : nat) (p : rprep) (ps : pstate)
    : result pstate :=
    match p with
    | RMapped f ms kw sh mask stores existing missing =>
        do outs_list <- mapM (fun k => rawait done (off + k)) (seq 0 (length missing));
        let results := combine missing outs_list in
        do pd <- mapM (fun io : nat * list val => rdumps false f ms sh mask (fst io) (snd io)) results;
        let ptrace := concat pd in
        let stores' := map (fun os : str * estore => apply_dumps (fst os) (snd os) (wtrace ++ ptrace))
                           (combine (fouts f) stores) in
        do arrs <- collect_arrays f sh mask stores' results existing;
        Ok {| p_store := put_stores (p_store ps) f stores';
              p_out := p_out ps ++ combine (fouts f) (map VA arrs);
              p_tr := p_tr ps ++ ptrace |}
    | RSingle f kw =>
        do outs <- rawait done off;
        let r := dump_single f outs (p_store ps) (p_tr ps) in
        Ok {| p_store := fst r; p_out := p_out ps ++ combine (fouts f) outs; p_tr := snd r |}
    end.

  Fixpoint rparent (done : list (nat * routcome)) (wtrace : list action) (preps : list rprep) (off : nat)
           (ps : pstate) : result pstate :=
    match preps with
    | [] => Ok ps
    | p :: t => do ps' <- rfinish done wtrace off p ps; rparent done wtrace t (off + length (rtasks_of p)) ps'
    end.

  (* _run_and_process_generation on an existing store, under the schedule pi *)
  Definition par_generation (c : ctx) (fx : option fixed) (ps : pstate) (gen : list mfunc) (pi : list nat)
    : result pstate :=
    do preps <- mapM (rprep_func c fx (p_store ps)) gen;
    let tasks := flat_map rtasks_of preps in
    let done := rexecute (p_store ps) tasks (order (length tasks) pi) in
    let wtrace := flat_map (fun x => rk_acts (snd x)) done in
    rparent done wtrace preps 0 {| p_store := p_store ps; p_out := p_out ps; p_tr := p_tr ps ++ wtrace |}.

  Fixpoint par_generations (c : ctx) (fx : option fixed) (ps : pstate) (gens : list (list mfunc))
           (pis : list (list nat)) : result pstate :=
    match gens with
    | [] => Ok ps
    | g :: gs => do ps' <- par_generation c fx ps g (hd [] pis); par_generations c fx ps' gs (tl pis)
    end.

  (* Pipeline.map(inputs, run_folder, fixed_indices=fx, cleanup=False, executor=...) on the store rs *)
  Definition par_run_sel (p : list mfunc) (gens : list (list mfunc)) (inputs : env) (user : shape_dict)
             (fx : option fixed) (rs : rstore) (pis : list (list nat)) : result pstate :=
    do _ <- validate_fixed fx inputs p;
    do shapes <- all_shapes user inputs p;
    par_generations {| x_p := p; x_inputs := inputs; x_shapes := shapes |} fx
                    {| p_store := rs; p_out := []; p_tr := [] |} gens pis.

  (* the sequential run over explicitly given generations (map_run_sel is the instance gens = generations p) *)
  Definition seq_run_sel (p : list mfunc) (gens : list (list mfunc)) (inputs : env) (user : shape_dict)
             (fx : option fixed) (rs : rstore) : res pstate :=
    rdo _ <- lift [] (validate_fixed fx inputs p);
    rdo shapes <- lift [] (all_shapes user inputs p);
    let c := {| x_p := p; x_inputs := inputs; x_shapes := shapes |} in
    fold_left (fun acc gen => rdo ps <- acc; run_generation body c fx ps gen) gens
              (ROk {| p_store := rs; p_out := []; p_tr := [] |}).
End WithBody.
