(* Model/Pipe.v - the DAG-of-functions model shared by C02, C09, C10, C11, C12, C13, C18.

   WHAT IS MODELLED (pipefunc/_pipeline/_base.py, pipefunc/_pipefunc.py):
     Pipeline.output_to_func / node_mapping / graph / defaults            -> producer, is_node, graph_of, pdefaults
     Pipeline.run / _run / _get_func_args / _update_all_results           -> run, run_out (explicit fuel)
     PipeFunc.__call__ (defaults | kwargs | bound, inverse renames)       -> folded into run_out: the user code
                                                                            receives ORIGINAL parameter names
     Pipeline.arg_combinations / _compute_arg_mapping / root_args         -> arg_combinations, root_args
     Pipeline.__call__, Pipeline.func(o) with keywords, .call_full_output         -> all are `run` (entry points differ
                                                                            only in the full_output flag)
   NOT MODELLED: scopes (_flatten_scopes is the identity for un-scoped names), caches (see Model/CacheSem.v of
   C09), debug/profile/post_execution_hook/resources, requests for a tuple output_name, 1-tuple output names.

   CONVENTIONS
   * values are `str`; the user code is an oracle  body : fname -> [(original parameter name, value)] -> result str
     (Err e models `raise e`); a function with several outputs returns ONE raw value r, and the value routed to
     output name n is `pick n r` (oracle for output_picker).  Theorems are stated for arbitrary `body`/`pick`;
     module Sym gives the structural instance used by the correspondence harness (harness/symfuncs.py).
   * `outs f` of length 1  <->  output_name is a str;  length >= 2 <-> output_name is a tuple.
   * `params f` = [(current name, original name)] in signature order; dflt / bound are keyed by current names;
     `dflt f` is PipeFunc.defaults (signature defaults of unbound parameters + the `defaults=` argument).
   * build pfunc values with `mkf` (fields may be added to the record later). *)
From Verif Require Import Base.Prelude Base.StrOrd Base.Graph.

(* ---------- association lists = Python dicts with insertion order ---------- *)
Definition alist := list (str * str).
Fixpoint aget (l : alist) (k : str) : option str :=
  match l with [] => None | (k', v) :: t => if str_eqb k k' then Some v else aget t k end.
Definition ahas (l : alist) (k : str) : bool := match aget l k with Some _ => true | None => false end.
(* d[k] = v : replace in place when present, else append *)
Fixpoint aset (l : alist) (k v : str) : alist :=
  match l with
  | [] => [(k, v)]
  | (k', v') :: t => if str_eqb k k' then (k', v) :: t else (k', v') :: aset t k v
  end.
Definition akeys (l : alist) : list str := map fst l.

Record pfunc := {
  fname  : str;                  (* __name__ of the wrapped callable (identifies it in the call log)   *)
  outs   : list str;             (* at_least_tuple(output_name), after renames                         *)
  params : list (str * str);     (* (current name, original name) in signature order                   *)
  dflt   : alist;                (* PipeFunc.defaults, keyed by current names                          *)
  bound  : alist;                (* PipeFunc._bound, keyed by current names                            *)
  cached : bool                  (* PipeFunc.cache (ignored by this file)                              *)
}.
Definition mkf (n : str) (o : list str) (ps : list (str * str)) (d b : alist) (c : bool) : pfunc :=
  {| fname := n; outs := o; params := ps; dflt := d; bound := b; cached := c |}.
Definition pipeline := list pfunc.

Definition pnames (f : pfunc) : list str := map fst (params f).
Definition multi (f : pfunc) : bool := 1 <? length (outs f).          (* isinstance(output_name, tuple) *)
Definition fid (f : pfunc) : str := hd [] (outs f).                   (* graph node id of a function      *)

(* output_to_func[o] *)
Definition producer (p : pipeline) (o : str) : option pfunc := find (fun f => mem_str o (outs f)) p.
Definition is_output (p : pipeline) (o : str) : bool :=
  match producer p o with Some _ => true | None => false end.
Definition all_outputs (p : pipeline) : list str := flat_map outs p.

(* Pipeline.defaults: {arg: v for f in functions for arg, v in f.defaults.items()
                       if arg not in f._bound and arg not in output_to_func}; a later entry wins *)
Definition pdefaults (p : pipeline) : alist :=
  flat_map (fun f => filter (fun kv => negb (ahas (bound f) (fst kv)) && negb (is_output p (fst kv))) (dflt f)) p.
Definition pdefault (p : pipeline) (k : str) : option str := aget (rev (pdefaults p)) k.

(* ---------- Pipeline.graph ---------- *)
(* predecessor node of parameter `cur` of f: None for a bound parameter (a _Bound node), else the producer's
   node id or the root-argument name itself *)
Definition dep_node (p : pipeline) (f : pfunc) (cur : str) : option str :=
  if ahas (bound f) cur then None
  else match producer p cur with Some g => Some (fid g) | None => Some cur end.
Definition fpreds (p : pipeline) (f : pfunc) : list str :=
  flat_map (fun cur => match dep_node p f cur with Some n => [n] | None => [] end) (pnames f).
Definition root_arg_names (p : pipeline) : list str :=
  dedup (flat_map (fun f => filter (fun cur => negb (ahas (bound f) cur) && negb (is_output p cur)) (pnames f)) p).
(* all nodes except _Bound/_Resources nodes (which have no incoming edges and are filtered by every client) *)
Definition graph_of (p : pipeline) : graph :=
  {| nodes := map fid p ++ root_arg_names p;
     edges := flat_map (fun f => map (fun n => (n, fid f)) (dedup (fpreds p f))) p |}.
(* function -> function edges only (enough for acyclicity: root arguments have no incoming edges) *)
Definition fgraph (p : pipeline) : graph :=
  {| nodes := map fid p;
     edges := flat_map (fun f => map (fun n => (n, fid f))
                                   (dedup (filter (fun n => is_output p n) (fpreds p f)))) p |}.
(* node_mapping keys that are strings *)
Definition is_node (p : pipeline) (o : str) : bool := is_output p o || mem_str o (root_arg_names p).

(* ---------- well-formedness = what construction accepts (C12) + the harness convention of distinct fnames ---------- *)
Definition wf_func (f : pfunc) : bool :=
  negb (match outs f with [] => true | _ => false end)
  && nodup_strb (outs f) && nodup_strb (pnames f) && nodup_strb (map snd (params f))
  && forallb (fun o => negb (mem_str o (pnames f))) (outs f)
  && nodup_strb (akeys (dflt f)) && nodup_strb (akeys (bound f))
  && subset_str (akeys (dflt f)) (pnames f) && subset_str (akeys (bound f)) (pnames f)
  && forallb (fun k => negb (ahas (bound f) k)) (akeys (dflt f)).
Definition consistent_defaults (p : pipeline) : bool :=
  let d := pdefaults p in
  forallb (fun kv => match aget d (fst kv) with Some v => str_eqb v (snd kv) | None => false end) d.
Definition wf_pipelineb (p : pipeline) : bool :=
  forallb wf_func p && nodup_strb (all_outputs p) && nodup_strb (map fname p)
  && consistent_defaults p && acyclicb (fgraph p).
Definition wf_pipeline (p : pipeline) : Prop := wf_pipelineb p = true.

(* ---------- run: mirrors Pipeline.run ---------- *)
Definition call := (str * alist)%type.                 (* (fname, [(original parameter name, value)]) *)
Record rstate := { res : alist;                        (* all_results                                *)
                   used : list str;                    (* used_parameters                            *)
                   log : list call }.                  (* calls of user code, in order               *)
Definition st_res (st : rstate) (r : alist) := {| res := r; used := used st; log := log st |}.
Definition st_use (st : rstate) (k : str) := {| res := res st; used := k :: used st; log := log st |}.
Definition st_log (st : rstate) (c : call) := {| res := res st; used := used st; log := log st ++ [c] |}.

Section WithBody.
  Variable body : str -> alist -> result str.
  Variable pick : str -> str -> str.

  (* _update_all_results (eager branch).  Names already present can only have been supplied by the caller and
     are kept (repaired code: fix "keep caller-supplied outputs of a multi-output function ..."). *)
  Definition update_all_results (f : pfunc) (r : str) (rs : alist) : alist :=
    if multi f then
      fold_left (fun acc n => if ahas acc n then acc else aset acc n (pick n r)) (outs f) rs
    else aset rs (fid f) r.

  (* value routed to output name o of f from the raw result r *)
  Definition route (f : pfunc) (o : str) (r : str) : str := if multi f then pick o r else r.

  Section Run.
    Variable p : pipeline.
    Variable kw : alist.            (* flat_scope_kwargs *)

    (* _get_func_args, one parameter: bound value, else supplied keyword, else upstream output (recursive
       _run, passed as `rec`), else (pipeline-level) default, else ValueError *)
    Definition resolve (rec : rstate -> str -> rstate * result str) (f : pfunc) (st : rstate) (cur : str)
      : rstate * result str :=
      match aget (bound f) cur with
      | Some b => (st, Ok b)
      | None =>
          match aget kw cur with
          | Some v => (st, Ok v)
          | None =>
              if is_output p cur then rec st cur
              else match pdefault p cur with
                   | Some d => (st, Ok d)
                   | None => (st, Err ValueError)              (* Missing value for argument *)
                   end
          end
      end.

    (* _get_func_args: parameters in signature order; used_parameters.add(arg) after each one; the argument
       list handed to the user code carries the ORIGINAL names (PipeFunc.__call__, inverse renames) *)
    Fixpoint get_args (rec : rstate -> str -> rstate * result str) (f : pfunc) (ps : list (str * str))
             (st : rstate) (acc : alist) {struct ps} : rstate * result alist :=
      match ps with
      | [] => (st, Ok acc)
      | (cur, orig) :: t =>
          let '(st1, rv) := resolve rec f st cur in
          match rv with
          | Err e => (st1, Err e)
          | Ok v => get_args rec f t (st_use st1 cur) (acc ++ [(orig, v)])
          end
      end.

    (* _run.  The state is returned also when an exception propagates (the call log is observable
       afterwards).  Fuel exhaustion (impossible for acyclic pipelines) is RuntimeError (Python:
       RecursionError, a subclass). *)
    Fixpoint run_out (fuel : nat) (st : rstate) (o : str) {struct fuel} : rstate * result str :=
      match fuel with
      | O => (st, Err RuntimeError)
      | S n =>
          match aget (res st) o with
          | Some v => (st, Ok v)                                    (* if output_name in all_results *)
          | None =>
              match producer p o with
              | None => (st, Err KeyError)                          (* self.output_to_func[output_name] *)
              | Some f =>
                  let '(st1, ra) := get_args (run_out n) f (params f) st [] in
                  match ra with
                  | Err e => (st1, Err e)
                  | Ok args =>
                      let st2 := st_log st1 (fname f, args) in        (* the user function is entered *)
                      match body (fname f) args with
                      | Err e => (st2, Err e)
                      | Ok r =>
                          let rs := update_all_results f r (res st2) in
                          (st_res st2 rs,
                           match aget rs o with Some v => Ok v | None => Err KeyError end)
                      end
                  end
              end
          end
      end.

    Definition init_state : rstate := {| res := kw; used := []; log := [] |}.
    Definition unused_kw (st : rstate) : list str :=
      filter (fun k => negb (mem_str k (used st))) (akeys kw).
  End Run.

  (* Pipeline.run(output_name, full_output=..., kwargs=kw).  Result: value (full=false) or the whole
     all_results dict (full=true), together with the call log (also on error). *)
  Inductive outcome := Value (v : str) | Full (d : alist).
  Definition run (p : pipeline) (o : str) (kw : alist) (full : bool) : result outcome * list call :=
    if negb (is_node p o) then (Err KeyError, [])          (* func_dependencies -> node_mapping[o] *)
    else if ahas kw o then (Err ValueError, [])             (* output_name in kwargs *)
    else
      let '(st, r) := run_out p kw (S (length p)) (init_state kw) o in
      match r with
      | Err e => (Err e, log st)
      | Ok v =>
          match unused_kw kw st with
          | _ :: _ => (Err UnusedParametersError, log st)
          | [] => (Ok (if full then Full (res st) else Value v), log st)
          end
      end.

  (* ---------- eval: the SPECIFICATION (property text of C02) ----------
     "the value obtained by evaluating the functions that output depends on, resolving each argument as bound
      value, else supplied keyword, else upstream output, else default, routing tuple outputs by name, and
      letting a supplied intermediate value replace its producer".  Plain recursion along the producer
     relation: no memo, no log, no state.  The default of a parameter is the default any function of the
     pipeline declares for that name (pipefunc shares defaults between functions; they are consistent in a
     well-formed pipeline). *)
  Definition default_of (p : pipeline) (k : str) : option str := aget (pdefaults p) k.

  (* the value of parameter `cur` of f; `rec` evaluates an upstream output *)
  Definition arg_val (rec : str -> result str) (p : pipeline) (kw : alist) (f : pfunc) (cur : str) : result str :=
    match aget (bound f) cur with
    | Some b => Ok b
    | None =>
        match aget kw cur with
        | Some v => Ok v
        | None =>
            if is_output p cur then rec cur
            else match default_of p cur with
                 | Some d => Ok d
                 | None => Err ValueError
                 end
        end
    end.
  Definition args_with (rec : str -> result str) (p : pipeline) (kw : alist) (f : pfunc) : result alist :=
    mapM (fun po : str * str => do v <- arg_val rec p kw f (fst po); Ok (snd po, v)) (params f).

  Fixpoint eval (fuel : nat) (p : pipeline) (kw : alist) (o : str) {struct fuel} : result str :=
    match fuel with
    | O => Err RuntimeError
    | S n =>
        match producer p o with
        | None => Err KeyError
        | Some f =>
            do args <- args_with (eval n p kw) p kw f;
            do r <- body (fname f) args;
            Ok (route f o r)
        end
    end.
  Definition eval_top (p : pipeline) (kw : alist) (o : str) : result str := eval (S (length p)) p kw o.

  (* how parameter `cur` of f is resolved: the four sources of the property text *)
  Inductive source := SBound (v : str) | SKw (v : str) | SUp (g : pfunc) | SDefault (v : str) | SMissing.
  Definition source_of (p : pipeline) (kw : alist) (f : pfunc) (cur : str) : source :=
    match aget (bound f) cur with
    | Some b => SBound b
    | None =>
        match aget kw cur with
        | Some v => SKw v
        | None =>
            match producer p cur with
            | Some g => SUp g
            | None => match default_of p cur with Some d => SDefault d | None => SMissing end
            end
        end
    end.
  (* the functions whose parameters are fed directly by an upstream output in the evaluation of f *)
  Definition ups (p : pipeline) (kw : alist) (f : pfunc) : list pfunc :=
    flat_map (fun cur => match source_of p kw f cur with SUp g => [g] | _ => [] end) (pnames f).

  (* the functions the requested output depends on and that are not cut off by a supplied / bound name
     (with repetitions, consumer first) *)
  Fixpoint needed (fuel : nat) (p : pipeline) (kw : alist) (o : str) {struct fuel} : list pfunc :=
    match fuel with
    | O => []
    | S n =>
        match producer p o with
        | None => []
        | Some f =>
            f :: flat_map (fun cur => match source_of p kw f cur with
                                      | SUp _ => needed n p kw cur
                                      | _ => []
                                      end) (pnames f)
        end
    end.
  Definition needed_top (p : pipeline) (kw : alist) (o : str) : list pfunc := needed (S (length p)) p kw o.
  Definition needed_names (p : pipeline) (kw : alist) (o : str) : list str :=
    dedup (map fname (needed_top p kw o)).
  (* every parameter name of a needed function / only those the evaluation reads from the keywords *)
  Definition param_names_needed (p : pipeline) (kw : alist) (o : str) : list str :=
    flat_map pnames (needed_top p kw o).
  Definition kw_names_read (p : pipeline) (kw : alist) (o : str) : list str :=
    flat_map (fun f => filter (fun cur => negb (ahas (bound f) cur)) (pnames f)) (needed_top p kw o).

  (* the root arguments of o, from the meaning: the non-output names that the evaluation of o without any
     supplied keyword reads (from keywords or defaults) *)
  Definition spec_roots (p : pipeline) (o : str) : list str :=
    sort_strs (dedup (flat_map (fun f => filter (fun cur => negb (ahas (bound f) cur) && negb (is_output p cur))
                                                (pnames f)) (needed_top p [] o))).
  (* no needed parameter is without a value *)
  Definition sufficient (p : pipeline) (kw : alist) (o : str) : Prop :=
    forall f cur, In f (needed_top p kw o) -> In cur (pnames f) -> source_of p kw f cur <> SMissing.

  (* the argument list the specification passes to f *)
  Definition eval_args (p : pipeline) (kw : alist) (f : pfunc) : result alist :=
    args_with (eval (length p) p kw) p kw f.

  (* ---------- Pipeline._validate_run_kwargs: the keywords are validated BEFORE anything is executed ----------
     (C12 repair "validate the keyword arguments of Pipeline.run before executing anything").  The code walks the
     functions `_run` would execute - stopping at bound and at supplied names, like _get_func_args - i.e. the set
     `needed_top`; a parameter without value raises ValueError, then a keyword that names no parameter of a visited
     function raises UnusedParametersError.  A request for a name that is not an output fails in the same walk with
     the KeyError of output_to_func[name] (as `run` does). *)
  Definition missingb (p : pipeline) (kw : alist) (o : str) : bool :=
    existsb (fun f => existsb (fun cur => match source_of p kw f cur with SMissing => true | _ => false end)
                              (pnames f)) (needed_top p kw o).
  Definition surplusb (p : pipeline) (kw : alist) (o : str) : bool :=
    negb (subset_str (akeys kw) (param_names_needed p kw o)).
  Definition run_precheck (p : pipeline) (o : str) (kw : alist) : result unit :=
    if negb (is_node p o) || ahas kw o || negb (is_output p o) then Ok tt     (* rejected by `run` itself *)
    else if missingb p kw o then Err ValueError
    else if surplusb p kw o then Err UnusedParametersError
    else Ok tt.
  (* Pipeline.run as it is since that repair; `run` is the evaluation proper *)
  Definition run_checked (p : pipeline) (o : str) (kw : alist) (full : bool) : result outcome * list call :=
    match run_precheck p o kw with
    | Err e => (Err e, [])
    | Ok _ => run p o kw full
    end.

  (* ---------- arg_combinations / root_args ---------- *)
  (* A dependency node is identified by a str: a function by its fid, a root argument by its name. *)
  Definition node_func (p : pipeline) (n : str) : option pfunc :=
    find (fun f => str_eqb (fid f) n) p.
  Definition sort_key (p : pipeline) (n : str) : str :=           (* _sort_key *)
    match node_func p n with
    | Some f => fold_left (fun acc o => match acc with [] => o | _ => acc ++ s "," ++ o end) (outs f) []
    | None => n
    end.
  Definition unique_nodes (p : pipeline) (l : list str) : list str :=   (* _unique *)
    sort (fun a b => str_ltb (sort_key p a) (sort_key p b)) (dedup l).
  (* _names(deps, graph, consumers): of a multi-output function only the outputs that one of the already
     expanded consumers reads through an (unbound) edge are listed (repaired code: fix "arg_combinations
     lists only the used outputs ...") *)
  Definition names_of (p : pipeline) (consumers : list pfunc) (deps : list str) : list str :=
    sort_strs (flat_map (fun n => match node_func p n with
                                  | Some f =>
                                      if multi f then
                                        filter (fun o => existsb (fun c => mem_str o (pnames c)
                                                                           && negb (ahas (bound c) o)) consumers)
                                               (outs f)
                                      else outs f
                                  | None => [n]
                                  end) deps).

  Fixpoint cam (fuel : nat) (p : pipeline) (node : option pfunc) (args : list str) (replaced : list pfunc)
           (acc : list (list str)) {struct fuel} : list (list str) :=
    match fuel with
    | O => acc
    | S n =>
        let consumers := match node with Some f => replaced ++ [f] | None => replaced end in
        let pr := match node with
                  | Some f => filter (fun d => negb (existsb (fun r => str_eqb (fid r) d) replaced)) (fpreds p f)
                  | None => []
                  end in
        let deps := unique_nodes p (args ++ pr) in
        let names := names_of p consumers deps in
        if existsb (list_eqb str_eqb names) acc then acc
        else
          fold_left (fun a d =>
                       match node_func p d with
                       | Some g => cam n p (Some g) (filter (fun x => negb (str_eqb x d)) deps) consumers a
                       | None => a
                       end) deps (acc ++ [names])
    end.

  Definition arg_combinations (p : pipeline) (o : str) : result (list (list str)) :=
    if negb (is_node p o) then Err KeyError
    else Ok (sort strs_ltb (cam (S (S (length p))) p (producer p o) [] [] [])).
  Definition all_root (p : pipeline) (c : list str) : bool := forallb (fun n => negb (is_output p n)) c.
  Definition root_args (p : pipeline) (o : str) : result (list str) :=
    do cs <- arg_combinations p o;
    match find (all_root p) cs with Some c => Ok c | None => Err OtherError end.
End WithBody.

(* ---------- the structural instance (harness/symfuncs.py) ---------- *)
Module Sym.
  Fixpoint commas (l : list str) : str :=
    match l with [] => [] | [x] => x | x :: t => x ++ s "," ++ commas t end.
  Definition app (f : str) (args : alist) : str :=
    f ++ s "(" ++ commas (map (fun kv => fst kv ++ s "=" ++ snd kv) args) ++ s ")".
  Definition body (f : str) (args : alist) : result str := Ok (app f args).
  Definition pick (n r : str) : str := s "out(" ++ n ++ s ";" ++ r ++ s ")".
  Definition show_call (c : call) : str := app (fst c) (snd c).
End Sym.
