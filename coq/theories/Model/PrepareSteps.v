(* Model/PrepareSteps.v - the ORDER of checks and file-system effects performed by `prepare_run` (C12).

   A `list step` is what harness/translate_prepare.py regenerates from the Python source on every run
   (coq/gen/Gen_PrepareSteps.v) and what Model/Validate.v interprets (`exec`) as the model of the part of
   `Pipeline.map` that runs before the first user function.

     Check l    a validation identified by its label l = "<callee or raise>@<function it occurs in>[?guards]";
                it may raise, it does not touch the file system
     Effect l   creates / writes / removes files of the run folder
     Rewrite l  writes back exactly what it has just read (RunInfo.load re-dumps the loaded run info): no change
                of the folder content
     Pure l     neither
     Unknown l  a callee the translator could not classify (fail closed)

   Two steps with the same label are the same lexical check: a function of the request only, so a repetition
   of a check that has already passed cannot fail (e.g. `_storage_class`, inlined into the up-front
   `_validate_storage` and again into `init_store`).  Definitions only; facts are in Proofs/PrepareFacts.v. *)
From Verif Require Import Base.Prelude.

Inductive step := Check (l : str) | Effect (l : str) | Rewrite (l : str) | Pure (l : str) | Unknown (l : str).

Definition is_effect (st : step) : bool := match st with Effect _ => true | _ => false end.
Definition is_unknown (st : step) : bool := match st with Unknown _ => true | _ => false end.
Definition check_labels (steps : list step) : list str :=
  flat_map (fun st => match st with Check l => [l] | _ => [] end) steps.
Definition has_unknown (steps : list step) : bool := existsb is_unknown steps.

(* positions (0-based) of the Effect steps *)
Definition effect_positions (steps : list step) : list nat :=
  map fst (filter (fun p => is_effect (snd p)) (combine (seq 0 (length steps)) steps)).

(* every check of the whole list has been performed among the first i steps *)
Definition all_checks_precede (steps : list step) (i : nat) : bool :=
  forallb (fun l => mem_str l (check_labels (firstn i steps))) (check_labels steps).

(* THE ORDERING OBLIGATION: nothing unclassified, and every effect is preceded by all checks *)
Definition no_effect_before_checks (steps : list step) : bool :=
  negb (has_unknown steps) && forallb (all_checks_precede steps) (effect_positions steps).

(* informational, stricter: no Check step at all is positioned after an Effect (re-validations included) *)
Fixpoint strictly_ordered (steps : list step) : bool :=
  match steps with
  | [] => true
  | Effect _ :: t => match check_labels t with [] => negb (has_unknown t) | _ => false end
  | Unknown _ :: _ => false
  | _ :: t => strictly_ordered t
  end.

(* the steps without one given effect (used for the cleanup=True path: the requested removal of the old folder) *)
Definition without_effect (l : str) (steps : list step) : list step :=
  filter (fun st => match st with Effect l' => negb (str_eqb l l') | _ => true end) steps.

(* the steps that are not Pure (what the correspondence case compares) *)
Definition skeleton (steps : list step) : list step :=
  filter (fun st => match st with Pure _ => false | _ => true end) steps.

(* ---------- interpretation ---------- *)
Section Exec.
  Context {ctx : Type}.
  Variable chk : str -> ctx -> result unit.     (* what a check label stands for: a function of the request *)

  (* result of the checks and the trace of effects executed so far; an Unknown step is treated as an effect *)
  Fixpoint exec (steps : list step) (c : ctx) (trace : list str) : result unit * list str :=
    match steps with
    | [] => (Ok tt, trace)
    | Check l :: t => match chk l c with Ok _ => exec t c trace | Err e => (Err e, trace) end
    | Effect l :: t => exec t c (trace ++ [l])
    | Unknown l :: t => exec t c (trace ++ [l])
    | Rewrite _ :: t => exec t c trace
    | Pure _ :: t => exec t c trace
    end.

  (* only the checks, in order *)
  Fixpoint first_failure (steps : list step) (c : ctx) : result unit :=
    match steps with
    | [] => Ok tt
    | Check l :: t => match chk l c with Ok _ => first_failure t c | Err e => Err e end
    | _ :: t => first_failure t c
    end.
End Exec.
