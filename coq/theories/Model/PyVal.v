(* A universe of Python values for the cache-key model (C15), with the fragments of Python's ==, hash() and the
   canonical sort key (pipefunc.cache._sort_key) that pipefunc.cache.to_hashable exercises.  Python's own < is no
   longer used by to_hashable (it raised on mixed types and is only a partial order on frozensets).
   Definitions only (facts: Proofs/PyValFacts.v, Proofs/CKeyFacts.v).

   Scalars ("atoms") are a separate type so that inductions over values have few cases.
     AFloat q        the float q/4 (small dyadic values, exactly representable also as float32); no NaN/inf
     AStr / ABytes   code units (for str: the UTF-8 bytes - UTF-8 preserves code point order and equality)
     AType n         a class object (int, list, numpy.ndarray, ...), identified by name
     AMasked         numpy.ma.masked (only as an element of a masked array and of the keys made from one)
     AOpaque c i p   an instance of a user class c with __eq__ by (class, i) and __hash__ = None
                     ("arbitrary picklable object"; p = false: cloudpickle cannot pickle it)
     ADigest c i     md5(cloudpickle.dumps(AOpaque c i true)).hexdigest(): modelled as an injective function
                     of (c, i) - pickle determinism and md5 collision freedom are assumptions, not modelled
   Containers: PSeq (ordered: tuple, list, deque, bytearray, array.array, ndarray as dtype/shape/flat data),
   PSetv (set, frozenset), PMap (dict, OrderedDict, defaultdict, Counter; items in insertion order),
   pandas Series / DataFrame as simple records of atoms. *)
From Verif Require Import Base.Prelude Base.PySort.

Inductive atom :=
| AInt (z : Z) | ABool (b : bool) | AFloat (q : Z) | AStr (x : str) | ABytes (x : str) | ANone
| AType (n : str) | AMasked | AOpaque (cls : str) (id : Z) (picklable : bool) | ADigest (cls : str) (id : Z).

Inductive seqkind :=
| KTuple | KList | KDeque (maxlen : option Z) | KBytearray | KArray (code : str)
| KNd (masked : bool) (dtype : str) (shape : list Z).
Inductive setkind := KSet | KFrozenset.
Inductive mapkind := KDict | KODict | KDefault (factory : option str) | KCounter.

Inductive pyval :=
| PA (a : atom)
| PSeq (k : seqkind) (l : list pyval)
| PSetv (k : setkind) (l : list pyval)
| PMap (k : mapkind) (kvs : list (pyval * pyval))
| PSeries (name : atom) (dtype : str) (idx vals : list atom)
| PFrame (cols : list (atom * (str * list atom))) (idx : list atom).

Notation PInt z := (PA (AInt z)).
Notation PBool b := (PA (ABool b)).
Notation PFloat q := (PA (AFloat q)).
Notation PStr x := (PA (AStr x)).
Notation PBytes x := (PA (ABytes x)).
Notation PNone := (PA ANone).
Notation PType n := (PA (AType n)).
Notation PTuple := (PSeq KTuple).
Notation PList := (PSeq KList).
Notation PSet := (PSetv KSet).
Notation PFrozenset := (PSetv KFrozenset).
Notation PDict := (PMap KDict).
Notation PODict := (PMap KODict).
Notation PCounter := (PMap KCounter).

(* ---------- atoms: ==, <, hash ---------- *)
(* numeric tower: the value times 4 *)
Definition numval (a : atom) : option Z :=
  match a with
  | AInt z => Some (4 * z)%Z
  | ABool b => Some (if b then 4 else 0)%Z
  | AFloat q => Some q
  | _ => None
  end.

Definition codes (x : str) : list Z := map (fun c => Z.of_nat (nat_of_ascii c)) x.

(* lexicographic order on code sequences: Python's < on str and on bytes *)
Fixpoint lex_ltb (a b : list Z) : bool :=
  match a, b with
  | _, [] => false
  | [], _ :: _ => true
  | x :: a', y :: b' => (x <? y)%Z || ((x =? y)%Z && lex_ltb a' b')
  end.
Definition str_ltb (a b : str) : bool := lex_ltb (codes a) (codes b).

Definition atom_eq (a b : atom) : bool :=
  match numval a, numval b with
  | Some x, Some y => (x =? y)%Z                       (* 1 == True == 1.0 *)
  | Some _, None | None, Some _ => false
  | None, None =>
      match a, b with
      | AStr x, AStr y => str_eqb x y
      | ABytes x, ABytes y => str_eqb x y
      | ANone, ANone => true
      | AType x, AType y => str_eqb x y
      | AMasked, AMasked => true                       (* the singleton: identity shortcut of tuple == *)
      | AOpaque c i _, AOpaque c' i' _ => str_eqb c c' && (i =? i')%Z
      | ADigest c i, ADigest c' i' => str_eqb c c' && (i =? i')%Z
      | _, _ => false
      end
  end.

Definition atom_hashable (a : atom) : bool :=
  match a with AMasked | AOpaque _ _ _ => false | _ => true end.

(* ---------- kinds ---------- *)
Definition zopt_eqb := opt_eqb Z.eqb.
Definition seqkind_eqb (k k' : seqkind) : bool :=
  match k, k' with
  | KTuple, KTuple | KList, KList | KBytearray, KBytearray => true
  | KDeque m, KDeque m' => zopt_eqb m m'
  | KArray c, KArray c' => str_eqb c c'
  | KNd m d sh, KNd m' d' sh' => Bool.eqb m m' && str_eqb d d' && list_eqb Z.eqb sh sh'
  | _, _ => false
  end.
(* Python ==: deque ignores maxlen, array.array compares by value whatever the typecode;
   ndarray == is elementwise (not a bool): arrays never occur inside keys, the loose relation is the strict one *)
Definition seqkind_loose (k k' : seqkind) : bool :=
  match k, k' with
  | KDeque _, KDeque _ => true
  | KArray _, KArray _ => true
  | _, _ => seqkind_eqb k k'
  end.
Definition setkind_eqb (k k' : setkind) : bool :=
  match k, k' with KSet, KSet | KFrozenset, KFrozenset => true | _, _ => false end.
Definition mapkind_eqb (k k' : mapkind) : bool :=
  match k, k' with
  | KDict, KDict | KODict, KODict | KCounter, KCounter => true
  | KDefault f, KDefault f' => opt_eqb str_eqb f f'
  | _, _ => false
  end.

Definition is_zero (v : pyval) : bool := match v with PA a => atom_eq (AInt 0) a | _ => false end.

(* ---------- equality ----------
   rel false = Python's == (what comparing two cache keys does);
   rel true  = "equal values of the same type": additionally the container kinds agree at every level
               (dict vs OrderedDict, set vs frozenset, deque maxlen, array typecode, ndarray dtype/shape/maskedness,
               defaultdict factory).  Leaves are compared with Python's == in both (1 == True == 1.0). *)
Fixpoint rel (st : bool) (v w : pyval) {struct v} : bool :=
  match v, w with
  | PA a, PA b => atom_eq a b
  | PSeq k l, PSeq k' l' =>
      (if st then seqkind_eqb k k' else seqkind_loose k k')
      && (fix go (l l' : list pyval) : bool :=
            match l, l' with
            | [], [] => true
            | x :: t, y :: t' => rel st x y && go t t'
            | _, _ => false
            end) l l'
  | PSetv k l, PSetv k' l' =>
      (* set.__eq__: same size and subset *)
      (negb st || setkind_eqb k k') && Nat.eqb (length l) (length l')
      && forallb (fun a => existsb (fun b => rel st a b) l') l
  | PMap k kvs, PMap k' kvs' =>
      (negb st || mapkind_eqb k k')
      && match k, k' with
         | KODict, KODict =>                             (* order-sensitive *)
             (fix go (l l' : list (pyval * pyval)) : bool :=
                match l, l' with
                | [], [] => true
                | kv :: t, kv' :: t' => rel st (fst kv) (fst kv') && rel st (snd kv) (snd kv') && go t t'
                | _, _ => false
                end) kvs kvs'
         | KCounter, KCounter =>
             (* Counter.__eq__ (3.10+): all(self[e] == other[e] for c in (self, other) for e in c) where a missing
                count is 0 - i.e. the two Counters agree as dicts once their zero counts are dropped.  Written as
                dict.__eq__ (same size, every item found) on the items with a non-zero count. *)
             Nat.eqb (length (filter (fun kv => negb (is_zero (snd kv))) kvs))
                     (length (filter (fun kv => negb (is_zero (snd kv))) kvs'))
             && forallb (fun kv =>
                           is_zero (snd kv)
                           || existsb (fun kv' => negb (is_zero (snd kv'))
                                                  && (rel st (fst kv) (fst kv') && rel st (snd kv) (snd kv'))) kvs') kvs
         | _, _ =>                                       (* dict.__eq__: same size, every item found *)
             Nat.eqb (length kvs) (length kvs')
             && forallb (fun kv => existsb (fun kv' => rel st (fst kv) (fst kv') && rel st (snd kv) (snd kv')) kvs') kvs
         end
  | PSeries n d i x, PSeries n' d' i' x' =>              (* Series.equals (+ name) *)
      atom_eq n n' && str_eqb d d' && list_eqb atom_eq i i' && list_eqb atom_eq x x'
  | PFrame c i, PFrame c' i' =>                          (* DataFrame.equals *)
      list_eqb (fun a b => atom_eq (fst a) (fst b) && str_eqb (fst (snd a)) (fst (snd b))
                           && list_eqb atom_eq (snd (snd a)) (snd (snd b))) c c'
      && list_eqb atom_eq i i'
  | _, _ => false
  end.

Definition py_eq : pyval -> pyval -> bool := rel false.
Definition py_same : pyval -> pyval -> bool := rel true.

(* ---------- hash() succeeds ---------- *)
Fixpoint py_hashable (v : pyval) : bool :=
  match v with
  | PA a => atom_hashable a
  | PSeq KTuple l => forallb py_hashable l
  | PSetv KFrozenset _ => true
  | _ => false
  end.

(* ---------- the canonical sort key: pipefunc.cache._sort_key ----------
   A total order on hashable values that does not depend on insertion order or hash seed; to_hashable sorts set
   elements and mapping keys by it.  A key is the Python tuple (tag, payload): ("number", x) | ("str", s) |
   ("bytes", b) | ("None",) | ("tuple", (keys..)) | ("frozenset", (sorted keys..)) | ("~" + type name, repr).
   CK tag payload kids: tag and payload as code sequences (for a number the one-element sequence [4*value]),
   kids for the recursive cases.  ck_ltb is Python's < on these tuples: first the tags (str <), then the
   payloads (number / str / bytes <), then the kids lexicographically (tuple <). *)
Inductive ck := CK (tag : list Z) (payload : list Z) (kids : list ck).

Fixpoint ck_eqb (a b : ck) {struct a} : bool :=
  match a, b with
  | CK t p ks, CK t' p' ks' =>
      list_eqb Z.eqb t t' && list_eqb Z.eqb p p'
      && (fix eqk (l l' : list ck) : bool :=
            match l, l' with
            | [], [] => true
            | x :: r, y :: r' => ck_eqb x y && eqk r r'
            | _, _ => false
            end) ks ks'
  end.

Fixpoint ck_ltb (a b : ck) {struct a} : bool :=
  match a, b with
  | CK t p ks, CK t' p' ks' =>
      lex_ltb t t'
      || (list_eqb Z.eqb t t'
          && (lex_ltb p p'
              || (list_eqb Z.eqb p p'
                  && (fix lexk (l l' : list ck) : bool :=
                        match l, l' with
                        | _, [] => false
                        | [], _ :: _ => true
                        | x :: r, y :: r' => ck_ltb x y || (ck_eqb x y && lexk r r')
                        end) ks ks')))
  end.

(* sorted(keys) on a list of keys (a total order: any correct sort gives this list) *)
Fixpoint ck_insert (x : ck) (l : list ck) : list ck :=
  match l with
  | [] => [x]
  | y :: t => if ck_ltb y x then y :: ck_insert x t else x :: l
  end.
Definition ck_sort (l : list ck) : list ck := fold_right ck_insert [] l.

Definition tg (x : string) : list Z := codes (s x).
Arguments tg x%string.

Fixpoint ckey (v : pyval) : ck :=
  match v with
  | PA a =>
      match a with
      | AInt _ | ABool _ | AFloat _ => CK (tg "number") (match numval a with Some z => [z] | None => [] end) []
      | AStr x => CK (tg "str") (codes x) []
      | ABytes x => CK (tg "bytes") (codes x) []
      | ANone => CK (tg "None") [] []
      | AType n => CK (tg "~type") (codes n) []          (* repr(<class 'n'>) *)
      | _ => CK (tg "~") [] []                             (* unhashable or key-only atoms: never sorted *)
      end
  | PSeq KTuple l => CK (tg "tuple") [] (map ckey l)
  | PSetv _ l => CK (tg "frozenset") [] (ck_sort (map ckey l))
  | _ => CK (tg "~") [] []                                 (* unhashable: never a set element or a dict key *)
  end.

(* the comparison sorted(..., key=_sort_key) performs on two elements: never raises *)
Definition key_lt (a b : pyval) : result bool := Ok (ck_ltb (ckey a) (ckey b)).

(* ---------- well-formed values: what can exist as a Python object of these types ---------- *)
Fixpoint nodup_by {A} (eqb : A -> A -> bool) (l : list A) : bool :=
  match l with [] => true | x :: t => negb (existsb (eqb x) t) && nodup_by eqb t end.

Definition is_int (v : pyval) : bool := match v with PA (AInt _) => true | _ => false end.
Definition is_byte (v : pyval) : bool := match v with PA (AInt z) => (0 <=? z)%Z && (z <? 256)%Z | _ => false end.
Definition is_float (v : pyval) : bool := match v with PA (AFloat _) => true | _ => false end.
Definition is_boolv (v : pyval) : bool := match v with PA (ABool _) => true | _ => false end.
Definition is_strv (v : pyval) : bool := match v with PA (AStr _) => true | _ => false end.
Definition is_maskedc (v : pyval) : bool := match v with PA AMasked => true | _ => false end.

Definition dt_obj : str := s "|O".
Definition dtype_class (d : str) : nat :=    (* by the kind character of dtype.str; 4 = object *)
  if str_eqb d dt_obj then 4 else
  match d with
  | _ :: c :: _ =>
      if Ascii.eqb c "i"%char || Ascii.eqb c "u"%char then 0
      else if Ascii.eqb c "f"%char then 1
      else if Ascii.eqb c "b"%char then 2
      else if Ascii.eqb c "U"%char then 3
      else 5
  | _ => 5
  end.
Definition elem_ok (d : str) (v : pyval) : bool :=
  match dtype_class d with
  | 0 => is_int v | 1 => is_float v | 2 => is_boolv v | 3 => is_strv v
  | 4 => negb (is_maskedc v)
  | _ => false
  end.
Definition array_code_ok (c : str) (v : pyval) : bool :=
  if mem_str c [s "b"; s "B"; s "h"; s "H"; s "i"; s "I"; s "l"; s "L"; s "q"; s "Q"] then is_int v
  else if mem_str c [s "f"; s "d"] then is_float v else false.
Definition zprod (l : list Z) : Z := fold_right Z.mul 1%Z l.

Definition cell_ok (a : atom) : bool :=      (* pandas cells / labels *)
  match a with AInt _ | AFloat _ | AStr _ | ABool _ => true | _ => false end.
Definition name_ok (a : atom) : bool := match a with ANone | AStr _ => true | _ => false end.

Definition known_factories : list str := [s "int"; s "list"; s "dict"; s "set"; s "str"; s "float"; s "tuple"].

Fixpoint wf (v : pyval) : bool :=
  match v with
  | PA AMasked => false
  | PA (ADigest _ _) => false             (* a digest only occurs inside keys *)
  | PA _ => true
  | PSeq k l =>
      match k with
      | KNd true _ _ => forallb (fun x => is_maskedc x || wf x) l
      | _ => forallb wf l
      end
      && match k with
         | KTuple | KList | KDeque _ => true
         | KBytearray => forallb is_byte l
         | KArray c => forallb (array_code_ok c) l
         | KNd m d sh =>
             negb (m && str_eqb d dt_obj)      (* masked arrays of objects: not modelled *)
             && forallb (fun z => (0 <=? z)%Z) sh && (Z.of_nat (length l) =? zprod sh)%Z
             && forallb (fun x => (m && is_maskedc x) || elem_ok d x) l
         end
  | PSetv _ l => forallb wf l && forallb py_hashable l && nodup_by (rel false) l
  | PMap k kvs =>
      forallb (fun kv => wf (fst kv) && wf (snd kv)) kvs
      && forallb (fun kv => py_hashable (fst kv)) kvs
      && nodup_by (rel false) (map fst kvs)
      && match k with
         | KCounter => forallb (fun kv => is_int (snd kv)) kvs
         | KDefault (Some f) => mem_str f known_factories
         | _ => true
         end
  | PSeries n d i x =>
      name_ok n && forallb cell_ok i && forallb cell_ok x && Nat.eqb (length i) (length x)
      && forallb (fun a => elem_ok d (PA a)) x
  | PFrame c i =>
      forallb (fun col => cell_ok (fst col) && forallb cell_ok (snd (snd col))
                          && Nat.eqb (length (snd (snd col))) (length i)
                          && forallb (fun a => elem_ok (fst (snd col)) (PA a)) (snd (snd col))) c
      && nodup_by atom_eq (map fst c) && forallb cell_ok i
  end.
