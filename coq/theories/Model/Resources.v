(* Model of pipefunc/resources.py (class Resources) as repaired by the "fix:" commits of branch c20:
   __post_init__, _convert_to_gb (exact decimal arithmetic instead of floats), _is_valid_wall_time,
   _wall_time_to_seconds, to_slurm_options, update, combine_max, with_defaults, maybe_with_defaults,
   dict, from_dict, dataclass __eq__.
   Mutation / aliasing is explicit: every operation returns its result together with the state of its
   operands after the call (and, where an object can be shared, an aliasing flag).
   Definitions only (proofs are in Proofs/ResourcesFacts.v).

   Domain of the model (typed): counts are integers, memory/time/partition are strings or None,
   parallelization_mode is a string, extra_args maps ASCII strings to ints or strings.  Values of other
   Python types are outside the model ([Err OtherError] marks them; the harness never generates them). *)
From Coq Require Import QArith Qreduction.
From Verif Require Import Base.Prelude Base.StrUtil.
Local Close Scope Q_scope.

(* ---------------------------------------------------------------- values *)
Inductive xval := XInt (z : Z) | XStr (x : str).               (* values stored in extra_args *)
Definition xdict := list (str * xval).                        (* a Python dict: insertion ordered, unique keys *)

Definition xval_eqb (a b : xval) : bool :=
  match a, b with
  | XInt x, XInt y => Z.eqb x y
  | XStr x, XStr y => str_eqb x y
  | _, _ => false
  end.

Fixpoint xd_get (d : xdict) (k : str) : option xval :=
  match d with [] => None | (k', v) :: t => if str_eqb k k' then Some v else xd_get t k end.
Definition xd_has (d : xdict) (k : str) : bool := match xd_get d k with Some _ => true | None => false end.
(* d[k] = v : an existing key keeps its position *)
Fixpoint xd_set (d : xdict) (k : str) (v : xval) : xdict :=
  match d with
  | [] => [(k, v)]
  | (k', v') :: t => if str_eqb k k' then (k, v) :: t else (k', v') :: xd_set t k v
  end.
(* {**a, **b}  /  dict(pairs) *)
Definition xd_merge (a b : xdict) : xdict := fold_left (fun d kv => xd_set d (fst kv) (snd kv)) b a.
Definition xd_of_list (l : xdict) : xdict := xd_merge [] l.
(* dict.__eq__ (keys unique on both sides) *)
Definition xd_eqb (a b : xdict) : bool :=
  (length a =? length b) && forallb (fun kv => opt_eqb xval_eqb (xd_get b (fst kv)) (Some (snd kv))) a.

(* keyword values: what may be passed to Resources( **data) / update( **kwargs) *)
Inductive uval := UNone | UInt (z : Z) | UStr (x : str) | UDict (d : xdict).
Definition udict := list (str * uval).

(* the dataclass, in field order *)
Record res := mkR {
  cpus : option Z; cpus_per_node : option Z; nodes : option Z; memory : option str;
  gpus : option Z; time : option str; partition : option str; extra_args : xdict; mode : str }.

Definition default_res : res := mkR None None None None None None None [] (s "external").

(* ---------------------------------------------------------------- decimal numbers *)
Fixpoint uint_str (u : Decimal.uint) : str :=
  match u with
  | Decimal.Nil => []
  | Decimal.D0 u => "0"%char :: uint_str u | Decimal.D1 u => "1"%char :: uint_str u
  | Decimal.D2 u => "2"%char :: uint_str u | Decimal.D3 u => "3"%char :: uint_str u
  | Decimal.D4 u => "4"%char :: uint_str u | Decimal.D5 u => "5"%char :: uint_str u
  | Decimal.D6 u => "6"%char :: uint_str u | Decimal.D7 u => "7"%char :: uint_str u
  | Decimal.D8 u => "8"%char :: uint_str u | Decimal.D9 u => "9"%char :: uint_str u
  end.
(* str(int) *)
Definition z_str (z : Z) : str :=
  match z with
  | Z0 => s "0"
  | Zpos p => uint_str (Pos.to_uint p)
  | Zneg p => "-"%char :: uint_str (Pos.to_uint p)
  end.

Definition digit_val (c : ascii) : Z := Z.of_nat (code c - 48).
Definition digits_val (x : str) : Z := fold_left (fun acc c => acc * 10 + digit_val c)%Z x 0%Z.
Fixpoint pow10p (n : nat) : positive := match n with O => 1%positive | S n' => (10 * pow10p n')%positive end.

(* ---------------------------------------------------------------- memory strings *)
(* str.upper on ASCII *)
Definition upper_char (c : ascii) : ascii :=
  if (97 <=? code c) && (code c <=? 122) then ascii_of_nat (code c - 32) else c.
Definition upper (x : str) : str := map upper_char x.

(* ([KMGTP]?B)\Z  -> decimal exponent of the unit in bytes *)
Definition scan_unit (x : str) : option Z :=
  if str_eqb x (s "B") then Some 0%Z else if str_eqb x (s "KB") then Some 3%Z
  else if str_eqb x (s "MB") then Some 6%Z else if str_eqb x (s "GB") then Some 9%Z
  else if str_eqb x (s "TB") then Some 12%Z else if str_eqb x (s "PB") then Some 15%Z
  else None.

(* re.match(r"^(\d+(?:\.\d+)?)([KMGTP]?B)\Z", memory.upper()) -> (integer digits, fraction digits, unit exponent).
   \d+ is greedy and what follows a digit run must be "." or a unit letter, so there is no backtracking alternative. *)
Definition parse_memory (m : str) : option (str * str * Z) :=
  let x := upper m in
  let (d1, r1) := span is_digit x in
  match d1 with
  | [] => None
  | _ =>
      match r1 with
      | c :: r2 =>
          if Ascii.eqb c "."%char then
            let (d2, r3) := span is_digit r2 in
            match d2 with
            | [] => None            (* the optional group does not match and "." is not a unit *)
            | _ => option_map (fun k => (d1, d2, k)) (scan_unit r3)
            end
          else option_map (fun k => (d1, [], k)) (scan_unit r1)
      | [] => None                (* no unit *)
      end
  end.

(* exact size in bytes: value * 10^k with value = d1.d2 ; (_convert_to_gb is this times 1e-9, in floats) *)
Definition size_of (d1 d2 : str) (k : Z) : Q :=
  Qmake (digits_val (d1 ++ d2) * 10 ^ k)%Z (pow10p (length d2)).
(* _convert_to_gb: None = ValueError *)
Definition mem_bytes (m : str) : option Q :=
  match parse_memory m with Some (d1, d2, k) => Some (size_of d1 d2 k) | None => None end.
Definition is_valid_memory (m : str) : bool := match mem_bytes m with Some _ => true | None => false end.

(* ---------------------------------------------------------------- wall time strings *)
Definition two_digits (x : str) : option str :=
  match x with a :: b :: r => if is_digit a && is_digit b then Some r else None | _ => None end.
Definition colon (x : str) : option str :=
  match x with c :: r => if Ascii.eqb c ":"%char then Some r else None | [] => None end.
Definition g_dd_colon (x : str) : option str :=                        (* \d{2}: *)
  match two_digits x with Some r => colon r | None => None end.
Definition g_dplus_colon (x : str) : option str :=                     (* \d+: *)
  let (d, r) := span is_digit x in match d with [] => None | _ => colon r end.
Definition tail_mmss (x : str) : bool :=                               (* \d{2}:\d{2}\Z *)
  match g_dd_colon x with
  | Some r => match two_digits r with Some [] => true | _ => false end
  | None => false
  end.
Definition after_g1 (x : str) : bool :=                                (* (\d{2}:)?\d{2}:\d{2}\Z *)
  (match g_dd_colon x with Some r => tail_mmss r | None => false end) || tail_mmss x.
(* re.compile(r"^(\d+:)?(\d{2}:)?\d{2}:\d{2}\Z").match(time): both optional groups tried present and absent *)
Definition is_valid_wall_time (x : str) : bool :=
  (match g_dplus_colon x with Some r => after_g1 r | None => false end) || after_g1 x.

(* int(p) restricted to non-empty ASCII digit strings (all that can occur in a validated time string);
   anything else is reported as ValueError *)
Definition int_of_digits (p : str) : result Z :=
  match p with
  | [] => Err ValueError
  | _ => if forallb is_digit p then Ok (digits_val p) else Err ValueError
  end.
(* _wall_time_to_seconds: sum(int(p) * f for p, f in zip(reversed(time.split(":")), (1, 60, 3600, 86400))) *)
Fixpoint sum_parts (l : list (str * Z)) : result Z :=
  match l with
  | [] => Ok 0%Z
  | (p, f) :: t => do v <- int_of_digits p; do r <- sum_parts t; Ok (v * f + r)%Z
  end.
Definition time_secs (t : str) : result Z :=
  sum_parts (combine (rev (split_char ":"%char t)) [1; 60; 3600; 86400]%Z).

(* ---------------------------------------------------------------- construction *)
Definition truthy_z (o : option Z) : bool := match o with Some z => negb (z =? 0)%Z | None => false end.
Definition truthy_s (o : option str) : bool := match o with Some (_ :: _) => true | _ => false end.
Definition is_some {A} (o : option A) : bool := match o with Some _ => true | None => false end.

(* Resources.__post_init__ (checks in source order; every failure is ValueError) *)
Definition post_init (r : res) : result res :=
  if match cpus r with Some c => (c <=? 0)%Z | None => false end then Err ValueError
  else if match gpus r with Some g => (g <? 0)%Z | None => false end then Err ValueError
  else if match nodes r with Some n => (n <=? 0)%Z | None => false end then Err ValueError
  else if match cpus_per_node r with Some n => (n <=? 0)%Z | None => false end then Err ValueError
  else if match memory r with Some m => negb (is_valid_memory m) | None => false end then Err ValueError
  else if match time r with Some t => negb (is_valid_wall_time t) | None => false end then Err ValueError
  else if truthy_z (nodes r) && truthy_z (cpus r) then Err ValueError
  else if truthy_z (cpus_per_node r) && negb (truthy_z (nodes r)) then Err ValueError
  else Ok r.

(* field names *)
Inductive fld := Fcpus | Fcpn | Fnodes | Fmemory | Fgpus | Ftime | Fpartition | Fextra | Fmode.
Definition fld_key (f : fld) : str :=
  match f with
  | Fcpus => s "cpus" | Fcpn => s "cpus_per_node" | Fnodes => s "nodes" | Fmemory => s "memory"
  | Fgpus => s "gpus" | Ftime => s "time" | Fpartition => s "partition" | Fextra => s "extra_args"
  | Fmode => s "parallelization_mode"
  end.
Definition all_flds : list fld := [Fcpus; Fcpn; Fnodes; Fmemory; Fgpus; Ftime; Fpartition; Fextra; Fmode].
Definition field_of_key (k : str) : option fld := find (fun f => str_eqb k (fld_key f)) all_flds.

(* data[key] = value on the typed record; None = value outside the typed domain of the model *)
Definition set_field (f : fld) (v : uval) (r : res) : option res :=
  let '(mkR c cn n m g t p e md) := r in
  match f, v with
  | Fcpus, UNone => Some (mkR None cn n m g t p e md)
  | Fcpus, UInt z => Some (mkR (Some z) cn n m g t p e md)
  | Fcpn, UNone => Some (mkR c None n m g t p e md)
  | Fcpn, UInt z => Some (mkR c (Some z) n m g t p e md)
  | Fnodes, UNone => Some (mkR c cn None m g t p e md)
  | Fnodes, UInt z => Some (mkR c cn (Some z) m g t p e md)
  | Fmemory, UNone => Some (mkR c cn n None g t p e md)
  | Fmemory, UStr x => Some (mkR c cn n (Some x) g t p e md)
  | Fgpus, UNone => Some (mkR c cn n m None t p e md)
  | Fgpus, UInt z => Some (mkR c cn n m (Some z) t p e md)
  | Ftime, UNone => Some (mkR c cn n m g None p e md)
  | Ftime, UStr x => Some (mkR c cn n m g (Some x) p e md)
  | Fpartition, UNone => Some (mkR c cn n m g t None e md)
  | Fpartition, UStr x => Some (mkR c cn n m g t (Some x) e md)
  | Fextra, UDict d => Some (mkR c cn n m g t p d md)
  | Fmode, UStr x => Some (mkR c cn n m g t p e x)
  | _, _ => None
  end.

Definition set_extra (r : res) (e : xdict) : res :=
  mkR (cpus r) (cpus_per_node r) (nodes r) (memory r) (gpus r) (time r) (partition r) e (mode r).

(* Resources( **data): unknown keyword -> TypeError (before any validation); then __post_init__ *)
Fixpoint assign (d : udict) (r : res) : result res :=
  match d with
  | [] => Ok r
  | (k, v) :: t =>
      match field_of_key k with
      | None => Err TypeError
      | Some f => match set_field f v r with Some r' => assign t r' | None => Err OtherError end
      end
  end.
Definition construct (d : udict) : result res :=
  if forallb (fun kv => is_some (field_of_key (fst kv))) d
  then do r <- assign d default_res; post_init r
  else Err TypeError.
(* Resources.from_dict: TypeError is re-raised as TypeError, everything else passes through *)
Definition from_dict (d : udict) : result res := construct d.

(* asdict(self) without the None values, in field order *)
Definition oz (k : str) (o : option Z) : udict := match o with Some z => [(k, UInt z)] | None => [] end.
Definition os (k : str) (o : option str) : udict := match o with Some x => [(k, UStr x)] | None => [] end.
Definition to_dict (r : res) : udict :=
  oz (s "cpus") (cpus r) ++ oz (s "cpus_per_node") (cpus_per_node r) ++ oz (s "nodes") (nodes r)
  ++ os (s "memory") (memory r) ++ oz (s "gpus") (gpus r) ++ os (s "time") (time r)
  ++ os (s "partition") (partition r)
  ++ [(s "extra_args", UDict (extra_args r)); (s "parallelization_mode", UStr (mode r))].

(* dataclass __eq__ (tuple of fields; dict equality ignores order) *)
Definition res_eqb (a b : res) : bool :=
  opt_eqb Z.eqb (cpus a) (cpus b) && opt_eqb Z.eqb (cpus_per_node a) (cpus_per_node b)
  && opt_eqb Z.eqb (nodes a) (nodes b) && opt_eqb str_eqb (memory a) (memory b)
  && opt_eqb Z.eqb (gpus a) (gpus b) && opt_eqb str_eqb (time a) (time b)
  && opt_eqb str_eqb (partition a) (partition b) && xd_eqb (extra_args a) (extra_args b)
  && str_eqb (mode a) (mode b).

(* ---------------------------------------------------------------- to_slurm_options *)
Definition xval_str (v : xval) : str := match v with XInt z => z_str z | XStr x => x end.
Definition slurm_tokens (r : res) : list str :=
  (if truthy_z (cpus r) then match cpus r with Some c => [s "--cpus-per-task=" ++ z_str c] | None => [] end else [])
  ++ (if truthy_z (gpus r) then match gpus r with Some g => [s "--gres=gpu:" ++ z_str g] | None => [] end else [])
  ++ (if truthy_z (nodes r) then match nodes r with Some n => [s "--nodes=" ++ z_str n] | None => [] end else [])
  ++ (if truthy_z (cpus_per_node r)
      then match cpus_per_node r with Some n => [s "--cpus-per-node=" ++ z_str n] | None => [] end else [])
  ++ (if truthy_s (memory r) then match memory r with Some m => [s "--mem=" ++ m] | None => [] end else [])
  ++ (if truthy_s (time r) then match time r with Some t => [s "--time=" ++ t] | None => [] end else [])
  ++ (if truthy_s (partition r)
      then match partition r with Some p => [s "--partition=" ++ p] | None => [] end else [])
  ++ map (fun kv => s "--" ++ fst kv ++ s "=" ++ xval_str (snd kv)) (extra_args r).
Definition to_slurm_options (r : res) : str := join (s " ") (slurm_tokens r).

(* ---------------------------------------------------------------- update *)
(* State of the loop in update(): [data] is the dict being built; [recv] the receiver's extra_args object;
   [shared] tells whether data["extra_args"] IS the receiver's dict object.
     data = self.__dict__.copy()                      -> shared (shallow copy)
     data["extra_args"] = dict(data["extra_args"])    -> not shared any more          (added by the fix)
   [alias0] is the sharing at loop entry: false for the repaired code, true for the code before the fix. *)
Record ustate := mkU { u_data : res; u_recv : xdict; u_shared : bool }.

Definition update_step (st : result ustate) (kv : str * uval) : result ustate :=
  do u <- st;
  let (k, v) := kv in
  match field_of_key k with
  | Some Fextra =>                      (* data["extra_args"] = {**data["extra_args"], **value} : a fresh dict *)
      match v with
      | UDict d => Ok (mkU (set_extra (u_data u) (xd_merge (extra_args (u_data u)) d)) (u_recv u) false)
      | _ => Err OtherError
      end
  | Some f =>                           (* data[key] = value *)
      match set_field f v (u_data u) with
      | Some r' => Ok (mkU r' (u_recv u) (u_shared u))
      | None => Err OtherError
      end
  | None =>                             (* data["extra_args"][key] = value : in place *)
      match v with
      | UInt z =>
          let e := xd_set (extra_args (u_data u)) k (XInt z) in
          Ok (mkU (set_extra (u_data u) e) (if u_shared u then e else u_recv u) (u_shared u))
      | UStr x =>
          let e := xd_set (extra_args (u_data u)) k (XStr x) in
          Ok (mkU (set_extra (u_data u) e) (if u_shared u then e else u_recv u) (u_shared u))
      | _ => Err OtherError
      end
  end.

(* result, receiver after the call, "result.extra_args is receiver.extra_args" *)
Definition update_gen (alias0 : bool) (r : res) (kw : udict) : result res * res * bool :=
  match fold_left update_step kw (Ok (mkU r (extra_args r) alias0)) with
  | Ok u =>
      let recv' := set_extra r (u_recv u) in
      match post_init (u_data u) with      (* Resources.from_dict(data): data has exactly the nine field keys *)
      | Ok x => (Ok x, recv', u_shared u)
      | Err e => (Err e, recv', false)
      end
  | Err e => (Err e, r, false)
  end.
Definition update := update_gen false.          (* the repaired code *)
Definition update_prefix := update_gen true.    (* the code before "fix: Resources.update no longer mutates ..." *)

(* ---------------------------------------------------------------- combine_max *)
Record maxdata := mkM { m_cpus : option Z; m_gpus : option Z; m_memory : option str; m_time : option str;
                        m_partition : option str; m_extra : xdict }.

Definition max_opt_z (cur : option Z) (new : option Z) : option Z :=
  match new with
  | None => cur
  | Some x => match cur with None => Some x | Some c => Some (Z.max c x) end
  end.

(* max(a, b, key=_wall_time_to_seconds): the first maximal element, i.e. [a] unless key b > key a *)
Definition max_time (a b : str) : result str :=
  do ka <- time_secs a; do kb <- time_secs b; Ok (if (ka <? kb)%Z then b else a).

(* the memory branch of the loop body:
     max_memory_gb = _convert_to_gb(max_data["memory"]) if max_data["memory"] is not None else 0
     current_memory_gb = _convert_to_gb(resources.memory)
     if max_data["memory"] is None or current_memory_gb > max_memory_gb: max_data["memory"] = resources.memory *)
Definition max_mem_step (cur new : option str) : result (option str) :=
  match new with
  | None => Ok cur
  | Some m =>
      do cur_max <- match cur with
                    | Some mm => match mem_bytes mm with Some q => Ok q | None => Err ValueError end
                    | None => Ok (0 # 1)%Q
                    end;
      match mem_bytes m with
      | None => Err ValueError
      | Some q => Ok (if negb (is_some cur) || negb (Qle_bool q cur_max) then Some m else cur)
      end
  end.
(* the time branch *)
Definition max_time_step (cur new : option str) : result (option str) :=
  match new with
  | None => Ok cur
  | Some x => match cur with None => Ok (Some x) | Some c => do y <- max_time c x; Ok (Some y) end
  end.

(* The code before "fix: combine_max compares wall times by duration": max(a, b) on Python strings,
   i.e. lexicographic order of code points (kept only to state the refutation of the old behaviour). *)
Fixpoint str_ltb (a b : str) : bool :=
  match a, b with
  | _, [] => false
  | [], _ :: _ => true
  | x :: a', y :: b' => if code x <? code y then true else if code y <? code x then false else str_ltb a' b'
  end.
Definition max_time_prefix (a b : str) : str := if str_ltb a b then b else a.

Definition combine_step (st : result maxdata) (r : res) : result maxdata :=
  do md <- st;
  let c := max_opt_z (m_cpus md) (cpus r) in
  let g := max_opt_z (m_gpus md) (gpus r) in
  do mem <- max_mem_step (m_memory md) (memory r);
  do t <- max_time_step (m_time md) (time r);
  let p := match partition r with Some x => Some x | None => m_partition md end in
  let e := fold_left (fun d kv => if xd_has d (fst kv) then d else xd_set d (fst kv) (snd kv))
                     (extra_args r) (m_extra md) in
  Ok (mkM c g mem t p e).

(* result and the operands after the call (combine_max only reads its operands) *)
Definition combine_max (rs : list res) : result res * list res :=
  match rs with
  | [] => (post_init default_res, rs)
  | _ =>
      match fold_left combine_step rs (Ok (mkM None None None None None [])) with
      | Ok md => (post_init (mkR (m_cpus md) None None (m_memory md) (m_gpus md) (m_time md) (m_partition md)
                                 (m_extra md) (s "external")), rs)
      | Err e => (Err e, rs)
      end
  end.

(* ---------------------------------------------------------------- with_defaults *)
(* dict(a, **b): a's entries (values overridden by b), then b's new keys *)
Fixpoint ud_set (d : udict) (k : str) (v : uval) : udict :=
  match d with
  | [] => [(k, v)]
  | (k', v') :: t => if str_eqb k k' then (k, v) :: t else (k', v') :: ud_set t k v
  end.
Definition ud_merge (a b : udict) : udict := fold_left (fun d kv => ud_set d (fst kv) (snd kv)) b a.

(* result, receiver after, defaults after, "result is self" *)
Definition with_defaults (r : res) (d : option res) : result res * res * option res * bool :=
  match d with
  | None => (Ok r, r, None, true)
  | Some dr => (construct (ud_merge (to_dict dr) (to_dict r)), r, Some dr, false)
  end.

Inductive whichobj := WNone | WFirst | WSecond | WNew.
(* Resources.maybe_with_defaults for non-callable resources:
   result (None = Python None), operands after, which operand object the result is *)
Definition maybe_with_defaults (r d : option res)
  : option (result res) * option res * option res * whichobj :=
  match r, d with
  | None, None => (None, r, d, WNone)
  | None, Some dr => (Some (Ok dr), r, d, WSecond)
  | Some rr, None => (Some (Ok rr), r, d, WFirst)
  | Some rr, Some dr =>
      let '(x, r', d', _) := with_defaults rr (Some dr) in (Some x, Some r', d', WNew)
  end.

(* ---------------------------------------------------------------- pipefunc/_pipefunc.py: _maybe_max_resources *)
(* resources of a NestedPipeFunc: the explicit argument if given (a Resources object is returned as is, a dict goes
   through from_dict), else the children's resources: none -> None, exactly one -> that very object,
   several -> combine_max.  Callables are outside the model. *)
Fixpoint somes {A} (l : list (option A)) : list A :=
  match l with [] => [] | Some x :: t => x :: somes t | None :: t => somes t end.
Inductive explicit := ENone | ERes (r : res) | EDict (d : udict).
Inductive mm_which := MNone | MExplicit | MChild | MNew.
(* result (None = Python None), the children's resources after the call, which object the result is *)
Definition maybe_max_resources (e : explicit) (children : list (option res))
  : option (result res) * list (option res) * mm_which :=
  match e with
  | ERes r => (Some (Ok r), children, MExplicit)
  | EDict d => (Some (from_dict d), children, MNew)
  | ENone =>
      match somes children with
      | [c] => (Some (Ok c), children, MChild)
      | [] => (None, children, MNone)
      | l => (Some (fst (combine_max l)), children, MNew)
      end
  end.
