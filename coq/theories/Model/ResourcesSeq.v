(* Operation SEQUENCES on shared Resources objects (C20): Python objects live in a heap (the list of all objects
   created so far, addressed by position); an operation names its operands by heap id.
   Every operation is computed from the single-call model of Model/Resources.v; the operand states that those
   functions return ("receiver after the call", "operands after the call") are WRITTEN BACK into the heap, so a
   mutating operation would change the heap.  That no modelled operation does is a theorem
   (Proofs/ResourcesSeqFacts.v: step_preserves_objects), not a modelling decision.
   Definitions only. *)
From Verif Require Import Base.Prelude Base.StrUtil Model.Resources.

Definition heap := list res.

Inductive rop :=
| OCreate (a : res)                          (* Resources( **a ), extra_args = dict(pairs) *)
| OUpdate (i : nat) (kw : udict)             (* heap[i].update( **kw ) *)
| OCombine (ids : list nat)                  (* Resources.combine_max([heap[j] for j in ids]) *)
| OWithDefaults (i : nat) (j : option nat)   (* heap[i].with_defaults(heap[j] | None) *)
| OFromDict (i : nat)                        (* Resources.from_dict(heap[i].dict()) *)
| ODict (i : nat)                            (* heap[i].dict() *)
| OSlurm (i : nat)                           (* heap[i].to_slurm_options() *)
| OEq (i j : nat).                           (* heap[i] == heap[j] *)

Inductive oval := VDict (d : udict) | VStr (x : str) | VBool (b : bool).
Inductive outcome :=
| ONew                   (* returned a new object: it is appended to the heap *)
| OExisting (id : nat)   (* returned the object heap[id] itself *)
| OValue (v : oval)      (* returned a plain value *)
| ORaise (e : err)
| OBad.                  (* an operand id that does not exist: not an operation sequence *)

Fixpoint set_nth {A} (n : nat) (x : A) (l : list A) : list A :=
  match l, n with
  | [], _ => []
  | _ :: t, O => x :: t
  | y :: t, S n' => y :: set_nth n' x t
  end.
Fixpoint write_back (h : heap) (ids : list nat) (vals : list res) : heap :=
  match ids, vals with
  | i :: ids', v :: vals' => write_back (set_nth i v h) ids' vals'
  | _, _ => h
  end.
Fixpoint get_all (h : heap) (ids : list nat) : option (list res) :=
  match ids with
  | [] => Some []
  | i :: t => match nth_error h i, get_all h t with Some r, Some rs => Some (r :: rs) | _, _ => None end
  end.

Definition finish (x : result res) (h : heap) : outcome * heap :=
  match x with Ok y => (ONew, h ++ [y]) | Err e => (ORaise e, h) end.

Definition step (h : heap) (op : rop) : outcome * heap :=
  match op with
  | OCreate a => finish (post_init (set_extra a (xd_of_list (extra_args a)))) h
  | OUpdate i kw =>
      match nth_error h i with
      | None => (OBad, h)
      | Some r => let '(x, r', _) := update r kw in finish x (set_nth i r' h)
      end
  | OCombine ids =>
      match get_all h ids with
      | None => (OBad, h)
      | Some rs => let (x, rs') := combine_max rs in finish x (write_back h ids rs')
      end
  | OWithDefaults i j =>
      match nth_error h i, match j with None => Some None | Some jj => option_map Some (nth_error h jj) end with
      | Some r, Some d =>
          let '(x, r', d', same) := with_defaults r d in
          let h1 := set_nth i r' h in
          let h2 := match j, d' with Some jj, Some dv => set_nth jj dv h1 | _, _ => h1 end in
          if same then (match x with Ok _ => OExisting i | Err e => ORaise e end, h2) else finish x h2
      | _, _ => (OBad, h)
      end
  | OFromDict i =>
      match nth_error h i with
      | None => (OBad, h)
      | Some r => finish (from_dict (to_dict r)) h
      end
  | ODict i =>
      match nth_error h i with None => (OBad, h) | Some r => (OValue (VDict (to_dict r)), h) end
  | OSlurm i =>
      match nth_error h i with None => (OBad, h) | Some r => (OValue (VStr (to_slurm_options r)), h) end
  | OEq i j =>
      match nth_error h i, nth_error h j with
      | Some a, Some b => (OValue (VBool (res_eqb a b)), h)
      | _, _ => (OBad, h)
      end
  end.

(* sorted(vars(obj)): a Resources instance carries exactly its nine dataclass fields *)
Definition var_keys : list str :=
  [s "cpus"; s "cpus_per_node"; s "extra_args"; s "gpus"; s "memory"; s "nodes"; s "parallelization_mode";
   s "partition"; s "time"].
