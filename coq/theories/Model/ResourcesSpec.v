(* Declarative side of C20.  Written from the documented meaning of the fields (docstring of Resources and the
   property text), not from the scanners of Model/Resources.v:
     memory  = <decimal number><unit>, unit one of B KB MB GB TB PB (any letter case), size = number * 10^(3i) bytes
     time    = MM:SS | H+:MM:SS | D+:HH:MM:SS, duration in seconds
     valid   = positive cpus / nodes / cpus_per_node, non-negative gpus, well-formed memory and time,
               not (nodes and cpus), cpus_per_node only with nodes.
   Only the record type, [upper], [digits_val], [pow10p], [z_str] (decimal notation) are shared with the model. *)
From Coq Require Import QArith Qreduction.
From Verif Require Import Base.Prelude Base.StrUtil Model.Resources.
Local Close Scope Q_scope.

(* ---------------------------------------------------------------- Prop level grammar *)
Definition all_digits (x : str) : Prop := x <> [] /\ Forall (fun c => is_digit c = true) x.
Definition dd (x : str) : Prop := exists a b, x = [a; b] /\ is_digit a = true /\ is_digit b = true.

Inductive unit_exp : str -> Z -> Prop :=
| U_B : unit_exp (s "B") 0
| U_KB : unit_exp (s "KB") 3
| U_MB : unit_exp (s "MB") 6
| U_GB : unit_exp (s "GB") 9
| U_TB : unit_exp (s "TB") 12
| U_PB : unit_exp (s "PB") 15.

(* value d1[.d2] * 10^k bytes as an exact rational *)
Definition dec_size (d1 d2 : str) (k : Z) : Q := Qmake (digits_val (d1 ++ d2) * 10 ^ k)%Z (pow10p (length d2)).

Definition mem_denotes (m : str) (q : Q) : Prop :=
  exists d1 d2 u k, unit_exp u k /\ all_digits d1 /\
    ((d2 = [] /\ upper m = d1 ++ u) \/ (all_digits d2 /\ upper m = d1 ++ "."%char :: d2 ++ u)) /\
    q = dec_size d1 d2 k.

Definition time_denotes (t : str) (secs : Z) : Prop :=
  (exists m ss, dd m /\ dd ss /\ t = m ++ ":"%char :: ss
                /\ secs = (60 * digits_val m + digits_val ss)%Z)
  \/ (exists h m ss, all_digits h /\ dd m /\ dd ss /\ t = h ++ ":"%char :: m ++ ":"%char :: ss
                /\ secs = (3600 * digits_val h + 60 * digits_val m + digits_val ss)%Z)
  \/ (exists d h m ss, all_digits d /\ dd h /\ dd m /\ dd ss
                /\ t = d ++ ":"%char :: h ++ ":"%char :: m ++ ":"%char :: ss
                /\ secs = (86400 * digits_val d + 3600 * digits_val h + 60 * digits_val m + digits_val ss)%Z).

Definition pos_opt (o : option Z) : Prop := match o with Some z => (0 < z)%Z | None => True end.
Definition nonneg_opt (o : option Z) : Prop := match o with Some z => (0 <= z)%Z | None => True end.

(* a Resources value that the documentation allows *)
Definition valid_res (r : res) : Prop :=
  pos_opt (cpus r) /\ nonneg_opt (gpus r) /\ pos_opt (nodes r) /\ pos_opt (cpus_per_node r)
  /\ (forall m, memory r = Some m -> exists q, mem_denotes m q)
  /\ (forall t, time r = Some t -> exists n, time_denotes t n)
  /\ ~ (nodes r <> None /\ cpus r <> None)
  /\ (cpus_per_node r <> None -> nodes r <> None).

(* ---------------------------------------------------------------- executable counterparts (used by spec_ok) *)
Definition digits_b (x : str) : bool := match x with [] => false | _ => forallb is_digit x end.
Definition dd_b (x : str) : bool := match x with [a; b] => is_digit a && is_digit b | _ => false end.

Definition prefix_exp (c : ascii) : option Z :=
  if Ascii.eqb c "K"%char then Some 3%Z else if Ascii.eqb c "M"%char then Some 6%Z
  else if Ascii.eqb c "G"%char then Some 9%Z else if Ascii.eqb c "T"%char then Some 12%Z
  else if Ascii.eqb c "P"%char then Some 15%Z else None.

(* strip the unit from the right: (number part, exponent) *)
Definition sp_split_unit (x : str) : option (str * Z) :=
  match rev x with
  | b :: rest =>
      if Ascii.eqb b "B"%char then
        match rest with
        | c :: r => match prefix_exp c with Some k => Some (rev r, k) | None => Some (rev rest, 0%Z) end
        | [] => Some ([], 0%Z)
        end
      else None
  | [] => None
  end.
Definition sp_number (x : str) : option (str * str) :=
  match split_first "."%char x with
  | Some (a, b) => if digits_b a && digits_b b then Some (a, b) else None
  | None => if digits_b x then Some (x, []) else None
  end.
Definition sp_mem_size (m : str) : option Q :=
  match sp_split_unit (upper m) with
  | Some (num, k) => match sp_number num with Some (a, b) => Some (dec_size a b k) | None => None end
  | None => None
  end.

Definition sp_time_secs (t : str) : option Z :=
  match split_char ":"%char t with
  | [m; ss] => if dd_b m && dd_b ss then Some (60 * digits_val m + digits_val ss)%Z else None
  | [h; m; ss] =>
      if digits_b h && dd_b m && dd_b ss
      then Some (3600 * digits_val h + 60 * digits_val m + digits_val ss)%Z else None
  | [d; h; m; ss] =>
      if digits_b d && dd_b h && dd_b m && dd_b ss
      then Some (86400 * digits_val d + 3600 * digits_val h + 60 * digits_val m + digits_val ss)%Z else None
  | _ => None
  end.

Definition pos_b (o : option Z) : bool := match o with Some z => (0 <? z)%Z | None => true end.
Definition nonneg_b (o : option Z) : bool := match o with Some z => (0 <=? z)%Z | None => true end.
Definition set_b {A} (o : option A) : bool := match o with Some _ => true | None => false end.

Definition sp_valid (r : res) : bool :=
  pos_b (cpus r) && nonneg_b (gpus r) && pos_b (nodes r) && pos_b (cpus_per_node r)
  && match memory r with Some m => set_b (sp_mem_size m) | None => true end
  && match time r with Some t => set_b (sp_time_secs t) | None => true end
  && negb (set_b (nodes r) && set_b (cpus r))
  && (negb (set_b (cpus_per_node r)) || set_b (nodes r)).

(* ---------------------------------------------------------------- orders on quantities; unset = no constraint *)
Definition le_oz (a b : option Z) : Prop :=
  match a with None => True | Some x => match b with Some y => (x <= y)%Z | None => False end end.
Definition size_le (a b : option str) : Prop :=
  match a with
  | None => True
  | Some m => exists q, mem_denotes m q /\
                match b with Some m' => exists q', mem_denotes m' q' /\ (q <= q')%Q | None => False end
  end.
Definition dur_le (a b : option str) : Prop :=
  match a with
  | None => True
  | Some t => exists n, time_denotes t n /\
                match b with Some t' => exists n', time_denotes t' n' /\ (n <= n')%Z | None => False end
  end.

(* "at least as large as the operand in each quantity" *)
Definition dominates (big small : res) : Prop :=
  le_oz (cpus small) (cpus big) /\ le_oz (gpus small) (gpus big)
  /\ size_le (memory small) (memory big) /\ dur_le (time small) (time big).

(* "keeps every quantity set on the receiver and fills only unset ones" *)
Definition fill {A} (mine dflt : option A) : option A := match mine with Some x => Some x | None => dflt end.
Definition filled (r d : res) : res :=
  mkR (fill (cpus r) (cpus d)) (fill (cpus_per_node r) (cpus_per_node d)) (fill (nodes r) (nodes d))
      (fill (memory r) (memory d)) (fill (gpus r) (gpus d)) (fill (time r) (time d))
      (fill (partition r) (partition d)) (extra_args r) (mode r).

(* "to_slurm_options mentions every quantity that is set": the option appears as one blank-separated word *)
Definition quantity_words (r : res) : list str :=
  match cpus r with Some c => [s "--cpus-per-task=" ++ z_str c] | None => [] end
  ++ match gpus r with Some g => [s "--gres=gpu:" ++ z_str g] | None => [] end
  ++ match nodes r with Some n => [s "--nodes=" ++ z_str n] | None => [] end
  ++ match cpus_per_node r with Some n => [s "--cpus-per-node=" ++ z_str n] | None => [] end
  ++ match memory r with Some m => [s "--mem=" ++ m] | None => [] end
  ++ match time r with Some t => [s "--time=" ++ t] | None => [] end.
Definition mentions_all (r : res) (out : str) : Prop :=
  forall w, In w (quantity_words r) -> In w (split_char " "%char out).
