(* Model/Rewrite.v - structural rewrites of pipelines (C10).

   WHAT IS MODELLED (pipefunc/_pipeline/_base.py, _simplify.py, pipefunc/_pipefunc.py; repaired code, see
   known_findings.jsonl "fixed:" lines of C10):
     NestedPipeFunc / _NestedFuncWrapper / PipeFunc.__call__ of a nested function   -> node, nrun_out (nested branch)
     Pipeline.run with scoped keyword arguments (_flatten_scopes, dotted / nested)  -> flatten_scopes, nrun
     Pipeline.update_renames(update_from="current") / PipeFunc.update_renames       -> rename, update_renames
     Pipeline.update_scope / PipeFunc.update_scope / _prepend_name_with_scope       -> scope_name, update_scope
     Pipeline.copy / cloudpickle round trip                                         -> identity (OCopy / OPickle)
     Pipeline.join / __or__ / add (validation)                                      -> join, add_node, validate
     Pipeline.split_disconnected / _connected_components                            -> components, split
     Pipeline.nest_funcs / NestedPipeFunc.__init__                                  -> nest, mk_nested
     simplified_pipeline / _identify_combinable_nodes / _combine_nodes / _output_name -> simplify
   A pipeline is a list of `node`s: a node is a Pipe.pfunc together with the ORIGINAL output names (the user
   code / the inner pipeline knows its outputs by these: output renames never reach the callable) and, for a
   NestedPipeFunc, the inner pipeline.  `lift` embeds Pipe.pipeline; on lifted pipelines nrun / neval coincide
   with Pipe.run / Pipe.eval (Proofs/RewriteFacts.v).
   The user-code oracle `body` receives ORIGINAL parameter names, `pick` the ORIGINAL output name.
   Definitions only; proofs are in Proofs/RewriteFacts.v. *)
From Verif Require Import Base.Prelude Base.StrOrd Base.StrUtil Base.Graph Model.Pipe.

(* ---------- nodes ---------- *)
Inductive node := Node (f : pfunc) (oorig : list str) (inner : option (list node)).
Definition npipe := list node.
Definition nf (nd : node) : pfunc := match nd with Node f _ _ => f end.
Definition noorig (nd : node) : list str := match nd with Node _ oo _ => oo end.
Definition ninner (nd : node) : option npipe := match nd with Node _ _ i => i end.
Definition funcs (p : npipe) : pipeline := map nf p.
Definition prim (f : pfunc) : node := Node f (outs f) None.
Definition lift (p : pipeline) : npipe := map prim p.
Definition nproducer (p : npipe) (o : str) : option node := find (fun nd => mem_str o (outs (nf nd))) p.
Definition nid (nd : node) : str := fid (nf nd).

Fixpoint pos_str (x : str) (l : list str) : option nat :=
  match l with
  | [] => None
  | y :: t => if str_eqb x y then Some O else option_map S (pos_str x t)
  end.
(* the original name of the (current) output name o of nd: positional, as _default_output_picker *)
Definition orig_out (nd : node) (o : str) : str :=
  match pos_str o (outs (nf nd)) with Some i => nth i (noorig nd) [] | None => [] end.

(* the names of the user functions fused into a node (invariant under every rewrite); size of a node *)
Fixpoint prim_names (nd : node) : list str :=
  match nd with
  | Node f _ None => [fname f]
  | Node _ _ (Some l) =>
      (fix go (l : list node) : list str := match l with [] => [] | x :: t => prim_names x ++ go t end) l
  end.
Fixpoint nsize (nd : node) : nat :=
  match nd with
  | Node _ _ None => 1
  | Node _ _ (Some l) => S ((fix go (l : list node) : nat := match l with [] => 0 | x :: t => nsize x + go t end) l)
  end.
Definition psize (p : npipe) : nat := fold_right (fun nd a => nsize nd + a) 0 p.

(* ---------- scoped keyword arguments ---------- *)
Inductive kval := KV (v : str) | KD (d : alist).
Definition kwargs := list (str * kval).
Fixpoint kset (l : kwargs) (k : str) (v : kval) : kwargs :=
  match l with
  | [] => [(k, v)]
  | (k', v') :: t => if str_eqb k k' then (k', v) :: t else (k', v') :: kset t k v
  end.
Definition dot : ascii := "."%char.
Definition scope_of (n : str) : option str :=
  match split_first dot n with Some (a, _) => Some a | None => None end.
(* PipeFunc.parameter_scopes *)
Definition param_scopes (f : pfunc) : list str :=
  flat_map (fun n => match scope_of n with Some a => [a] | None => [] end) (pnames f).
(* PipeFunc._flatten_scopes *)
Definition flatten1 (f : pfunc) (kw : kwargs) : result kwargs :=
  let sc := param_scopes f in
  if negb (existsb (fun kv => mem_str (fst kv) sc) kw) then Ok kw
  else fold_left (fun acc kv =>
                    do a <- acc;
                    if mem_str (fst kv) sc then
                      match snd kv with
                      | KD d => Ok (fold_left (fun a' nv => kset a' (fst kv ++ dot :: fst nv) (KV (snd nv))) d a)
                      | KV _ => Err AttributeError                    (* v.items() of a non-dict *)
                      end
                    else Ok (kset a (fst kv) (snd kv))) kw (Ok []).
(* Pipeline._flatten_scopes *)
Definition flatten_scopes (p : pipeline) (kw : kwargs) : result kwargs :=
  fold_left (fun acc f => do a <- acc; flatten1 f a) p (Ok kw).
(* a dict that no function's scope claims stays an ordinary (dict) value; its structural rendering is
   symfuncs.canon of a dict *)
Definition canon_dict (d : alist) : str :=
  s "{" ++ StrUtil.join (s ",") (map (fun kv => fst kv ++ s ":" ++ snd kv) d) ++ s "}".
Definition flat_vals (kw : kwargs) : alist :=
  map (fun kv => (fst kv, match snd kv with KV v => v | KD d => canon_dict d end)) kw.
Definition dotted (kw : alist) : kwargs := map (fun kv => (fst kv, KV (snd kv))) kw.

(* ---------- leaves of the pipeline graph (Pipeline.leaf_nodes / unique_leaf_node) ---------- *)
Definition leaf_funcs (p : pipeline) : list pfunc :=
  let g := graph_of p in
  filter (fun f => negb (existsb (fun e => str_eqb (fst e) (fid f)) (edges g))) p.

Section WithBody.
  Variable body : str -> alist -> result str.
  Variable pick : str -> str -> str.

  (* _update_all_results, from one value per output name *)
  Definition store_vals (f : pfunc) (vals : alist) (rs : alist) : alist :=
    if multi f then
      fold_left (fun acc nv => if ahas acc (fst nv) then acc else aset acc (fst nv) (snd nv)) vals rs
    else fold_left (fun acc nv => aset acc (fst nv) (snd nv)) vals rs.

  (* Pipeline._run on nodes.  A prim node calls the user code (logged); a nested node is
     PipeFunc.__call__ -> _NestedFuncWrapper.__call__ -> inner.run(<first output of the unique leaf>,
     full_output=True, kwargs=<arguments under their original names>) -> result_dict[name] for the original
     output names.  The inner run has its own all_results / used_parameters and the unused-keyword check. *)
  Fixpoint nrun_out (fuel : nat) (p : npipe) (kw : alist) (st : rstate) (o : str) {struct fuel}
    : rstate * result str :=
    match fuel with
    | O => (st, Err RuntimeError)
    | S n =>
        match aget (res st) o with
        | Some v => (st, Ok v)
        | None =>
            match nproducer p o with
            | None => (st, Err KeyError)
            | Some nd =>
                let f := nf nd in
                let '(st1, ra) := get_args (funcs p) kw (nrun_out n p kw) f (params f) st [] in
                match ra with
                | Err e => (st1, Err e)
                | Ok args =>
                    let '(st2, rv) :=
                      match ninner nd with
                      | None =>
                          (st_log st1 (fname f, args),
                           do r <- body (fname f) args;
                           Ok (map (fun o' => (o', if multi f then pick (orig_out nd o') r else r)) (outs f)))
                      | Some inner =>
                          match leaf_funcs (funcs inner) with
                          | [lf] =>
                              let lo := fid lf in
                              if ahas args lo then (st1, Err ValueError) else
                              let '(ist, r) := nrun_out n inner args {| res := args; used := []; log := log st1 |} lo in
                              let st2 := {| res := res st1; used := used st1; log := log ist |} in
                              match r with
                              | Err e => (st2, Err e)
                              | Ok _ =>
                                  match filter (fun k => negb (mem_str k (used ist))) (akeys args) with
                                  | _ :: _ => (st2, Err UnusedParametersError)
                                  | [] =>
                                      (st2, mapM (fun co => match aget (res ist) (snd co) with
                                                            | Some v => Ok (fst co, v)
                                                            | None => Err KeyError
                                                            end) (combine (outs f) (noorig nd)))
                                  end
                              end
                          | _ => (st1, Err ValueError)                 (* unique_leaf_node *)
                          end
                      end in
                    match rv with
                    | Err e => (st2, Err e)
                    | Ok vals =>
                        let rs := store_vals f vals (res st2) in
                        (st_res st2 rs, match aget rs o with Some v => Ok v | None => Err KeyError end)
                    end
                end
            end
        end
    end.

  Definition nfuel (p : npipe) : nat := S (psize p).

  (* Pipeline.run(o, kwargs=kw) / pipeline(o, **kw): value and the log of user-code calls *)
  Definition nrun (p : npipe) (o : str) (kw : kwargs) : result str * list call :=
    if negb (is_node (funcs p) o) then (Err KeyError, [])
    else if existsb (fun kv => str_eqb (fst kv) o) kw then (Err ValueError, [])
    else
      match flatten_scopes (funcs p) kw with
      | Err e => (Err e, [])
      | Ok fk =>
          let flat := flat_vals fk in
          let '(st, r) := nrun_out (nfuel p) p flat (init_state flat) o in
          match r with
          | Err e => (Err e, log st)
          | Ok v =>
              match unused_kw flat st with
              | _ :: _ => (Err UnusedParametersError, log st)
              | [] => (Ok v, log st)
              end
          end
      end.

  (* Pipeline.run since the repair "validate the keyword arguments of Pipeline.run before executing anything":
     Pipe.run_precheck on the (outer) functions and the flattened keywords comes first; `nrun` is the evaluation *)
  Definition nrun_checked (p : npipe) (o : str) (kw : kwargs) : result str * list call :=
    if negb (is_node (funcs p) o) || existsb (fun kv => str_eqb (fst kv) o) kw then nrun p o kw
    else
      match flatten_scopes (funcs p) kw with
      | Err _ => nrun p o kw
      | Ok fk =>
          match run_precheck (funcs p) o (flat_vals fk) with
          | Err e => (Err e, [])
          | Ok _ => nrun p o kw
          end
      end.

  (* ---------- the specification level: plain recursion, no memo, no log (cf. Pipe.eval) ---------- *)
  Fixpoint neval (fuel : nat) (p : npipe) (kw : alist) (o : str) {struct fuel} : result str :=
    match fuel with
    | O => Err RuntimeError
    | S n =>
        match nproducer p o with
        | None => Err KeyError
        | Some nd =>
            let f := nf nd in
            do args <- args_with (neval n p kw) (funcs p) kw f;
            match ninner nd with
            | None => do r <- body (fname f) args; Ok (if multi f then pick (orig_out nd o) r else r)
            | Some inner => neval n inner args (orig_out nd o)
            end
        end
    end.
End WithBody.

(* ---------- renaming ---------- *)
Definition app_ren (r : alist) (n : str) : str := match aget r n with Some m => m | None => n end.
Definition ren_keys (r : alist) (d : alist) : alist := map (fun kv => (app_ren r (fst kv), snd kv)) d.
Definition ren_func (r : alist) (f : pfunc) : pfunc :=
  mkf (fname f) (map (app_ren r) (outs f)) (map (fun co => (app_ren r (fst co), snd co)) (params f))
      (ren_keys r (dflt f)) (ren_keys r (bound f)) (cached f).
Definition ren_node (r : alist) (nd : node) : node := Node (ren_func r (nf nd)) (noorig nd) (ninner nd).
Definition rename (r : alist) (p : npipe) : npipe := map (ren_node r) p.
Definition ren_kw (r : alist) (kw : alist) : alist := ren_keys r kw.

Definition fnames_of (f : pfunc) : list str := pnames f ++ outs f.
Definition all_names (p : pipeline) : list str := dedup (flat_map fnames_of p).

(* _validate_identifier: every dot-separated part is an identifier *)
Definition valid_dotted (n : str) : bool := forallb is_ident (split_char dot n).

(* validate_scopes(functions, new_scope) *)
Definition scopes_ok (p : pipeline) (new_scope : option str) : bool :=
  let all_scopes := flat_map param_scopes p ++ match new_scope with Some x => [x] | None => [] end in
  let all_names := flat_map fnames_of p in
  negb (existsb (fun x => mem_str x all_names) all_scopes).

(* validate_consistent_defaults *)
Definition defaults_ok (p : pipeline) : bool := consistent_defaults p.

(* Pipeline._validate (no MapSpecs, no type annotations) + the acyclicity that _autogen_mapspec_axes ->
   topological_generations enforces (networkx raises NetworkXUnfeasible: OtherError) *)
Definition validate (p : pipeline) : result unit :=
  if negb (scopes_ok p None) then Err ValueError
  else if negb (defaults_ok p) then Err ValueError
  else if negb (acyclicb (fgraph p)) then Err OtherError
  else Ok tt.

(* the renaming is one-to-one on the names of every function it touches and on the pipeline's names: the
   modelled domain of update_renames / update_scope (what the property calls "the stated renaming") *)
Definition injective_on (r : alist) (names : list str) : bool := nodup_strb (map (app_ren r) names).

(* Pipeline.update_renames(renames, update_from="current"): per function the applicable part is applied;
   keys that apply to no function -> ValueError (after the functions were updated); _validate *)
Definition update_renames (r : alist) (p : npipe) : result npipe :=
  if negb (forallb (fun kv => valid_dotted (fst kv) && valid_dotted (snd kv)) r) then Err ValueError
  else
    let p' := rename r p in
    if negb (forallb (fun kv => mem_str (fst kv) (flat_map fnames_of (funcs p))) r) then Err ValueError
    else do _ <- validate (funcs p'); Ok p'.

(* ---------- scopes ---------- *)
Fixpoint starts_with (pre x : str) : bool :=
  match pre, x with
  | [], _ => true
  | a :: pre', b :: x' => Ascii.eqb a b && starts_with pre' x'
  | _ :: _, [] => false
  end.
(* _prepend_name_with_scope *)
Definition scope_name (sc : option str) (n : str) : str :=
  match sc with
  | None => match split_first dot n with Some (_, r) => r | None => n end
  | Some x =>
      if starts_with (x ++ [dot]) n then n
      else x ++ dot :: match split_first dot n with Some (_, r) => r | None => n end
  end.
(* PipeFunc.unscoped_parameters *)
Definition unscoped (n : str) : str := match split_first dot n with Some (_, r) => r | None => n end.

(* selection arguments of update_scope: None = "*", Some l = the given set (Some [] also models None) *)
Definition scope_targets (p : pipeline) (isel osel : option (list str)) (excl : list str) : list str :=
  let all_in := root_arg_names p in
  let all_out := all_outputs p in
  let i := match isel with None => all_in | Some l => inter_str all_in l end in
  let o := match osel with None => all_out | Some l => inter_str all_out l end in
  diff_str (dedup (i ++ o)) excl.

Definition update_scope (sc : option str) (isel osel : option (list str)) (excl : list str) (p : npipe)
  : result npipe :=
  let fp := funcs p in
  if negb (scopes_ok fp sc) then Err ValueError
  else
    let targets := scope_targets fp isel osel excl in
    (* PipeFunc.update_scope of every function with a non-empty selection: the scope may not equal one of
       its unscoped parameter names or output names *)
    if existsb (fun f => negb (match inter_str (fnames_of f) targets with [] => true | _ => false end)
                         && match sc with
                            | Some x => mem_str x (map unscoped (pnames f)) || mem_str x (outs f)
                            | None => false
                            end) fp
    then Err ValueError
    else
      let r := map (fun n => (n, scope_name sc n)) targets in
      if negb (forallb (fun kv => valid_dotted (snd kv)) r) then Err ValueError
      else
        let p' := rename r p in
        do _ <- validate (funcs p'); Ok p'.

(* ---------- add / join ---------- *)
(* Pipeline.add of an already built node: unique output names, _validate *)
Definition add_node (p : npipe) (nd : node) : result npipe :=
  if existsb (fun o => mem_str o (all_outputs (funcs p))) (outs (nf nd)) then Err ValueError
  else
    let p' := p ++ [nd] in
    do _ <- validate (funcs p'); Ok p'.
Definition add_all (p q : npipe) : result npipe :=
  fold_left (fun acc nd => do a <- acc; add_node a nd) q (Ok p).
(* Pipeline.join / | : a new Pipeline from copies of all functions *)
Definition join (p q : npipe) : result npipe := add_all [] (p ++ q).

(* ---------- split_disconnected ---------- *)
(* two functions are adjacent in the undirected pipeline graph when one consumes (unbound) an output of the
   other, or when they share an (unbound) root argument *)
Definition unbound_params (f : pfunc) : list str := filter (fun c => negb (ahas (bound f) c)) (pnames f).
Definition adjacent (p : pipeline) (f g : pfunc) : bool :=
  existsb (fun c => mem_str c (outs g)) (unbound_params f)
  || existsb (fun c => mem_str c (outs f)) (unbound_params g)
  || existsb (fun c => negb (is_output p c) && mem_str c (unbound_params g)) (unbound_params f).
Definition grow (p : pipeline) (comp : list str) : list str :=
  fold_left (fun acc f => if mem_str (fid f) acc then acc
                          else if existsb (fun g => mem_str (fid g) acc && adjacent p f g) p
                               then acc ++ [fid f] else acc) p comp.
Fixpoint grow_n (fuel : nat) (p : pipeline) (comp : list str) : list str :=
  match fuel with O => comp | S n => grow_n n p (grow p comp) end.
Definition component (p : pipeline) (f : pfunc) : list str := grow_n (length p) p [fid f].
(* the components in order of their first function *)
Definition components (p : pipeline) : list (list str) :=
  fold_left (fun acc f => if existsb (mem_str (fid f)) acc then acc else acc ++ [component p f]) p [].
(* split_disconnected, followed by the choice of the component that holds output o *)
Definition split (o : str) (p : npipe) : result npipe :=
  let fp := funcs p in
  match components fp with
  | [] | [_] => Err ValueError                   (* fully connected (or empty: the comprehension is empty) *)
  | cs =>
      match producer fp o with
      | None => Err KeyError
      | Some f =>
          match find (mem_str (fid f)) cs with
          | None => Err KeyError
          | Some c => add_all [] (filter (fun nd => mem_str (nid nd) c) p)
          end
      end
  end.

(* ---------- nest_funcs / NestedPipeFunc ---------- *)
Definition join_with (sep : str) (l : list str) : str := StrUtil.join sep l.
Definition nested_name (oo : list str) : str := s "NestedPipeFunc_" ++ join_with (s "_") oo.

(* NestedPipeFunc(pipefuncs, output_name=new_out) *)
Definition mk_nested (fs : npipe) (new_out : option (list str)) : result node :=
  match fs with
  | [] | [_] => Err ValueError
  | _ =>
      do inner <- add_all [] fs;                                   (* Pipeline(functions) *)
      let fi := funcs inner in
      match leaf_funcs fi with
      | [] | [_] =>
          let all_out := sort_strs (dedup (all_outputs fi)) in
          let oo := match new_out with Some l => l | None => all_out end in
          if negb (subset_str oo all_out) then Err ValueError
          else
            (* _all_inputs (unbound parameters) - _all_outputs, sorted *)
            let ps := sort_strs (diff_str (dedup (flat_map unbound_params fi)) all_out) in
            let d := pdefaults fi in
            let dfl := flat_map (fun n => match aget (rev d) n with Some v => [(n, v)] | None => [] end) ps in
            Ok (Node (mkf (nested_name oo) oo (map (fun n => (n, n)) ps) dfl [] (existsb cached fi))
                     oo (Some inner))
      | _ => Err ValueError
      end
  end.

(* Pipeline.nest_funcs(names, new_out): names = one output name per function to nest *)
Definition nest (names : list str) (new_out : option (list str)) (p : npipe) : result npipe :=
  do fs <- mapM (fun o => match nproducer p o with Some nd => Ok nd | None => Err KeyError end) names;
  if negb (nodup_strb (map nid fs)) then Err ValueError          (* second drop of the same function *)
  else
    let rest := filter (fun nd => negb (mem_str (nid nd) (map nid fs))) p in
    do nd <- mk_nested fs new_out;
    add_node rest nd.

(* ---------- simplified_pipeline ---------- *)
Section Simplify.
  Variable p : pipeline.
  Variable ra : list (str * list str).          (* all_root_args: fid -> root_args *)
  Definition root_args_of (f : pfunc) : list str :=
    match find (fun kv => str_eqb (fst kv) (fid f)) ra with Some kv => snd kv | None => [] end.
  (* graph.predecessors(head) that are PipeFuncs, in edge insertion order *)
  Definition fpred_funcs (f : pfunc) : list pfunc :=
    flat_map (fun n => match node_func p n with Some g => [g] | None => [] end) (dedup (fpreds p f)).

  (* combinable_nodes: an insertion-ordered dict  fid -> list of fids *)
  Definition cdict := list (str * list str).
  Fixpoint cd_set (d : cdict) (k : str) (v : list str) : cdict :=
    match d with
    | [] => [(k, v)]
    | (k', v') :: t => if str_eqb k k' then (k', v) :: t else (k', v') :: cd_set t k v
    end.
  Fixpoint cd_get (d : cdict) (k : str) : option (list str) :=
    match d with [] => None | (k', v) :: t => if str_eqb k k' then Some v else cd_get t k end.

  (* _identify_combinable_nodes._recurse *)
  Fixpoint recurse (fuel : nat) (conservative : bool) (head : pfunc) (d : cdict) {struct fuel} : cdict :=
    match fuel with
    | O => d
    | S n =>
        let preds := fpred_funcs head in
        let d' := fold_left (fun acc g => recurse n conservative g acc) preds d in
        let same := filter (fun g => list_eqb str_eqb (root_args_of g) (root_args_of head)) preds in
        match same with
        | [] => d'
        | _ => if negb conservative || (length preds =? length same)
               then cd_set d' (fid head) (dedup (map fid same)) else d'
        end
    end.

  (* _combine_nodes: OrderedDict rotation *)
  Definition combine_step (d : cdict) : cdict :=
    match d with
    | [] => []
    | (node, deps) :: rest =>
        if existsb (fun kv => mem_str node (snd kv)) rest
        then map (fun kv => if mem_str node (snd kv) then (fst kv, union_str (snd kv) deps) else kv) rest
        else rest ++ [(node, deps)]
    end.
  Fixpoint iter {A} (n : nat) (f : A -> A) (x : A) : A := match n with O => x | S k => iter k f (f x) end.
  Definition combine_nodes (d : cdict) : cdict := iter (length d) combine_step d.

  (* sort key of a function: at_least_tuple(output_name) (repaired _sort) *)
  Definition outs_of_fid (n : str) : list str := match node_func p n with Some f => outs f | None => [n] end.
  Definition sort_fids (l : list str) : list str :=
    sort (fun a b => strs_ltb (outs_of_fid a) (outs_of_fid b)) l.
End Simplify.

(* _output_name(i, nested_funcs, all_inputs) *)
Definition simp_output_name (p : pipeline) (groups : list (list pfunc)) (all_inputs : list str) (i : nat)
  : list str :=
  match nth_error groups i with
  | None => []
  | Some grp =>
      let current := flat_map outs grp in
      let others := flat_map (fun jg => if fst jg =? i then [] else flat_map pnames (snd jg))
                             (combine (seq 0 (length groups)) groups) ++ all_inputs in
      let for_others := filter (fun o => mem_str o others) current in
      let base_outs := match grp with b :: _ => outs b | [] => [] end in
      sort_strs (dedup (base_outs ++ for_others))
  end.

(* the grouping: (ids of the functions left alone, [(ids of a group, base first; its output names)]) *)
Definition simplify_plan (o : str) (conservative : bool) (p : npipe)
  : result (list str * list (list str * list str)) :=
  let fp := funcs p in
  match (if is_node fp o then producer fp o else None) with
  | None => Err KeyError                                              (* node_mapping[output_name] / assert *)
  | Some func =>
      do ra <- mapM (fun f => do l <- root_args fp (fid f); Ok (fid f, l)) fp;     (* self.all_root_args *)
      let d := recurse fp ra (S (length fp)) conservative func [] in
      match d with
      | [] => Err ValueError                                          (* No combinable nodes found *)
      | _ =>
          let c := combine_nodes d in
          let keys := sort_fids fp (map fst c) in
          let sorted := map (fun k => (k, sort_fids fp (match cd_get c k with Some v => v | None => [] end))) keys in
          let flat := flat_map (fun kv => fst kv :: snd kv) sorted in
          let rest := filter (fun nd => negb (mem_str (nid nd) flat)) p in
          let all_inputs := flat_map pnames (funcs rest) in
          let groups_ids := map (fun kv => fst kv :: snd kv) sorted in
          let groups_f := map (fun g => flat_map (fun k => match node_func fp k with Some f => [f] | None => [] end) g)
                              groups_ids in
          Ok (map nid rest,
              map (fun ig => (snd ig, simp_output_name fp groups_f all_inputs (fst ig)))
                  (combine (seq 0 (length groups_ids)) groups_ids))
      end
  end.

Definition simplify (o : str) (conservative : bool) (p : npipe) : result npipe :=
  do plan <- simplify_plan o conservative p;
  let find_nd (k : str) := match find (fun nd => str_eqb (nid nd) k) p with Some nd => [nd] | None => [] end in
  do nested <- mapM (fun g => mk_nested (flat_map find_nd (fst g)) (Some (snd g))) (snd plan);
  add_all [] (flat_map find_nd (fst plan) ++ nested).

(* ---------- the rewrites as a datatype ---------- *)
Inductive op :=
| OCopy                                                     (* Pipeline.copy() *)
| OPickle                                                   (* cloudpickle.loads(cloudpickle.dumps(p)) *)
| OJoin (q : pipeline) (use_or : bool)                      (* p.join(q) / p | q *)
| ORename (r : alist)                                       (* p.update_renames(r) *)
| OScope (sc : option str) (isel osel : option (list str)) (excl : list str)   (* p.update_scope(..) *)
| ONest (names : list str) (new_out : option (list str))    (* p.nest_funcs(names, new_out) *)
| OSimplify (o : str) (conservative : bool)                 (* p.simplified_pipeline(o, ..) *)
| OSplit (o : str).                                         (* the part of p.split_disconnected() holding o *)

(* Pipeline(copies of the functions): what copy / pickle / join rebuild.  The functions were validated
   when the original was built, so re-adding them succeeds; join validates the union. *)
Definition apply_op (x : op) (p : npipe) : result npipe :=
  match x with
  | OCopy => Ok p
  | OPickle => Ok p
  | OJoin q _ => join p (lift q)
  | ORename r => update_renames r p
  | OScope sc i o e => update_scope sc i o e p
  | ONest names new_out => nest names new_out p
  | OSimplify o c => simplify o c p
  | OSplit o => split o p
  end.
Definition apply_ops (ops : list op) (p : npipe) : result npipe :=
  fold_left (fun acc x => do a <- acc; apply_op x a) ops (Ok p).
