(* Model/RewriteMap.v - rewrites of MapSpec pipelines (C10, map side).

   WHAT IS MODELLED
     pipefunc/_pipeline/_mapspec.py add_mapspec_axis (recursive, with its shared `dims` dictionary and the
       in-place update of the function list), _axes_from_dims;  Pipeline.add_mapspec_axis          -> add_axis
     PipeFunc.update_renames on a function with a MapSpec (MapSpec.rename), update_scope           -> ren_mfunc
   A map pipeline is a `list mfunc` (Model/MapRun.v) in a topological order.  The user code of a renamed
   function still sees its ORIGINAL parameter / output names: `body_via` looks the original function up by
   name and hands it the arguments under the original names.  Definitions only. *)
From Verif Require Import Base.Prelude Base.StrUtil Base.Index Base.NdArr Model.MapSpec Model.MapRun.

Definition mpipe := list mfunc.
Definition dims_t := list (str * nat).

(* ---------- renaming ---------- *)
Definition mren := list (str * str).
Definition mapp (r : mren) (n : str) : str := match dict_get r n with Some m => m | None => n end.
Definition ren_aspec (r : mren) (a : aspec) : aspec := {| aname := mapp r (aname a); axes := axes a |}.
Definition ren_spec (r : mren) (m : mapspec) : mapspec :=
  {| ins := map (ren_aspec r) (ins m); outs := map (ren_aspec r) (outs m) |}.
Definition ren_env {V} (r : mren) (e : list (str * V)) : list (str * V) := map (fun kv => (mapp r (fst kv), snd kv)) e.
Definition ren_mfunc (r : mren) (f : mfunc) : mfunc :=
  {| fname := fname f; fouts := map (mapp r) (fouts f); fparams := map (mapp r) (fparams f);
     fbound := ren_env r (fbound f); fdefaults := ren_env r (fdefaults f);
     fspec := option_map (ren_spec r) (fspec f); fint := fint f; fret := fret f |}.
Definition mrename (r : mren) (p : mpipe) : mpipe := map (ren_mfunc r) p.

(* the oracle of a rewritten pipeline: the user function `fname f` of the ORIGINAL pipeline p0, called with
   the arguments under its original parameter names (positional correspondence: renames keep the order) *)
Definition body_via (body : mfunc -> env -> result (list val)) (p0 : mpipe) (f : mfunc) (kw : env)
  : result (list val) :=
  match find (fun g => str_eqb (fname g) (fname f)) p0 with
  | Some f0 =>
      if length (fparams f0) =? length kw then body f0 (combine (fparams f0) (map snd kw)) else Err TypeError
  | None => Err KeyError
  end.

(* ---------- add_mapspec_axis ---------- *)
(* _axes_from_dims *)
Definition axes_from_dims (p : str) (dims : dims_t) (axis : str) : list (option str) :=
  repeat None (match dict_get dims p with Some n => n - 1 | None => 0 end) ++ [Some axis].

Definition has_axis (axis : str) (a : aspec) : bool := existsb (axis_eqb (Some axis)) (axes a).
Definition set_spec (f : mfunc) (ms : mapspec) : mfunc :=
  {| fname := fname f; fouts := fouts f; fparams := fparams f; fbound := fbound f; fdefaults := fdefaults f;
     fspec := Some ms; fint := fint f; fret := fret f |}.

(* the new MapSpec of one function that takes p (unbound) *)
Definition new_spec (f : mfunc) (p : str) (dims : dims_t) (axis : str) : result mapspec :=
  match fspec f with
  | None =>
      do i <- mk_aspec p (axes_from_dims p dims axis);
      do o <- mapM (fun n => mk_aspec n [Some axis]) (fouts f);
      mk_mapspec [i] o
  | Some ms =>
      do i <- (if mem_str p (map aname (ins ms))
               then mapM (fun a => if str_eqb (aname a) p && negb (has_axis axis a)
                                   then aspec_add_axes a [Some axis] else Ok a) (ins ms)
               else do a <- mk_aspec p (axes_from_dims p dims axis); Ok (ins ms ++ [a]));
      do o <- mapM (fun a => if negb (has_axis axis a) then aspec_add_axes a [Some axis] else Ok a) (outs ms);
      mk_mapspec i o
  end.

Fixpoint set_nth {A} (l : list A) (i : nat) (x : A) : list A :=
  match l, i with
  | [], _ => []
  | _ :: t, O => x :: t
  | y :: t, S k => y :: set_nth t k x
  end.

(* add_mapspec_axis(p, dims, axis, functions): the loop runs over the positions of the (in place updated) list;
   after a function got its new spec the recursion follows each of its outputs at once *)
Fixpoint add_axis_go (fuel : nat) (p : str) (axis : str) (st : mpipe * dims_t) {struct fuel}
  : result (mpipe * dims_t) :=
  match fuel with
  | O => Err RuntimeError
  | S n =>
      fold_left
        (fun acc i =>
           do st1 <- acc;
           match nth_error (fst st1) i with
           | None => Ok st1
           | Some f =>
               if negb (mem_str p (fparams f)) || is_ok (match dict_get (fbound f) p with
                                                         | Some v => Ok v | None => Err KeyError end)
               then Ok st1
               else
                 do ms <- new_spec f p (snd st1) axis;
                 fold_left (fun acc2 o =>
                              do st2 <- acc2;
                              add_axis_go n (aname o) axis (fst st2, dict_set (snd st2) (aname o) (length (axes o))))
                           (outs ms) (Ok (set_nth (fst st1) i (set_spec f ms), snd st1))
           end)
        (seq 0 (length (fst st))) (Ok st)
  end.

(* validate_consistent_axes: every array is named with one rank and, position by position, one axis name *)
Definition all_aspecs (p : mpipe) : list aspec :=
  flat_map (fun f => match fspec f with Some m => ins m ++ outs m | None => [] end) p.
Fixpoint axes_agree (a b : list (option str)) : bool :=
  match a, b with
  | [], [] => true
  | x :: a', y :: b' =>
      (match x, y with Some u, Some v => str_eqb u v | _, _ => true end) && axes_agree a' b'
  | _, _ => false
  end.
(* the running dict axes[i] of the Python loop: a later spec is compared with the names collected so far *)
Definition merge_axes (acc a : list (option str)) : list (option str) :=
  map (fun xy => match fst xy with Some u => Some u | None => snd xy end) (combine acc a).
Definition consistent_axes (p : mpipe) : bool :=
  let specs := all_aspecs p in
  forallb (fun a =>
             let same := filter (fun b => str_eqb (aname b) (aname a)) specs in
             forallb (fun b => length (axes b) =? length (axes a)) same
             && snd (fold_left (fun st b => (merge_axes (fst st) (axes b), snd st && axes_agree (fst st) (axes b)))
                               same (repeat None (length (axes a)), true))) specs.

(* Pipeline.add_mapspec_axis( *params, axis=axis) (repaired code): per parameter, `dims` starts with the rank the
   parameter has after the axis is added, taken from the MapSpecs that already mention it; _validate at the end *)
Definition init_dims (q : str) (axis : str) (p : mpipe) : dims_t :=
  let specs := filter (fun a => str_eqb (aname a) q)
                      (flat_map (fun f => match fspec f with Some m => ins m | None => [] end) p) in
  match specs with
  | [] => []
  | _ => [(q, fold_left Nat.max (map (fun a => length (axes a) + (if has_axis axis a then 0 else 1)) specs) 0)]
  end.
Definition add_axis (params : list str) (axis : str) (p : mpipe) : result mpipe :=
  do p' <- fold_left (fun acc q => do fs <- acc;
                                   do r <- add_axis_go (S (length fs)) q axis (fs, init_dims q axis fs);
                                   Ok (fst r))
                     params (Ok p);
  if consistent_axes p' then Ok p' else Err ValueError.

(* ---------- stacking / slicing along the new (last) axis ---------- *)
(* the n-th slice along the last axis *)
Fixpoint every_nth {A} (k n : nat) (i : nat) (l : list A) : list A :=
  match l with
  | [] => []
  | x :: t => (if (i mod k) =? n then [x] else []) ++ every_nth k n (S i) t
  end.
Definition slice_last (n : nat) (v : val) : option val :=
  match v with
  | VS _ => None
  | VA a =>
      match rev (shp a) with
      | [] => None
      | k :: rsh =>
          if k <=? n then None
          else
            let sh := rev rsh in
            let d := every_nth k n 0 (dat a) in
            match sh, d with
            | [], [x] => Some (VS x)
            | _, _ => Some (VA {| shp := sh; dat := d |})
            end
      end
  end.
(* stack values of equal shape along a new last axis *)
Definition val_shape_of (v : val) : list nat := match v with VS _ => [] | VA a => shp a end.
Definition val_data (v : val) : list str := match v with VS x => [x] | VA a => dat a end.
Definition stack_last (vs : list val) : option val :=
  match vs with
  | [] => None
  | v0 :: _ =>
      let sh := val_shape_of v0 in
      if forallb (fun v => list_eqb Nat.eqb (val_shape_of v) sh) vs then
        let cols := map val_data vs in
        let n := prod sh in
        Some (VA {| shp := sh ++ [length vs];
                    dat := flat_map (fun i => map (fun c => nth i c []) cols) (seq 0 n) |})
      else None
  end.
