(* Model of pipefunc/map/_run_info.py: RunInfo.dump / RunInfo.load as a codec between the RunInfo record and
   the JSON document written to <run_folder>/run_info.json  (_maybe_tuple_to_str, _maybe_str_to_tuple, asdict,
   tuple <-> list conversions).  The JSON text layout is not modelled: `json` is the value json.load returns
   (objects = Python dicts in insertion order).  Definitions only (proofs are in Proofs/RunInfoFacts.v). *)
From Verif Require Import Base.Prelude Base.StrUtil Model.MapSpec.

(* ---------- JSON values ---------- *)
Inductive json :=
| JNull | JBool (b : bool) | JInt (z : Z) | JStr (x : str)
| JArr (l : list json) | JObj (kv : list (str * json)).

(* ---------- the RunInfo record (the part that goes through JSON) ---------- *)
(* OUTPUT_TYPE: an output name is a str or a tuple of names *)
Inductive okey := KName (n : str) | KTup (l : list str).
(* UserShapeDict values: int | tuple[int, ...] *)
Inductive ishape := IInt (n : nat) | ITup (l : list nat).
(* storage: str | dict[OUTPUT_TYPE, str]  (the dict may contain the empty-string default key) *)
Inductive storage_cfg := StUni (name : str) | StDict (d : list (okey * str)).

Record run_info := {
  ri_input_names : list str;                        (* keys of `inputs` (values live in inputs/*.cloudpickle) *)
  ri_all_output_names : list str;                   (* a set: represented strictly sorted *)
  ri_shapes : list (okey * list nat);
  ri_internal_shapes : option (list (str * ishape));
  ri_shape_masks : list (okey * list bool);
  ri_run_folder : str;                              (* str(Path): a normalised path *)
  ri_mapspecs : list str;                           (* mapspecs_as_strings *)
  ri_storage : storage_cfg;
  ri_version : str
}.

Definition okey_eqb (a b : okey) : bool :=
  match a, b with
  | KName x, KName y => str_eqb x y
  | KTup x, KTup y => list_eqb str_eqb x y
  | _, _ => false
  end.

(* dict operations with OUTPUT_TYPE keys: d[k] = v keeps the position of an existing key *)
Fixpoint odict_set {V} (d : list (okey * V)) (k : okey) (v : V) : list (okey * V) :=
  match d with
  | [] => [(k, v)]
  | (k', v') :: t => if okey_eqb k k' then (k', v) :: t else (k', v') :: odict_set t k v
  end.
Fixpoint odict_get {V} (d : list (okey * V)) (k : okey) : option V :=
  match d with
  | [] => None
  | (k', v') :: t => if okey_eqb k k' then Some v' else odict_get t k
  end.

(* _maybe_tuple_to_str : ",".join(x) if isinstance(x, tuple) else x *)
Definition tuple_to_str (k : okey) : str :=
  match k with KName n => n | KTup l => join (s ",") l end.
(* _maybe_str_to_tuple : tuple(x.split(",")) if "," in x else x *)
Definition str_to_tuple (x : str) : okey :=
  if mem_char ","%char x then KTup (split_char ","%char x) else KName x.

(* at_least_tuple *)
Definition at_least_tuple (k : okey) : list str := match k with KName n => [n] | KTup l => l end.

(* ---------- sorted() / set() on ASCII strings ---------- *)
Fixpoint str_ltb (a b : str) : bool :=
  match a, b with
  | [], [] => false
  | [], _ :: _ => true
  | _ :: _, [] => false
  | x :: a', y :: b' =>
      if code x <? code y then true else if code y <? code x then false else str_ltb a' b'
  end.
Fixpoint insert_str (x : str) (l : list str) : list str :=
  match l with
  | [] => [x]
  | y :: t => if str_ltb x y then x :: l else if str_eqb x y then l else y :: insert_str x t
  end.
(* sorted(set(l)) : ascending, duplicates removed *)
Definition sort_set (l : list str) : list str := fold_right insert_str [] l.

(* ---------- file names inside the run folder ---------- *)
Definition input_path_str (folder name : str) : str := folder ++ s "/inputs/" ++ name ++ s ".cloudpickle".
Definition defaults_path_str (folder : str) : str := folder ++ s "/defaults/defaults.cloudpickle".

(* ---------- RunInfo.dump : asdict + key joining; tuples become JSON arrays ---------- *)
Definition jnat (n : nat) : json := JInt (Z.of_nat n).
Definition enc_shape (sh : list nat) : json := JArr (map jnat sh).
Definition enc_mask (m : list bool) : json := JArr (map JBool m).
Definition enc_ishape (i : ishape) : json :=
  match i with IInt n => jnat n | ITup l => JArr (map jnat l) end.

(* {_maybe_tuple_to_str(k): v for k, v in d.items()} : a dict comprehension (a repeated key keeps its first
   position and takes the last value) *)
Definition enc_keys {V} (f : V -> json) (d : list (okey * V)) : list (str * json) :=
  fold_left (fun acc kv => dict_set acc (tuple_to_str (fst kv)) (f (snd kv))) d [].

Definition encode (ri : run_info) : json :=
  JObj [
    (s "all_output_names", JArr (map JStr (sort_set (ri_all_output_names ri))));
    (s "shapes", JObj (enc_keys enc_shape (ri_shapes ri)));
    (s "internal_shapes", match ri_internal_shapes ri with
                          | None => JNull
                          | Some d => JObj (map (fun kv => (fst kv, enc_ishape (snd kv))) d)
                          end);
    (s "shape_masks", JObj (enc_keys enc_mask (ri_shape_masks ri)));
    (s "run_folder", JStr (ri_run_folder ri));
    (s "mapspecs_as_strings", JArr (map JStr (ri_mapspecs ri)));
    (s "storage", match ri_storage ri with
                  | StUni n => JStr n
                  | StDict d => JObj (enc_keys JStr d)
                  end);
    (s "pipefunc_version", JStr (ri_version ri));
    (s "input_paths", JObj (map (fun n => (n, JStr (input_path_str (ri_run_folder ri) n))) (ri_input_names ri)));
    (s "defaults_path", JStr (defaults_path_str (ri_run_folder ri)))
  ].

(* ---------- RunInfo.load ---------- *)
(* Where Python would accept a document outside the schema without raising (e.g. tuple("abc"), a shape entry
   that is not an int) the typed record cannot represent the result: the model answers
   Err NotImplementedError ("outside the modelled schema"), never a normal-looking value. *)
Definition outside_schema {A} : result A := Err NotImplementedError.

Definition jget (o : list (str * json)) (k : str) : result json :=
  match dict_get o k with Some v => Ok v | None => Err KeyError end.
(* x.items() *)
Definition jitems (j : json) : result (list (str * json)) :=
  match j with JObj o => Ok o | _ => Err AttributeError end.
(* Path(x) *)
Definition jpath (j : json) : result str :=
  match j with JStr x => Ok x | _ => Err TypeError end.
Definition dec_nat (j : json) : result nat :=
  match j with JInt z => if (z <? 0)%Z then outside_schema else Ok (Z.to_nat z) | _ => outside_schema end.
Definition dec_bool (j : json) : result bool :=
  match j with JBool b => Ok b | _ => outside_schema end.
Definition dec_str (j : json) : result str :=
  match j with JStr x => Ok x | _ => outside_schema end.
(* tuple(v) *)
Definition jtuple (j : json) : result (list json) :=
  match j with
  | JArr l => Ok l
  | JNull | JBool _ | JInt _ => Err TypeError       (* not iterable *)
  | JStr _ | JObj _ => outside_schema               (* iterable: a tuple of characters / of keys *)
  end.

(* {_maybe_str_to_tuple(k): conv(v) for k, v in d.items()} *)
Definition dec_keys {V} (conv : json -> result V) (o : list (str * json)) : result (list (okey * V)) :=
  fold_left (fun acc kv => do d <- acc; do v <- conv (snd kv); Ok (odict_set d (str_to_tuple (fst kv)) v)) o (Ok []).

Definition dec_shape (j : json) : result (list nat) := do l <- jtuple j; mapM dec_nat l.
Definition dec_mask (j : json) : result (list bool) := do l <- jtuple j; mapM dec_bool l.
(* tuple(v) if isinstance(v, list) else v *)
Definition dec_ishape (j : json) : result ishape :=
  match j with
  | JArr l => do t <- mapM dec_nat l; Ok (ITup t)
  | JInt _ => do n <- dec_nat j; Ok (IInt n)
  | _ => outside_schema
  end.

(* the part of RunInfo.load before any file other than run_info.json is opened *)
Record pre_info := {
  p_input_paths : list (str * str);
  p_outputs : list str;
  p_storage : storage_cfg;
  p_shapes : list (okey * list nat);
  p_masks : list (okey * list bool);
  p_internal : option (list (str * ishape));
  p_folder : str
}.

Definition decode_head (o : list (str * json)) : result pre_info :=
  (* data["input_paths"] = {k: Path(v) for ...} *)
  do ip <- jget o (s "input_paths");
  do ipo <- jitems ip;
  do paths <- mapM (fun kv => do p <- jpath (snd kv); Ok (fst kv, p)) ipo;
  (* data["all_output_names"] = set(...) *)
  do aon <- jget o (s "all_output_names");
  do names <- match aon with
              | JArr l => do l' <- mapM (fun j => match j with
                                                   | JStr x => Ok x
                                                   | JArr _ | JObj _ => Err TypeError   (* unhashable *)
                                                   | _ => outside_schema end) l;
                          Ok (sort_set l')
              | JNull | JBool _ | JInt _ => Err TypeError
              | JStr _ | JObj _ => outside_schema
              end;
  (* storage *)
  do st <- jget o (s "storage");
  do storage <- match st with
                | JObj d => do d' <- dec_keys dec_str d; Ok (StDict d')
                | JStr x => Ok (StUni x)
                | _ => outside_schema
                end;
  (* shapes, shape_masks *)
  do sh <- jget o (s "shapes");
  do sho <- jitems sh;
  do shapes <- dec_keys dec_shape sho;
  do mk <- jget o (s "shape_masks");
  do mko <- jitems mk;
  do masks <- dec_keys dec_mask mko;
  (* internal_shapes *)
  do ish <- jget o (s "internal_shapes");
  do internal <- match ish with
                 | JNull => Ok None
                 | _ => do io <- jitems ish;
                        do d <- mapM (fun kv => do v <- dec_ishape (snd kv); Ok (fst kv, v)) io;
                        Ok (Some d)
                 end;
  (* run_folder *)
  do rf <- jget o (s "run_folder");
  do folder <- jpath rf;
  Ok {| p_input_paths := paths; p_outputs := names; p_storage := storage; p_shapes := shapes;
        p_masks := masks; p_internal := internal; p_folder := folder |}.

(* data.pop("defaults_path") *)
Definition decode_defaults_path (o : list (str * json)) : result str :=
  do dp <- jget o (s "defaults_path"); jpath dp.

(* cls( **data ): unexpected keyword / missing argument -> TypeError; pipefunc_version has a default *)
Definition field_names : list str :=
  [s "inputs"; s "defaults"; s "all_output_names"; s "shapes"; s "internal_shapes"; s "shape_masks";
   s "run_folder"; s "mapspecs_as_strings"; s "storage"; s "pipefunc_version"].

Definition decode_tail (cur_version : str) (o : list (str * json)) (p : pre_info) : result run_info :=
  let rest := filter (fun kv => negb (str_eqb (fst kv) (s "input_paths") || str_eqb (fst kv) (s "defaults_path"))) o in
  if negb (forallb (fun kv => mem_str (fst kv) field_names) rest) then Err TypeError else
  match dict_get o (s "mapspecs_as_strings") with
  | None => Err TypeError
  | Some ms =>
      do specs <- match ms with JArr l => mapM dec_str l | _ => outside_schema end;
      do version <- match dict_get o (s "pipefunc_version") with
                    | None => Ok cur_version
                    | Some v => dec_str v
                    end;
      Ok {| ri_input_names := map fst (p_input_paths p);
            ri_all_output_names := p_outputs p;
            ri_shapes := p_shapes p;
            ri_internal_shapes := p_internal p;
            ri_shape_masks := p_masks p;
            ri_run_folder := p_folder p;
            ri_mapspecs := specs;
            ri_storage := p_storage p;
            ri_version := version |}
  end.

(* json.load returned a non-dict: data["input_paths"] raises TypeError (list/str/int/None are not subscriptable by str) *)
Definition jtop (j : json) : result (list (str * json)) :=
  match j with JObj o => Ok o | _ => Err TypeError end.

(* RunInfo.load restricted to the JSON document (the loads of inputs/defaults are in Model/FSStore.v) *)
Definition decode (cur_version : str) (j : json) : result run_info :=
  do o <- jtop j;
  do p <- decode_head o;
  do _ <- decode_defaults_path o;
  decode_tail cur_version o p.

(* ---------- storage_class ---------- *)
Inductive skind := FileArrayK | DictK | SharedDictK.
(* get_storage_class: registry lookup (zarr backends are not importable in this environment) *)
Definition storage_kind (name : str) : result skind :=
  if str_eqb name (s "file_array") then Ok FileArrayK
  else if str_eqb name (s "dict") then Ok DictK
  else if str_eqb name (s "shared_memory_dict") then Ok SharedDictK
  else Err ValueError.

(* RunInfo.storage_class *)
Definition storage_class (st : storage_cfg) (k : okey) : result skind :=
  match st with
  | StUni n => storage_kind n
  | StDict d =>
      let default := odict_get d (KName []) in
      match (match odict_get d k with Some x => Some x | None => default end) with
      | None => Err ValueError
      | Some n => storage_kind n
      end
  end.

(* ---------- well-formedness (what construction-time validation guarantees) ---------- *)
Definition no_comma (x : str) : bool := negb (mem_char ","%char x).
Definition wf_okey (k : okey) : bool :=
  match k with
  | KName n => no_comma n
  | KTup l => (2 <=? length l) && forallb no_comma l
  end.
Fixpoint nodup_str_list (l : list str) : bool :=
  match l with [] => true | x :: t => negb (mem_str x t) && nodup_str_list t end.
Fixpoint sorted_strict (l : list str) : bool :=
  match l with
  | [] => true
  | x :: t => match t with [] => true | y :: _ => str_ltb x y && sorted_strict t end
  end.
Definition wf_keys {V} (d : list (okey * V)) : bool :=
  forallb (fun kv => wf_okey (fst kv)) d && nodup_str_list (map (fun kv => tuple_to_str (fst kv)) d).

Definition wf_run_info (ri : run_info) : bool :=
  sorted_strict (ri_all_output_names ri)
  && wf_keys (ri_shapes ri) && wf_keys (ri_shape_masks ri)
  && match ri_storage ri with StUni _ => true | StDict d => wf_keys d end
  && match ri_internal_shapes ri with None => true | Some d => nodup_str_list (map fst d) end
  && nodup_str_list (ri_input_names ri).
