(* C14 - shared=True: small-step interleaving semantics of N clients operating on ONE LRUCache / HybridCache.

   With shared=True the cache's dict / list / lock live in a manager process and every method call on them
   (a "proxy call") is executed atomically there; the lock is a mutual-exclusion lock.  An operation of the
   cache (put, get, in, len, clear) is therefore a little program of atomic steps:
       Call upd k   one proxy call: the managed objects change by `upd`, the caller continues with `k d`
                    where d is the content of the managed objects at the moment of the call (what it returned);
       Acquire k    lock.acquire()  (blocks while another client holds the lock);
       Release k    lock.release()  (the `with self._cache_lock:` block is left, normally or by an exception);
       Ret r        the operation returns r / raises.
   `lru_code` and `hyb_code` spell out the operations of the REPAIRED code call by call (definitions only;
   proofs: Proofs/SharedFacts.v).  A global state is the content of the managed objects, the lock owner and, per
   client, the running operation, the operations still to issue and the results obtained so far; `cstep i` is
   one atomic step of client i.  Clients are indexed by nat (any number of them). *)
From Verif Require Import Base.Prelude Model.Caches.

Section Steps.
  Variables S O : Type.

  Inductive prog :=
  | Ret (r : out)
  | Call (upd : S -> S) (k : S -> prog)
  | Acquire (k : prog)
  | Release (k : prog).

  (* the program run to completion without interruption (the lock plays no role then) *)
  Fixpoint exec (p : prog) (d : S) : S * out :=
    match p with
    | Ret r => (d, r)
    | Call upd k => exec (k d) (upd d)
    | Acquire k => exec k d
    | Release k => exec k d
    end.

  Variable code : O -> prog.

  Record client := mkClient {
    c_cur : option (O * prog);       (* the operation in progress and what is left of it *)
    c_todo : list O;                 (* operations still to issue *)
    c_done : list (O * out)          (* completed operations with their results, most recent first *)
  }.
  Record gstate := mkG { g_data : S; g_lock : option nat; g_cl : nat -> client }.

  Definition set_cl (g : gstate) (i : nat) (c : client) : nat -> client :=
    fun j => if Nat.eqb j i then c else g_cl g j.

  (* one atomic step of client i; None = client i cannot move (finished, or blocked on the lock) *)
  Definition cstep (i : nat) (g : gstate) : option gstate :=
    let c := g_cl g i in
    match c_cur c with
    | None =>
        match c_todo c with
        | [] => None
        | o :: t => Some (mkG (g_data g) (g_lock g) (set_cl g i (mkClient (Some (o, code o)) t (c_done c))))
        end
    | Some (o, Ret r) =>
        Some (mkG (g_data g) (g_lock g) (set_cl g i (mkClient None (c_todo c) ((o, r) :: c_done c))))
    | Some (o, Call upd k) =>
        Some (mkG (upd (g_data g)) (g_lock g)
                  (set_cl g i (mkClient (Some (o, k (g_data g))) (c_todo c) (c_done c))))
    | Some (o, Acquire k) =>
        match g_lock g with
        | None => Some (mkG (g_data g) (Some i) (set_cl g i (mkClient (Some (o, k)) (c_todo c) (c_done c))))
        | Some _ => None
        end
    | Some (o, Release k) =>
        Some (mkG (g_data g) None (set_cl g i (mkClient (Some (o, k)) (c_todo c) (c_done c))))
    end.

  Definition init (d0 : S) (progs : nat -> list O) : gstate :=
    mkG d0 None (fun i => mkClient None (progs i) []).

  (* every interleaving: any client that can move may move *)
  Inductive reachable (g0 : gstate) : gstate -> Prop :=
  | reach_refl : reachable g0 g0
  | reach_step : forall g i g', reachable g0 g -> cstep i g = Some g' -> reachable g0 g'.

  (* a complete history: every client has issued all its operations and got all results *)
  Definition complete (g : gstate) : Prop :=
    forall i, c_cur (g_cl g i) = None /\ c_todo (g_cl g i) = [].

  (* ---- the sequential reading of a history: h lists (client, operation) in the order of the sequential run *)
  Variable seq : S -> O -> S * out.
  Fixpoint st_from (s : S) (h : list (nat * O)) : S :=
    match h with [] => s | (_, o) :: t => st_from (fst (seq s o)) t end.
  Fixpoint res_from (s : S) (h : list (nat * O)) : list (nat * (O * out)) :=
    match h with
    | [] => []
    | (i, o) :: t => (i, (o, snd (seq s o))) :: res_from (fst (seq s o)) t
    end.
  (* what client i issued / obtained in the sequential run *)
  Definition proj {X} (i : nat) (l : list (nat * X)) : list X :=
    map snd (filter (fun x => Nat.eqb (fst x) i) l).

  (* ---- deterministic replay of a schedule as the harness' step scheduler produces it.
     A thread that is picked executes the call it is paused at and runs on to its next call (or its end);
     returning, releasing the lock and starting the next operation are not scheduling points.  A thread that has
     not started yet only runs up to its first call. *)
  Definition at_call (c : client) : bool :=
    match c_cur c with Some (_, Call _ _) => true | Some (_, Acquire _) => true | _ => false end.
  Definition finished (c : client) : bool :=
    match c_cur c, c_todo c with None, [] => true | _, _ => false end.
  (* silent steps of client i until it is at a call or finished *)
  Fixpoint settle (fuel : nat) (i : nat) (g : gstate) : gstate :=
    match fuel with
    | 0 => g
    | Datatypes.S f =>
        if at_call (g_cl g i) || finished (g_cl g i) then g
        else match cstep i g with Some g' => settle f i g' | None => g end
    end.
  Definition runnable (i : nat) (g : gstate) : bool :=
    negb (finished (g_cl g i))
    && match c_cur (g_cl g i), g_lock g with Some (_, Acquire _), Some _ => false | _, _ => true end.
  Definition turn (fuel : nat) (i : nat) (g : gstate) : gstate :=
    if at_call (g_cl g i) then
      match cstep i g with Some g' => settle fuel i g' | None => g end
    else settle fuel i g.
End Steps.
Arguments Ret {S} r.
Arguments Call {S} upd k.
Arguments Acquire {S} k.
Arguments Release {S} k.
Arguments exec {S} p d.
Arguments mkClient {S O} _ _ _.
Arguments c_cur {S O} _.
Arguments c_todo {S O} _.
Arguments c_done {S O} _.
Arguments mkG {S O} _ _ _.
Arguments g_data {S O} _.
Arguments g_lock {S O} _.
Arguments g_cl {S O} _ _.
Arguments cstep {S O} code i g.
Arguments init {S O} d0 progs.
Arguments reachable {S O} code g0 _.
Arguments complete {S O} g.
Arguments st_from {S O} seq s h.
Arguments res_from {S O} seq s h.
Arguments proj {X} i l.
Arguments settle {S O} code fuel i g.
Arguments runnable {S O} i g.
Arguments turn {S O} code fuel i g.
Arguments finished {S O} c.
Arguments at_call {S O} c.

(* ------------------------------------------------------------------ LRUCache, call by call *)
Section LruCode.
  Variable D : Type.
  Variable mx : nat.

  (* dict[key] = value; queue.append(key); leave the `with` block; return None *)
  Definition lru_store (k v : nat) : prog lru :=
    Call (fun s => mkLru (aset k v (l_dict s)) (l_queue s))
         (fun _ => Call (fun s => mkLru (l_dict s) (l_queue s ++ [k]))
                        (fun _ => Release (Ret ONone))).

  (* for key in keys: del dict[key]  ...  del queue[:] *)
  Fixpoint lru_clear_loop (keys : list nat) : prog lru :=
    match keys with
    | [] => Call (fun s => mkLru (l_dict s) []) (fun _ => Release (Ret ONone))
    | k :: t =>
        Call (fun s => if amem k (l_dict s) then mkLru (adel k (l_dict s)) (l_queue s) else s)
             (fun s => if amem k (l_dict s) then lru_clear_loop t else Release (Ret (Raised KeyError)))
    end.

  Definition lru_code (o : op D) : prog lru :=
    match o with
    | Get k =>
        Acquire
          (Call (fun s => s)                                            (* key in dict *)
             (fun s =>
                if negb (amem k (l_dict s)) then Release (Ret ONone)
                else Call (fun s => s)                                  (* dict[key] *)
                       (fun s =>
                          match aget k (l_dict s) with
                          | None => Release (Ret (Raised KeyError))
                          | Some v =>
                              Call (fun s => if qmem k (l_queue s)      (* queue.remove(key) *)
                                             then mkLru (l_dict s) (qremove k (l_queue s)) else s)
                                   (fun s =>
                                      if qmem k (l_queue s)
                                      then Call (fun s => mkLru (l_dict s) (l_queue s ++ [k]))   (* queue.append *)
                                                (fun _ => Release (Ret (OVal v)))
                                      else Release (Ret (Raised ValueError)))
                          end)))
    | Put k v _ =>
        Acquire
          (Call (fun s => s)                                            (* key in dict *)
             (fun s =>
                if amem k (l_dict s) then
                  Call (fun s => if qmem k (l_queue s)                  (* queue.remove(key) *)
                                 then mkLru (l_dict s) (qremove k (l_queue s)) else s)
                       (fun s => if qmem k (l_queue s) then lru_store k v else Release (Ret (Raised ValueError)))
                else
                  Call (fun s => s)                                     (* len(queue) *)
                       (fun s =>
                          if mx <=? length (l_queue s) then
                            Call (fun s => mkLru (l_dict s) (tl (l_queue s)))      (* queue.pop(0) *)
                                 (fun s =>
                                    match l_queue s with
                                    | [] => Release (Ret (Raised IndexError))
                                    | h :: _ =>
                                        Call (fun s => if amem h (l_dict s)        (* dict.pop(h) *)
                                                       then mkLru (adel h (l_dict s)) (l_queue s) else s)
                                             (fun s => if amem h (l_dict s) then lru_store k v
                                                       else Release (Ret (Raised KeyError)))
                                    end)
                          else lru_store k v)))
    | Clear => Acquire (Call (fun s => s) (fun s => lru_clear_loop (map fst (l_dict s))))   (* list(dict.keys()) *)
    | Mem k => Call (fun s => s) (fun s => Ret (OBool (amem k (l_dict s))))       (* lock-free: key in dict *)
    | Len => Call (fun s => s) (fun s => Ret (OLen (length (l_dict s))))          (* lock-free: len(dict) *)
    end.

  Definition lru_locked (o : op D) : bool :=
    match o with Mem _ | Len => false | _ => true end.
  (* what the lock-free calls return on the managed objects d *)
  Definition lru_read (o : op D) (d : lru) : out :=
    match o with
    | Mem k => OBool (amem k (l_dict d))
    | Len => OLen (length (l_dict d))
    | _ => ONone
    end.
End LruCode.

(* ------------------------------------------------------------------ HybridCache, call by call *)
Section HybCode.
  Variable A : arith.
  Variables aw dw : num A.
  Variable mx : nat.

  Definition hyb_store (k v : nat) (d : num A) : prog (hyb A) :=
    Call (fun s => mkHyb (aset k v (h_dict s)) (h_cnt s) (h_dur s))
         (fun _ => Call (fun s => mkHyb (h_dict s) (aset k 1 (h_cnt s)) (h_dur s))
                        (fun _ => Call (fun s => mkHyb (h_dict s) (h_cnt s) (aset k d (h_dur s)))
                                       (fun _ => Release (Ret ONone)))).

  Definition hyb_raise (e : err) : prog (hyb A) := Release (Ret (Raised e)).

  (* _expire, then `rest` *)
  Definition hyb_expire_code (rest : prog (hyb A)) : prog (hyb A) :=
    Call (fun s => s) (fun s1 =>                                   (* counts.values() *)
      let total_c := fold_left Nat.add (map snd (h_cnt s1)) 0 in
    Call (fun s => s) (fun s2 =>                                   (* durations.values() *)
      let total_d := fold_left (nadd A) (map snd (h_dur s2)) (n0 A) in
    Call (fun s => s) (fun s3 =>                                   (* counts.items() *)
      match mapM (fun kv => if total_c =? 0 then Err ZeroDivisionError
                            else Ok (fst kv, ndiv A (nnat A (snd kv)) (nnat A total_c))) (h_cnt s3) with
      | Err e => hyb_raise e
      | Ok nc =>
    Call (fun s => s) (fun s4 =>                                   (* durations.items() *)
      match mapM (fun kv => if nzero A total_d then Ok (fst kv, n0 A)
                            else Ok (fst kv, ndiv A (snd kv) total_d)) (h_dur s4) with
      | Err e => hyb_raise e
      | Ok nd =>
      (* scores: iterates the local normalized_access_counts (same keys as counts.items() returned) *)
      match scores A aw dw (h_cnt s3) nc nd with
      | Err e => hyb_raise e
      | Ok [] => hyb_raise ValueError
      | Ok (b :: r) =>
          let k := argmin A b r in
          Call (fun s => if amem k (h_dict s) then mkHyb (adel k (h_dict s)) (h_cnt s) (h_dur s) else s)
               (fun s => if negb (amem k (h_dict s)) then hyb_raise KeyError else
          Call (fun s => if amem k (h_cnt s) then mkHyb (h_dict s) (adel k (h_cnt s)) (h_dur s) else s)
               (fun s => if negb (amem k (h_cnt s)) then hyb_raise KeyError else
          Call (fun s => if amem k (h_dur s) then mkHyb (h_dict s) (h_cnt s) (adel k (h_dur s)) else s)
               (fun s => if negb (amem k (h_dur s)) then hyb_raise KeyError else rest)))
      end
      end)
      end))).

  Definition hyb_code (o : op (num A)) : prog (hyb A) :=
    match o with
    | Get k =>
        Acquire
          (Call (fun s => s)                                            (* key in dict *)
             (fun s =>
                if negb (amem k (h_dict s)) then Release (Ret ONone)
                else Call (fun s => s)                                  (* counts[key] *)
                       (fun s =>
                          match aget k (h_cnt s) with
                          | None => hyb_raise KeyError
                          | Some c =>
                              Call (fun s => mkHyb (h_dict s) (aset k (c + 1) (h_cnt s)) (h_dur s))   (* counts[key] = c+1 *)
                                   (fun _ => Call (fun s => s)          (* dict[key] *)
                                               (fun s => match aget k (h_dict s) with
                                                         | Some v => Release (Ret (OVal v))
                                                         | None => hyb_raise KeyError
                                                         end))
                          end)))
    | Put k v d =>
        Acquire
          (Call (fun s => s)                                            (* len(dict) *)
             (fun s => if mx <=? length (h_dict s) then hyb_expire_code (hyb_store k v d) else hyb_store k v d))
    | Clear =>
        Acquire
          (Call (fun s => mkHyb [] (h_cnt s) (h_dur s))
             (fun _ => Call (fun s => mkHyb (h_dict s) [] (h_dur s))
                         (fun _ => Call (fun s => mkHyb (h_dict s) (h_cnt s) [])
                                        (fun _ => Release (Ret ONone)))))
    | Mem k => Call (fun s => s) (fun s => Ret (OBool (amem k (h_dict s))))
    | Len => Call (fun s => s) (fun s => Ret (OLen (length (h_dict s))))
    end.

  Definition hyb_locked (o : op (num A)) : bool :=
    match o with Mem _ | Len => false | _ => true end.
  Definition hyb_read (o : op (num A)) (d : hyb A) : out :=
    match o with
    | Mem k => OBool (amem k (h_dict d))
    | Len => OLen (length (h_dict d))
    | _ => ONone
    end.
End HybCode.
