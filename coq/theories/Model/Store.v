(* Storage arrays of pipefunc (pipefunc/map/_storage_array/{_base,_file,_dict}.py).  Definitions only.

   PART 1  keys and geometry (shared)            kitem, nitem, geom, normalize_key, axes_of, slice_lens ...
   PART 2  MaskedNd  - the abstract reference    a masked n-d object array of the FULL shape (= NumPy semantics)
   PART 3  StoreFile - model of FileArray        state: linear external index |-> stored value (one file each)
   PART 4  StoreDict - model of DictArray / SharedMemoryDictArray   state: external index tuple |-> stored value
   PART 5  op / out / step functions for the three machines

   Everything is polymorphic in the element type E (opaque user values).  A *stored value* (what dump receives for
   one external position) is the row-major flat list of its elements: length 1 for internal_shape = (), otherwise
   prod internal_shape elements.  An n-d array is  shape + row-major flat list of cells  (NumPy C order).

   How other models use this file (e.g. Pipeline.map):  the abstract object is `list (cell E)` of length
   prod (full_shape g) together with the geometry g (start: `absent E g`); use  dumpM E g A [KInt i1; ..] v ,
   getM E g A key ,  mask_linearM E g A ,  hasM E g A i ,  nd_get E (full_shape g) A position,  or the whole machine
   stepM E miss g A op.   Declarative vocabulary (abstraction functions, write history `written`, bad_key) is in
   Model/StoreSpec.v; facts are in Proofs/StoreBase.v (flat n-d arrays), Proofs/StoreAbs.v (reference operations on
   abs_of look: getM_abs, dumpM_abs, mask_linearM_abs, hasM_abs, ...), Proofs/StoreFacts.v (sequences).
   This file and StoreSpec.v have no proof dependencies.  The code modelled is the REPAIRED code (repo commits
   f05e6d1, 7196226, 35933d0, 0b74677, dba4f89); the pre-repair dump-key / missing-element paths are in
   Model/StoreLegacy.v. *)
From Verif Require Import Base.Prelude Base.Index Base.PySlice.

(* ================================================================ PART 1: keys and geometry *)

(* one component of a user key: an int (possibly negative) or slice(a, b, c) *)
Inductive kitem := KInt (k : Z) | KSlice (a b c : option Z).
(* one component of a normalised key: ints are in range and non-negative *)
Inductive nitem := NInt (n : nat) | NSlice (a b c : option Z).

(* shape = external shape, internal_shape, shape_mask (True = external axis) *)
Record geom := { g_ext : list nat; g_int : list nat; g_mask : list bool }.

Definition full_shape (g : geom) : list nat := merge (g_mask g) (g_ext g) (g_int g).   (* select_by_mask *)
Definition size (g : geom) : nat := prod (g_ext g).

Definition count_true (m : list bool) : nat := length (filter id m).
Definition count_false (m : list bool) : nat := length (filter negb m).

(* what the constructors of pipefunc guarantee (+ all dimensions positive, the scope of the property) *)
Definition geom_ok (g : geom) : bool :=
  (count_true (g_mask g) =? length (g_ext g)) && (count_false (g_mask g) =? length (g_int g))
  && forallb (fun d => 0 <? d) (g_ext g) && forallb (fun d => 0 <? d) (g_int g).

Definition is_slice (k : nitem) : bool := match k with NSlice _ _ _ => true | NInt _ => false end.
Definition has_slice (nk : list nitem) : bool := existsb is_slice nk.     (* any(isinstance(k, slice) for k in key) *)

Definition norm_item (axis_size : nat) (k : kitem) : result nitem :=
  match k with
  | KSlice a b c => Ok (NSlice a b c)
  | KInt z => match norm_int z axis_size with Ok n => Ok (NInt n) | Err e => Err e end
  end.

(* the loop of normalize_key over zip(axis sizes, key) *)
Fixpoint norm_items (sizes : list nat) (key : list kitem) : result (list nitem) :=
  match sizes, key with
  | d :: sizes', k :: key' =>
      do k' <- norm_item d k; do rest <- norm_items sizes' key'; Ok (k' :: rest)
  | _, _ => Ok []
  end.

(* _base.normalize_key (after the fix: with for_dump the key is matched against the external axes only).
   A bare (non-tuple) key is wrapped into a 1-tuple by the code; here a key is always a list.
   The walk `shape[shape_index] if mask else internal_shape[internal_shape_index]` over the mask is select_by_mask,
   i.e. `merge`. *)
Definition normalize_key (g : geom) (key : list kitem) (for_dump : bool) : result (list nitem) :=
  let expected_rank := if for_dump then count_true (g_mask g) else length (g_mask g) in
  if negb (length key =? expected_rank) then Err IndexError else
  let shape_mask := if for_dump then repeat true expected_rank else g_mask g in
  norm_items (merge shape_mask (g_ext g) (g_int g)) key.

(* range( *k.indices(size)) for a slice, range(k, k+1) for an int *)
Definition axis_range (axis_size : nat) (k : nitem) : result (list nat) :=
  match k with
  | NInt n => Ok [n]
  | NSlice a b c => slice_indices a b c axis_size
  end.

(* zip(sizes, key) -> list of ranges; ValueError for a zero step *)
Fixpoint axes_of (sizes : list nat) (nk : list nitem) : result (list (list nat)) :=
  match sizes, nk with
  | d :: sizes', k :: nk' => do r <- axis_range d k; do rest <- axes_of sizes' nk'; Ok (r :: rest)
  | _, _ => Ok []
  end.

(* tuple(len(r) for k, r in zip(key, ranges) if isinstance(k, slice)) *)
Fixpoint slice_lens (nk : list nitem) (ranges : list (list nat)) : list nat :=
  match nk, ranges with
  | k :: nk', r :: ranges' => if is_slice k then length r :: slice_lens nk' ranges' else slice_lens nk' ranges'
  | _, _ => []
  end.

(* a normalised key used as a key again *)
Definition denorm (nk : list nitem) : list kitem :=
  map (fun k => match k with NInt n => KInt (Z.of_nat n) | NSlice a b c => KSlice a b c end) nk.

(* the ints of a slice-free normalised key *)
Definition nk_ints (nk : list nitem) : list nat :=
  flat_map (fun k => match k with NInt n => [n] | NSlice _ _ _ => [] end) nk.

Definition idx_eqb (a b : list nat) : bool := list_eqb Nat.eqb a b.
Definition mem_idx (x : list nat) (l : list (list nat)) : bool := existsb (idx_eqb x) l.
Definition mem_nat (x : nat) (l : list nat) : bool := existsb (Nat.eqb x) l.

(* flat-memory point assignment: a.flat[i] = x  (no effect outside the array) *)
Fixpoint upd_nth {A} (i : nat) (x : A) (l : list A) : list A :=
  match l, i with
  | [], _ => []
  | _ :: t, 0 => x :: t
  | y :: t, S i' => y :: upd_nth i' x t
  end.

Section Store.
  Variable E : Type.

  (* one element of an object array: a value, np.ma.masked, or the None of an np.empty(.., dtype=object) that was
     never assigned (no operation of the reference ever shows Uninit) *)
  Inductive cell := Val (e : E) | Masked | Uninit.
  Definition is_masked (c : cell) : bool := match c with Masked => true | _ => false end.

  Definition sval := list E.

  (* a[p] for an n-d array of shape sh stored row-major in a *)
  Definition nd_get (sh : list nat) (a : list cell) (p : list nat) : cell := nth (ravel sh p) a Uninit.
  (* a[p] = c *)
  Definition nd_set (sh : list nat) (a : list cell) (p : list nat) (c : cell) : list cell := upd_nth (ravel sh p) c a.
  (* np.asarray(v)[j] as a cell (Uninit when v is too short; the concrete models raise instead, see fetch) *)
  Definition nth_cell (v : sval) (j : nat) : cell := match nth_error v j with Some e => Val e | None => Uninit end.

  Inductive out :=
  | OArr (sh : list nat) (cells : list cell)   (* an array; a scalar result is OArr [] [c] *)
  | OMask (sh : list nat) (missing : list bool)  (* the .mask property: MaskedArray(mask, mask=mask) of the external shape *)
  | OBools (l : list bool)                     (* mask_linear *)
  | OBool (b : bool)
  | ONone
  | OErr (e : err).

  Inductive op :=
  | Dump (key : list kitem) (v : sval)   (* dump(key, value): key over the EXTERNAL axes *)
  | Get (key : list kitem)               (* __getitem__: key over the FULL shape *)
  | ToArray | Mask | MaskLinear
  | Has (i : nat) | GetIdx (i : nat)     (* has_index / get_from_index (linear external index) *)
  | PersistReopen.                       (* persist(); then a new object on the same folder *)

  (* arr.reshape(sh) of a flat list *)
  Definition reshape (sh : list nat) (cells : list cell) : result out :=
    if prod sh =? length cells then Ok (OArr sh cells) else Err ValueError.

  (* ================================================================ PART 2: the reference, a masked n-d array
     State: the row-major list of cells of an array of shape full_shape g.  NumPy semantics:
       A[key]            basic indexing with a key of full rank: the selected positions are the cartesian product of the
                         per-axis selections, int axes are dropped from the result shape
       A[ext key, :..:] = v    every selected external position receives the internal-shaped value v
     The storage API demands keys of full rank (normalize_key) and IndexError for anything else. *)

  Definition absent (g : geom) : list cell := repeat Masked (prod (full_shape g)).

  (* rank check + per-axis normalisation against `sizes`: IndexError iff wrong rank or an int out of [-n, n) *)
  Definition norm_key_ref (sizes : list nat) (key : list kitem) : result (list nitem) :=
    if length key =? length sizes then norm_items sizes key else Err IndexError.

  Definition getM (g : geom) (A : list cell) (key : list kitem) : result out :=
    do nk <- norm_key_ref (full_shape g) key;
    do axes <- axes_of (full_shape g) nk;
    Ok (OArr (slice_lens nk axes) (map (nd_get (full_shape g) A) (cart axes))).

  Definition dumpM (g : geom) (A : list cell) (key : list kitem) (v : sval) : result (list cell) :=
    do nk <- norm_key_ref (g_ext g) key;
    do axes <- axes_of (g_ext g) nk;
    let selected := cart axes in
    Ok (map (fun p => if mem_idx (ext_of (g_mask g) p) selected
                      then nth_cell v (ravel (g_int g) (int_of (g_mask g) p))
                      else nd_get (full_shape g) A p)
            (all_indices (full_shape g))).

  (* an external position is missing iff all its elements are masked *)
  Definition ext_missing (g : geom) (A : list cell) (e : list nat) : bool :=
    forallb (fun j => is_masked (nd_get (full_shape g) A (merge (g_mask g) e j))) (all_indices (g_int g)).

  (* row-major over the external shape *)
  Definition mask_linearM (g : geom) (A : list cell) : list bool := map (ext_missing g A) (all_indices (g_ext g)).

  Definition hasM (g : geom) (A : list cell) (i : nat) : bool := negb (ext_missing g A (unravel (g_ext g) i)).

  Definition get_from_indexM (g : geom) (A : list cell) (i : nat) : list cell :=
    map (fun j => nd_get (full_shape g) A (merge (g_mask g) (unravel (g_ext g) i) j)) (all_indices (g_int g)).

  (* `miss` = the exception class of get_from_index on a missing element (the property does not fix it:
     FileNotFoundError for FileArray, KeyError for DictArray).  Linear indices >= size are outside the property. *)
  Definition stepM (miss : err) (g : geom) (A : list cell) (o : op) : list cell * out :=
    match o with
    | Dump key v => match dumpM g A key v with Ok A' => (A', ONone) | Err e => (A, OErr e) end
    | Get key => (A, match getM g A key with Ok r => r | Err e => OErr e end)
    | ToArray => (A, OArr (full_shape g) A)
    | Mask => (A, OMask (g_ext g) (mask_linearM g A))
    | MaskLinear => (A, OBools (mask_linearM g A))
    | Has i => (A, if i <? size g then OBool (hasM g A i) else OErr IndexError)
    | GetIdx i => (A, if i <? size g
                      then (if hasM g A i then OArr (g_int g) (get_from_indexM g A i) else OErr miss)
                      else OErr IndexError)
    | PersistReopen => (A, ONone)
    end.

  (* ================================================================ shared by both concrete models *)

  (* element `internal index of idx` of a loaded value; a missing file / dict entry gives np.ma.masked:
       sub_array = np.asarray(sub_array); sub_array[internal_index]      (IndexError when out of range)
     For internal_shape = () the code returns the loaded object itself: element 0 of the one-element list. *)
  Definition fetch (g : geom) (ov : option sval) (idx : list nat) : result cell :=
    match ov with
    | None => Ok Masked
    | Some v => match nth_error v (ravel (g_int g) (int_of (g_mask g) idx)) with
                | Some e => Ok (Val e)
                | None => Err IndexError
                end
    end.

  (* for e in ext_positions: for j in iterate_shape_indices(internal_shape): arr[select_by_mask(mask, e, j)] = v[j]
     as the list of (position, cell) assignments in loop order *)
  Definition splat_assignments (g : geom) (items : list (list nat * option sval)) : result (list (list nat * cell)) :=
    mapM (fun ej => let '(e, ov, j) := ej in
                    let p := merge (g_mask g) e j in
                    do c <- fetch g ov p; Ok (p, c))
         (flat_map (fun eo => map (fun j => (fst eo, snd eo, j)) (all_indices (g_int g))) items).

  Definition assign_all (sh : list nat) (init : list cell) (pcs : list (list nat * cell)) : list cell :=
    fold_left (fun a pc => nd_set sh a (fst pc) (snd pc)) pcs init.

  (* ================================================================ PART 3: FileArray *)
  (* one entry (i, v) = file __i__.pickle containing v; a later dump of the same index overwrites: newest first *)
  Definition stF := list (nat * sval).

  Fixpoint lookupF (i : nat) (s : stF) : option sval :=
    match s with [] => None | (k, v) :: t => if k =? i then Some v else lookupF i t end.

  (* _key_to_file: sum(k * s for k, s in zip(key, strides)) *)
  Definition key_to_file (g : geom) (key : list nat) : nat := ravel (g_ext g) key.

  (* FileArray._slice_indices(key, for_dump): normalises the key again, then one range per axis *)
  Definition slice_indicesF (g : geom) (key : list kitem) (for_dump : bool) : result (list (list nat)) :=
    do nk <- normalize_key g key for_dump;
    let shape_mask := if for_dump then repeat true (length (g_ext g)) else g_mask g in
    axes_of (merge shape_mask (g_ext g) (g_int g)) nk.

  Definition getF (g : geom) (s : stF) (key : list kitem) : result out :=
    do nk <- normalize_key g key false;
    if has_slice nk then
      do ranges <- slice_indicesF g key false;
      do sliced <- mapM (fun index =>
                           let file := key_to_file g (ext_of (g_mask g) index) in
                           fetch g (lookupF file s) index)
                        (cart ranges);
      reshape (slice_lens nk ranges) sliced
    else
      let index := nk_ints nk in
      let file := key_to_file g (ext_of (g_mask g) index) in
      do c <- fetch g (lookupF file s) index;
      Ok (OArr [] [c]).

  Definition dumpF (g : geom) (s : stF) (key : list kitem) (v : sval) : result stF :=
    do nk <- normalize_key g key true;
    if negb (has_slice nk) then Ok ((key_to_file g (nk_ints nk), v) :: s)
    else
      (* the code passes the normalised key to _slice_indices, which normalises it again *)
      do ranges <- slice_indicesF g (denorm nk) true;
      Ok (fold_left (fun s' index => (key_to_file g index, v) :: s') (cart ranges) s).

  Definition mask_linearF (g : geom) (s : stF) : list bool :=
    map (fun i => negb (mem_nat i (map fst s))) (seq 0 (size g)).

  Definition to_arrayF (g : geom) (s : stF) : result out :=
    match g_int g with
    | [] =>
        (* items = [load or None]; MaskedArray(arr, mask=mask_linear()).reshape(shape) *)
        reshape (g_ext g)
          (map (fun i => match lookupF i s with Some v => nth_cell v 0 | None => Masked end) (seq 0 (size g)))
    | _ =>
        do pcs <- splat_assignments g (map (fun e => (e, lookupF (key_to_file g e) s)) (all_indices (g_ext g)));
        Ok (OArr (full_shape g) (assign_all (full_shape g) (repeat Uninit (prod (full_shape g))) pcs))
    end.

  Definition stepF (g : geom) (s : stF) (o : op) : stF * out :=
    match o with
    | Dump key v => match dumpF g s key v with Ok s' => (s', ONone) | Err e => (s, OErr e) end
    | Get key => (s, match getF g s key with Ok r => r | Err e => OErr e end)
    | ToArray => (s, match to_arrayF g s with Ok r => r | Err e => OErr e end)
    | Mask => (s, OMask (g_ext g) (mask_linearF g s))            (* MaskedArray(mask, mask=mask).reshape(shape) *)
    | MaskLinear => (s, OBools (mask_linearF g s))
    | Has i => (s, OBool (mem_nat i (map fst s)))                (* _index_to_file(index).is_file() *)
    | GetIdx i => (s, match lookupF i s with                     (* load(_index_to_file(index)) *)
                      | Some v => OArr (g_int g) (map Val v)
                      | None => OErr FileNotFoundError
                      end)
    | PersistReopen => (s, ONone)                                (* the folder is the state *)
    end.

  (* ================================================================ PART 4: DictArray / SharedMemoryDictArray *)
  (* a Python dict keyed by external index tuples, in insertion order *)
  Definition stD := list (list nat * sval).

  Fixpoint dict_get (k : list nat) (d : stD) : option sval :=
    match d with [] => None | (k', v) :: t => if idx_eqb k' k then Some v else dict_get k t end.

  (* d[k] = v : replaces in place, a new key goes to the end *)
  Fixpoint dict_set (k : list nat) (v : sval) (d : stD) : stD :=
    match d with
    | [] => [(k, v)]
    | (k', v') :: t => if idx_eqb k' k then (k', v) :: t else (k', v') :: dict_set k v t
    end.

  (* DictArray._slice_indices(key, shape): assert len(key) == len(shape) *)
  Definition slice_indicesD (nk : list nitem) (shape : list nat) : result (list (list nat)) :=
    if length nk =? length shape then axes_of shape nk else Err AssertionError.

  (* np.unravel_index(index, shape): ValueError when index >= prod shape *)
  Definition unravel_index (shape : list nat) (i : nat) : result (list nat) :=
    if i <? prod shape then Ok (unravel shape i) else Err ValueError.

  Definition getD (g : geom) (d : stD) (key : list kitem) : result out :=
    do nk <- normalize_key g key false;
    if has_slice nk then
      (* shape: len(range( *k.indices(s))) for slices, 1 for ints *)
      do ranges0 <- axes_of (full_shape g) nk;
      let shape := map (@length nat) ranges0 in
      do ranges <- slice_indicesD nk (full_shape g);
      (* data = np.empty(shape, dtype=object); data[np.unravel_index(i, shape)] = value *)
      do data <- fold_left
                   (fun acc i_index =>
                      do data <- acc;
                      let '(i, index) := i_index in
                      do value <- fetch g (dict_get (ext_of (g_mask g) index) d) index;
                      do j <- unravel_index shape i;
                      Ok (nd_set shape data j value))
                   (combine (seq 0 (length (cart ranges))) (cart ranges))
                   (Ok (repeat Uninit (prod shape)));
      reshape (slice_lens nk ranges) data
    else
      let index := nk_ints nk in
      do c <- fetch g (dict_get (ext_of (g_mask g) index) d) index;
      Ok (OArr [] [c]).

  Definition dumpD (g : geom) (d : stD) (key : list kitem) (v : sval) : result stD :=
    do nk <- normalize_key g key true;
    if has_slice nk then
      do ranges <- slice_indicesD nk (g_ext g);
      (* with an internal shape: value = np.asarray(value); assert value.shape == self.internal_shape *)
      if match g_int g with [] => false | _ => negb (length v =? prod (g_int g)) end
         && (match cart ranges with [] => false | _ => true end)
      then Err AssertionError
      else Ok (fold_left (fun d' index => dict_set index v d') (cart ranges) d)
    else Ok (dict_set (nk_ints nk) v d).

  (* mask = np.full(shape, True); for external_index in self._dict: mask[external_index] = False *)
  Definition maskD (g : geom) (d : stD) : list bool :=
    fold_left (fun m e => upd_nth (ravel (g_ext g) e) false m) (map fst d) (repeat true (size g)).

  Definition to_arrayD (g : geom) (d : stD) : result out :=
    match g_int g with
    | [] =>
        (* data = _masked_empty(shape); for e, v in items: data[e] = v; mask[e] = False *)
        Ok (OArr (g_ext g)
              (assign_all (g_ext g) (repeat Masked (size g)) (map (fun ev => (fst ev, nth_cell (snd ev) 0)) d)))
    | _ =>
        (* data[select_by_mask(mask, e, (slice(None),)*len(internal_shape))] = value *)
        do pcs <- splat_assignments g (map (fun ev => (fst ev, Some (snd ev))) d);
        Ok (OArr (full_shape g) (assign_all (full_shape g) (repeat Masked (prod (full_shape g))) pcs))
    end.

  Definition stepD (g : geom) (d : stD) (o : op) : stD * out :=
    match o with
    | Dump key v => match dumpD g d key v with Ok d' => (d', ONone) | Err e => (d, OErr e) end
    | Get key => (d, match getD g d key with Ok r => r | Err e => OErr e end)
    | ToArray => (d, match to_arrayD g d with Ok r => r | Err e => OErr e end)
    | Mask => (d, OMask (g_ext g) (maskD g d))
    | MaskLinear => (d, OBools (maskD g d))                        (* list(self.mask.data[:].flat) *)
    | Has i => (d, match unravel_index (g_ext g) i with
                   | Ok e => OBool (match dict_get e d with Some _ => true | None => false end)
                   | Err e => OErr e
                   end)
    | GetIdx i => (d, match unravel_index (g_ext g) i with
                      | Ok e => match dict_get e d with
                                | Some v => OArr (g_int g) (map Val v)
                                | None => OErr KeyError
                                end
                      | Err e => OErr e
                      end)
    | PersistReopen =>
        (* persist(): dump(dict(self._dict), path); new object: self._dict = load(path)   (pickle trusted) *)
        let on_disk := d in (on_disk, ONone)
    end.

  (* ================================================================ PART 5: runs *)
  Section Run.
    Context {St : Type}.
    Variable step : St -> op -> St * out.
    Fixpoint run_ops (s : St) (ops : list op) : list out :=
      match ops with
      | [] => []
      | o :: t => let '(s', r) := step s o in r :: run_ops s' t
      end.
    Definition final (s : St) (ops : list op) : St := fold_left (fun s o => fst (step s o)) ops s.
  End Run.

  (* the scope of the property: values have the internal shape, linear indices are < size *)
  Definition valid_op (g : geom) (o : op) : bool :=
    match o with
    | Dump _ v => length v =? prod (g_int g)
    | Has i | GetIdx i => i <? size g
    | _ => true
    end.
End Store.

Arguments Val {E}. Arguments Masked {E}. Arguments Uninit {E}.
Arguments OArr {E}. Arguments OMask {E}. Arguments OBools {E}. Arguments OBool {E}. Arguments ONone {E}. Arguments OErr {E}.
Arguments Dump {E}. Arguments Get {E}. Arguments ToArray {E}. Arguments Mask {E}. Arguments MaskLinear {E}.
Arguments Has {E}. Arguments GetIdx {E}. Arguments PersistReopen {E}.
