(* The code paths of pipefunc/map/_storage_array as they were BEFORE the C07 repairs (repo commit 8bc6eee), kept only to
   state the refutations C07_*_v0_refuted.  Definitions only.

   (1) normalize_key(for_dump=True) and FileArray._slice_indices(for_dump=True) zipped the EXTERNAL key with the FULL
       shape_mask: component number n of the key was checked against axis n of the full shape.
   (2) DictArray._internal_mask() returned np.ma.empty(internal_shape, dtype=object) when there is an internal shape:
       an integer key on a missing element returned that whole unmasked array of None, and slice keys read
       `_internal_mask()[internal_key]`, i.e. None instead of np.ma.masked. *)
From Verif Require Import Base.Prelude Base.Index Base.PySlice Model.Store.

(* the loop `for axis, (mask, k) in enumerate(zip(shape_mask, key))` with shape_index / internal_shape_index walks the
   prefix of select_by_mask(shape_mask, shape, internal_shape) *)
Definition normalize_key_v0 (g : geom) (key : list kitem) (for_dump : bool) : result (list nitem) :=
  let expected_rank := if for_dump then count_true (g_mask g) else length (g_mask g) in
  if negb (length key =? expected_rank) then Err IndexError else
  norm_items (merge (g_mask g) (g_ext g) (g_int g)) key.

Section Legacy.
  Variable E : Type.

  Definition slice_indicesF_v0 (g : geom) (key : list kitem) (for_dump : bool) : result (list (list nat)) :=
    do nk <- normalize_key_v0 g key for_dump;
    axes_of (merge (g_mask g) (g_ext g) (g_int g)) nk.

  Definition dumpF_v0 (g : geom) (s : stF E) (key : list kitem) (v : sval E) : result (stF E) :=
    do nk <- normalize_key_v0 g key true;
    if negb (has_slice nk) then Ok ((key_to_file g (nk_ints nk), v) :: s)
    else
      do ranges <- slice_indicesF_v0 g (denorm nk) true;
      Ok (fold_left (fun s' index => (key_to_file g index, v) :: s') (cart ranges) s).

  Definition stepF_v0 (g : geom) (s : stF E) (o : op E) : stF E * out E :=
    match o with
    | Dump key v => match dumpF_v0 g s key v with Ok s' => (s', ONone) | Err e => (s, OErr e) end
    | _ => stepF E g s o
    end.

  (* value read by the slice loop for one index *)
  Definition fetchD_v0 (g : geom) (ov : option (sval E)) (idx : list nat) : result (cell E) :=
    match ov with
    | Some _ => fetch E g ov idx
    | None => match g_int g with
              | [] => Ok Masked                      (* np.ma.masked *)
              | _ => Ok Uninit                       (* np.ma.empty(internal_shape, dtype=object)[internal_key] = None *)
              end
    end.

  Definition getD_v0 (g : geom) (d : stD E) (key : list kitem) : result (out E) :=
    do nk <- normalize_key_v0 g key false;
    if has_slice nk then
      do ranges0 <- axes_of (full_shape g) nk;
      let shape := map (@length nat) ranges0 in
      do ranges <- slice_indicesD nk (full_shape g);
      do data <- fold_left
                   (fun acc i_index =>
                      do data <- acc;
                      let '(i, index) := i_index in
                      do value <- fetchD_v0 g (dict_get E (ext_of (g_mask g) index) d) index;
                      do j <- unravel_index shape i;
                      Ok (nd_set E shape data j value))
                   (combine (seq 0 (length (cart ranges))) (cart ranges))
                   (Ok (repeat Uninit (prod shape)));
      reshape E (slice_lens nk ranges) data
    else
      let index := nk_ints nk in
      match dict_get E (ext_of (g_mask g) index) d with
      | None => match g_int g with
                | [] => Ok (OArr [] [Masked])
                | _ => Ok (OArr (g_int g) (repeat Uninit (prod (g_int g))))   (* return self._internal_mask() *)
                end
      | Some v => do c <- fetch E g (Some v) index; Ok (OArr [] [c])
      end.

  Definition dumpD_v0 (g : geom) (d : stD E) (key : list kitem) (v : sval E) : result (stD E) :=
    do nk <- normalize_key_v0 g key true;
    if has_slice nk then
      do ranges <- slice_indicesD nk (g_ext g);
      Ok (fold_left (fun d' index => dict_set E index v d') (cart ranges) d)
    else Ok (dict_set E (nk_ints nk) v d).

  Definition stepD_v0 (g : geom) (d : stD E) (o : op E) : stD E * out E :=
    match o with
    | Dump key v => match dumpD_v0 g d key v with Ok d' => (d', ONone) | Err e => (d, OErr e) end
    | Get key => (d, match getD_v0 g d key with Ok r => r | Err e => OErr e end)
    | _ => stepD E g d o
    end.
End Legacy.
