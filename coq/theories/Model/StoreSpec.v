(* Declarative vocabulary for the C07 theorem statements (definitions only):
   - the abstraction of a concrete store to the masked n-d array of the reference (abs_of, absF, absD) and the
     representation invariants (invF, invD);
   - bad keys (the exact IndexError condition of the property);
   - the write history of an operation sequence (written) and what a key reads from it (getL). *)
From Verif Require Import Base.Prelude Base.Index Base.PySlice Model.Store.

Definition is_none {A} (o : option A) : bool := match o with None => true | Some _ => false end.

(* ---------- bad keys: wrong rank, or some int component outside [-n, n) of its axis ---------- *)
Definition int_out_of_range (sizes : list nat) (key : list kitem) : Prop :=
  exists n z d, nth_error key n = Some (KInt z) /\ nth_error sizes n = Some d /\ ~ int_in_range z d.

Definition bad_key (sizes : list nat) (key : list kitem) : Prop :=
  length key <> length sizes \/ int_out_of_range sizes key.

Definition zero_step (key : list kitem) : Prop := exists a b, In (KSlice a b (Some 0%Z)) key.

(* an in-range, non-negative integer key *)
Definition int_key (p : list nat) : list kitem := map (fun n => KInt (Z.of_nat n)) p.

Section Spec.
  Variable E : Type.
  Variable g : geom.

  Local Notation ext := (g_ext g).
  Local Notation int := (g_int g).
  Local Notation mask := (g_mask g).
  Local Notation full := (full_shape g).
  Local Notation cell := (cell E).
  Local Notation sval := (sval E).

  (* ---------- from "external position |-> stored value" to the cells of the full array ---------- *)
  Definition cell_of (ov : option sval) (j : nat) : cell :=
    match ov with None => Masked | Some v => nth_cell E v j end.

  (* the cell at full position p: element (internal part of p) of the value stored at (external part of p) *)
  Definition cell_at (look : list nat -> option sval) (p : list nat) : cell :=
    cell_of (look (ext_of mask p)) (ravel int (int_of mask p)).

  Definition abs_of (look : list nat -> option sval) : list cell := map (cell_at look) (all_indices full).

  (* every stored value has the internal shape *)
  Definition good (look : list nat -> option sval) : Prop :=
    forall e v, in_bounds ext e = true -> look e = Some v -> length v = prod int.

  (* what a __getitem__ key reads from a lookup function *)
  Definition getL (look : list nat -> option sval) (key : list kitem) : result (out E) :=
    do nk <- norm_key_ref full key;
    do axes <- axes_of full nk;
    Ok (OArr (slice_lens nk axes) (map (cell_at look) (cart axes))).

  Definition look_dump (look : list nat -> option sval) (sel : list (list nat)) (v : sval) :=
    fun e => if mem_idx e sel then Some v else look e.

  Definition dumpL (look : list nat -> option sval) (key : list kitem) (v : sval)
    : result (list nat -> option sval) :=
    do nk <- norm_key_ref ext key;
    do axes <- axes_of ext nk;
    Ok (look_dump look (cart axes) v).

  (* ---------- FileArray: the file of external position e is number ravel ext e ---------- *)
  Definition lookF (s : stF E) : list nat -> option sval := fun e => lookupF E (key_to_file g e) s.
  Definition absF (s : stF E) : list cell := abs_of (lookF s).
  (* representation invariant: every file holds a value of the internal shape *)
  Definition invF (s : stF E) : Prop := forall i v, In (i, v) s -> length v = prod int.

  (* ---------- DictArray ---------- *)
  Definition lookD (d : stD E) : list nat -> option sval := fun e => dict_get E e d.
  Definition absD (d : stD E) : list cell := abs_of (lookD d).
  (* representation invariant: values have the internal shape, keys are valid external positions, keys are unique *)
  Definition invD (d : stD E) : Prop :=
    (forall e v, In (e, v) d -> length v = prod int /\ in_bounds ext e = true) /\ NoDup (map fst d).

  (* ---------- operation sequences ---------- *)
  Definition valid_ops (ops : list (op E)) : bool := forallb (valid_op E g) ops.

  (* outputs of two backends agree: equal, or both are the backend's exception of get_from_index on a missing
     element (m1 / m2) *)
  Definition out_agree (m1 m2 : err) (o1 o2 : out E) : Prop := o1 = o2 \/ (o1 = OErr m1 /\ o2 = OErr m2).

  (* the external positions a dump key selects (None: the key is rejected) *)
  Definition selected (key : list kitem) : option (list (list nat)) :=
    match norm_key_ref ext key with
    | Ok nk => match axes_of ext nk with Ok axes => Some (cart axes) | Err _ => None end
    | Err _ => None
    end.

  (* the value written last to external position e by a sequence of operations (acc: what was there before) *)
  Fixpoint written (ops : list (op E)) (acc : option sval) (e : list nat) : option sval :=
    match ops with
    | [] => acc
    | Dump key v :: t =>
        written t (match selected key with
                   | Some sel => if mem_idx e sel then Some v else acc
                   | None => acc
                   end) e
    | _ :: t => written t acc e
    end.
End Spec.
