(* Model/SubPipe.v - Pipeline.subpipeline / _find_nodes_between and the sequential Pipeline.map of a pipeline
   without MapSpecs (C11).

   WHAT IS MODELLED
     Pipeline.subpipeline(inputs, output_names) incl. node_mapping lookups, _find_nodes_between
       (descendants-of-inputs intersect ancestors-of-outputs; only used without output_names), _find_required_nodes
       (with output_names: the functions the outputs depend on, cut at the provided names), dropping at once, the
       restoration of lost defaults, and the final checks (requested outputs must survive; new root arguments must
       be provided or keep a default)
     prepare_run: _flatten_scopes (identity), subpipeline(set(inputs), output_names) when output_names is given
       or auto_subpipeline, _validate_complete_inputs
     run_map for scalar-only pipelines (storage="dict", parallel=False): every function of the (sub)pipeline once,
       generation by generation, arguments by _func_kwargs (bound > inputs > stored outputs > defaults)
   NOT MODELLED: MapSpecs / arrays (C01), storage back-ends, executors, run folders, caches, resources, scopes.
   The specification side (`needed_set`, `computable`) is written from the property text with Pipe.needed. *)
From Verif Require Import Base.Prelude Base.StrOrd Base.Graph Model.Pipe.

(* node_mapping[name]: the graph node of an output name (its function) or of a root argument (itself) *)
Definition node_of (p : pipeline) (n : str) : result str :=
  match producer p n with
  | Some f => Ok (fid f)
  | None => if mem_str n (root_arg_names p) then Ok n else Err KeyError
  end.

(* _find_nodes_between(graph, input_nodes, output_nodes) *)
Definition between (g : graph) (ins outs : list str) : list str :=
  let from_inputs := flat_map (descendants g) ins in
  let to_outputs := flat_map (ancestors g) outs ++ outs in
  inter_str from_inputs to_outputs.

(* leaf_nodes: functions without successors *)
Definition leaf_fids (p : pipeline) : list str :=
  filter (fun n => match succs (graph_of p) n with [] => true | _ => false end) (map fid p).

Definition keep (p : pipeline) (b : list str) : pipeline := filter (fun f => mem_str (fid f) b) p.

(* _find_required_nodes(graph, provided, output_nodes) (repaired code): the ancestors of the output nodes in the
   graph WITHOUT the edges all of whose names are provided - an edge (n -> f) stays iff f reads, through an unbound
   parameter that is not provided, the node n *)
Definition cut_graph (p : pipeline) (I : list str) : graph :=
  {| nodes := nodes (graph_of p);
     edges := flat_map (fun f => map (fun n => (n, fid f))
                                     (dedup (flat_map (fun cur => if mem_str cur I then []
                                                                  else match dep_node p f cur with Some n => [n] | None => [] end)
                                                      (pnames f)))) p |}.
Definition required (p : pipeline) (I outs : list str) : list str :=
  flat_map (ancestors (cut_graph p I)) outs ++ outs.

(* `for arg in root_args: if arg in self.defaults and arg not in pipeline.defaults: pipeline.update_defaults(...)`:
   a root argument of the sub-pipeline keeps the default it has in the full pipeline; update_defaults stores it in
   every function that has the parameter unbound *)
Definition lost_defaults (p q : pipeline) : alist :=
  flat_map (fun r => match pdefault p r with
                     | Some v => if mem_str r (akeys (pdefaults q)) then [] else [(r, v)]
                     | None => []
                     end) (root_arg_names q).
Definition with_defaults (extra : alist) (f : pfunc) : pfunc :=
  mkf (fname f) (outs f) (params f)
      (dflt f ++ filter (fun kv => mem_str (fst kv) (pnames f) && negb (ahas (bound f) (fst kv))) extra)
      (bound f) (cached f).

(* Pipeline.subpipeline(inputs=I, output_names=S); S = None means "all leaf nodes".  Repaired code: with
   output_names the kept functions are the required ones (not descendants(inputs) & ancestors(outputs)), the
   other functions are dropped at once (one validation of the result), lost defaults are restored. *)
Definition subpipeline (p : pipeline) (I : list str) (S : option (list str)) : result pipeline :=
  do ins <- mapM (node_of p) I;
  do outs <- match S with Some l => mapM (node_of p) l | None => Ok (leaf_fids p) end;
  let b := match S with
           | Some _ => required p I outs
           | None => between (graph_of p) ins outs
           end in
  let q := keep p b in
  if negb (consistent_defaults q) then Err ValueError          (* pipeline._validate() *)
  else
    let p' := map (with_defaults (lost_defaults p q)) q in
    if match S with Some l => negb (forallb (is_output p') l) | None => false end
    then Err ValueError                                (* a requested output did not survive *)
    else
      let wd := inter_str (akeys (pdefaults p')) (akeys (pdefaults p)) in
      if forallb (fun r => mem_str r wd || mem_str r I) (root_arg_names p')
      then Ok p'
      else Err ValueError.                             (* "it would require {new_root_args}" *)

(* _validate_complete_inputs(pipeline, inputs, provided_outputs=selected).  Repaired code: when the pipeline was
   selected from the inputs (output_names / auto_subpipeline), the outputs of its multi-output functions are not
   counted as extra inputs (one output of a kept tuple function may be provided; _func_kwargs prefers the input) *)
Definition overridable (p : pipeline) : list str := flat_map (fun f => if multi f then outs f else []) p.
Definition validate_complete_inputs (p : pipeline) (inputs : alist) (selected : bool) : result unit :=
  let roots := root_arg_names p in
  let given := akeys inputs ++ akeys (pdefaults p) in
  if negb (subset_str roots given) then Err ValueError           (* Missing inputs *)
  else if negb (subset_str (if selected then diff_str given (overridable p) else given) roots)
  then Err ValueError                                             (* Got extra inputs *)
  else Ok tt.

Section Map.
  Variable body : str -> alist -> result str.
  Variable pick : str -> str -> str.

  (* _func_kwargs + PipeFunc.__call__ for one function; store = outputs computed so far *)
  Definition map_args (p : pipeline) (inputs store : alist) (f : pfunc) : result alist :=
    mapM (fun po : str * str =>
            let (cur, orig) := po in
            do v <- match aget (bound f) cur with
                    | Some b => Ok b
                    | None =>
                        match aget inputs cur with
                        | Some v => Ok v
                        | None =>
                            if is_output p cur
                            then match aget store cur with Some v => Ok v | None => Err KeyError end
                            else match pdefault p cur with Some d => Ok d | None => Err ValueError end
                        end
                    end;
            Ok (orig, v)) (params f).

  Definition map_step (p : pipeline) (inputs : alist) (acc : result (alist * list call)) (n : str)
    : result (alist * list call) :=
    do sl <- acc;
    let (store, lg) := sl in
    match node_func p n with
    | None => Ok (store, lg)
    | Some f =>
        do args <- map_args p inputs store f;
        do r <- body (fname f) args;
        Ok (fold_left (fun s o => aset s o (route pick f o r)) (outs f) store, lg ++ [(fname f, args)])
    end.

  (* run_map on a validated scalar-only pipeline: generation by generation *)
  Definition run_generations (p : pipeline) (inputs : alist) : result (alist * list call) :=
    match topo_generations (fgraph p) with
    | None => Err OtherError                       (* networkx raises NetworkXUnfeasible *)
    | Some layers => fold_left (map_step p inputs) (concat layers) (Ok ([], []))
    end.

  (* Pipeline.map(inputs, output_names=S, auto_subpipeline=auto, storage="dict", parallel=False):
     all results of the (sub)pipeline and the calls made *)
  Definition map_run (p : pipeline) (inputs : alist) (S : option (list str)) (auto : bool)
    : result (alist * list call) :=
    let selected := auto || match S with Some _ => true | None => false end in
    do p' <- (if selected then subpipeline p (akeys inputs) S else Ok p);
    do _ <- validate_complete_inputs p' inputs selected;
    run_generations p' inputs.
End Map.

(* ---------- a second map into the run folder of a first one (cleanup=False) ----------
   RunInfo.create(..., cleanup=False) -> _compare_to_previous_run_info: the new inputs must equal the inputs of
   the previous run (same names, same values) and the defaults of the (sub)pipeline must equal the stored ones
   (shapes / MapSpecs are trivially equal for scalar pipelines); otherwise ValueError.  Then run_map: a function
   all of whose outputs already exist in the folder is NOT executed, its stored outputs are used. *)
Definition dict_eqb (a b : alist) : bool :=
  (length (dedup (akeys a)) =? length (dedup (akeys b)))
  && forallb (fun k => match aget a k, aget b k with Some x, Some y => str_eqb x y | _, _ => false end) (akeys a)
  && forallb (fun k => ahas a k) (akeys b).
(* Pipeline.defaults as a dict (a later entry wins) *)
Definition defaults_dict (p : pipeline) : alist := map (fun k => (k, match pdefault p k with Some v => v | None => [] end))
                                                      (dedup (akeys (pdefaults p))).

Section Map2.
  Variable body : str -> alist -> result str.
  Variable pick : str -> str -> str.

  Definition map_step_resume (p : pipeline) (inputs : alist) (acc : result (alist * list call)) (n : str)
    : result (alist * list call) :=
    do sl <- acc;
    let (store, lg) := sl in
    match node_func p n with
    | None => Ok (store, lg)
    | Some f =>
        do args <- map_args p inputs store f;              (* _func_kwargs runs before _execute_single *)
        if forallb (ahas store) (outs f) then Ok (store, lg)     (* all outputs exist: loaded, not executed *)
        else
          do r <- body (fname f) args;
          Ok (fold_left (fun s o => aset s o (route pick f o r)) (outs f) store, lg ++ [(fname f, args)])
    end.

  Definition run_generations_from (p : pipeline) (inputs files : alist) : result (alist * list call) :=
    match topo_generations (fgraph p) with
    | None => Err OtherError
    | Some layers => fold_left (map_step_resume p inputs) (concat layers) (Ok (files, []))
    end.

  Definition prepare (p : pipeline) (inputs : alist) (S : option (list str)) (auto : bool) : result pipeline :=
    let selected := auto || match S with Some _ => true | None => false end in
    do p' <- (if selected then subpipeline p (akeys inputs) S else Ok p);
    do _ <- validate_complete_inputs p' inputs selected;
    Ok p'.

  (* map(inputs1, F, output_names=S1, auto_subpipeline=a1) ; map(inputs2, F, ..., cleanup=False).
     Result: the observation of the first run and, when it succeeded, of the second one (its results restricted
     to the outputs of its own (sub)pipeline, and the calls it made) *)
  Definition map_twice (p : pipeline) (in1 : alist) (S1 : option (list str)) (a1 : bool)
                       (in2 : alist) (S2 : option (list str)) (a2 : bool)
    : result (alist * list call) * option (result (alist * list call)) :=
    match prepare p in1 S1 a1 with
    | Err e => (Err e, None)
    | Ok p1 =>
        match run_generations_from p1 in1 [] with
        | Err e => (Err e, None)
        | Ok (files, lg1) =>
            (Ok (files, lg1),
             Some (do p2 <- prepare p in2 S2 a2;
                   if negb (dict_eqb in2 in1) then Err ValueError              (* Inputs do not match previous run *)
                   else if negb (dict_eqb (defaults_dict p2) (defaults_dict p1)) then Err ValueError
                   else
                     do r <- run_generations_from p2 in2 files;
                     Ok (filter (fun kv => is_output p2 (fst kv)) (fst r), snd r)))
        end
    end.
End Map2.

(* ---------- specification (property text) ---------- *)
(* provided names as keywords (the values are irrelevant for which functions are needed) *)
Definition kw_of (I : list str) : alist := map (fun n => (n, [])) I.

(* the functions that lie on a dependency path to S and are not cut off by I *)
Definition needed_set (p : pipeline) (I S : list str) : list str :=
  dedup (map fid (flat_map (needed_top p (kw_of I)) S)).

Definition sufficientb (p : pipeline) (kw : alist) (o : str) : bool :=
  forallb (fun f => forallb (fun cur => match source_of p kw f cur with SMissing => false | _ => true end) (pnames f))
          (needed_top p kw o).

(* S is computable from I (using defaults and bound values) *)
Definition computableb (p : pipeline) (I S : list str) : bool :=
  forallb (fun o => is_output p o && sufficientb p (kw_of I) o) S.

(* every provided name is read by a needed function *)
Definition all_readb (p : pipeline) (I S : list str) : bool :=
  subset_str I (flat_map (kw_names_read p (kw_of I)) S).

(* the needed functions agree on the defaults of every intermediate name that no needed function produces (a
   PROVIDED intermediate name: its producer is cut off and the name becomes a root argument of the sub-pipeline).
   Where this fails Pipeline._validate refuses the sub-pipeline (known finding c11-inconsistent-dead-defaults). *)
Definition dead_defaults_okb (p : pipeline) (I S : list str) : bool :=
  let nd := flat_map (needed_top p (kw_of I)) S in
  let d := flat_map (fun f => filter (fun kv => negb (ahas (bound f) (fst kv)) && is_output p (fst kv)
                                                && negb (existsb (fun h => mem_str (fst kv) (outs h)) nd)) (dflt f)) nd in
  forallb (fun kv => forallb (fun kv' => negb (str_eqb (fst kv) (fst kv')) || str_eqb (snd kv) (snd kv')) d) d.
