(* Model of pipefunc/sweep.py (with the `fix:` commits for C17 applied): Sweep.generate / list / __len__ /
   product / filtered_sweep / add_derivers, MultiSweep (generate, __len__, filtered_sweep, +, combine),
   _combined_exclude, _combine_dicts, _check_dim_lengths and the counting loop of count_sweep.
   Definitions only (proofs are in Proofs/SweepFacts.v).

   Values are `sx` (Python int / str / tuple).  A Python dict is an association list in insertion order whose
   keys are pairwise different (`dset` = `d[k] = v` keeps the position of an existing key).  User callables
   (derivers, exclude) are arbitrary total functions `combo -> result _`; `Err e` models a raise. *)
From Verif Require Import Base.Prelude Base.Index.

Definition val := sx.
Definition dict (V : Type) := list (str * V).
Definition combo := dict val.

Fixpoint dget {V} (d : dict V) (k : str) : option V :=
  match d with
  | [] => None
  | (k', v) :: t => if str_eqb k k' then Some v else dget t k
  end.
Definition dhas {V} (d : dict V) (k : str) : bool := match dget d k with Some _ => true | None => false end.

(* d[k] = v *)
Fixpoint dset {V} (d : dict V) (k : str) (v : V) : dict V :=
  match d with
  | [] => [(k, v)]
  | (k', v') :: t => if str_eqb k k' then (k', v) :: t else (k', v') :: dset t k v
  end.
(* d.setdefault(k, v) *)
Definition dsetdefault {V} (d : dict V) (k : str) (v : V) : dict V := if dhas d k then d else d ++ [(k, v)].
(* d.update(e) ; dict(pairs) ; {k: v for ...} *)
Definition dupdate {V} (d e : dict V) : dict V := fold_left (fun acc kv => dset acc (fst kv) (snd kv)) e d.
Definition dict_of {V} (l : list (str * V)) : dict V := dupdate [] l.
Definition dkeys {V} (d : dict V) : list str := map fst d.
(* d[k] with KeyError *)
Definition dgetE {V} (d : dict V) (k : str) : result V := match dget d k with Some v => Ok v | None => Err KeyError end.

(* an entry of `dims`: a str or a tuple of str *)
Inductive dimg := DStr (k : str) | DTup (ks : list str).
Definition at_least_tuple (g : dimg) : list str := match g with DStr k => [k] | DTup ks => ks end.

Definition deriver := combo -> result val.
Definition predicate := combo -> result bool.

Record sweep := {
  items : dict (list val);
  dims : option (list dimg);
  excl : option predicate;
  consts : option combo;
  ders : option (dict deriver) }.

Definition empty_sweep : sweep := {| items := []; dims := None; excl := None; consts := None; ders := None |}.

(* set(self.dims) == self.items.keys() : a tuple entry never equals a (str) key *)
Definition dims_is_keyset (d : list dimg) (ks : list str) : bool :=
  forallb (fun g => match g with DStr k => mem_str k ks | DTup _ => false end) d
  && forallb (fun k => existsb (fun g => match g with DStr k' => str_eqb k k' | DTup _ => false end) d) ks.

(* self.dims is None or set(self.dims) == self.items.keys() *)
Definition full_branch (s : sweep) : bool :=
  match dims s with None => true | Some d => dims_is_keyset d (dkeys (items s)) end.

(* itertools.product( *ls ) *)
Fixpoint cart {A} (ls : list (list A)) : list (list A) :=
  match ls with
  | [] => [[]]
  | l :: t => flat_map (fun x => map (cons x) (cart t)) l
  end.

(* zip( *ls ) *)
Fixpoint zipn {A} (ls : list (list A)) : list (list A) :=
  match ls with
  | [] => []
  | l :: t => match t with
              | [] => map (fun x => [x]) l
              | _ :: _ => map (fun p => fst p :: snd p) (combine l (zipn t))
              end
  end.

(* _check_dim_lengths(seqs, dims) ; seqs[0] on an empty list is an IndexError *)
Definition check_dim_lengths (seqs : list (list val)) : result unit :=
  match seqs with
  | [] => Err IndexError
  | s0 :: _ => if forallb (fun q => length q =? length s0) seqs then Ok tt else Err ValueError
  end.

(* one iteration of `for dim_group in self.dims` in generate *)
Definition group_part (it : dict (list val)) (g : dimg) : result (list combo) :=
  let ks := at_least_tuple g in
  do seqs <- mapM (dgetE it) ks;
  do _ <- check_dim_lengths seqs;
  Ok (map (fun res => dict_of (combine ks res)) (zipn seqs)).

(* {k: v for item in combo for k, v in item.items()} *)
Definition merge_combo (parts : list combo) : combo := dict_of (concat parts).

(* the combinations before constants / derivers / exclude; everything that can raise here raises before the
   first combination is yielded *)
Definition full_base (it : dict (list val)) : list combo :=
  map (fun res => dict_of (combine (dkeys it) res)) (cart (map snd it)).
Definition grouped_base (it : dict (list val)) (d : list dimg) : result (list combo) :=
  do parts <- mapM (group_part it) d; Ok (map merge_combo (cart parts)).
Definition base_combos (s : sweep) : result (list combo) :=
  match dims s with
  | None => Ok (full_base (items s))
  | Some d => if dims_is_keyset d (dkeys (items s)) then Ok (full_base (items s)) else grouped_base (items s) d
  end.

(* for key, value in self.constants.items(): combination.setdefault(key, value) *)
Definition apply_consts (c : combo) (k : option combo) : combo :=
  match k with
  | None => c
  | Some kd => fold_left (fun acc kv => dsetdefault acc (fst kv) (snd kv)) kd c
  end.
(* for key, func in self.derivers.items(): combination[key] = func(combination) *)
Fixpoint apply_ders_l (c : combo) (ds : dict deriver) : result combo :=
  match ds with
  | [] => Ok c
  | (k, f) :: t => do v <- f c; apply_ders_l (dset c k v) t
  end.
Definition apply_ders (c : combo) (ds : option (dict deriver)) : result combo :=
  match ds with None => Ok c | Some l => apply_ders_l c l end.
(* body of the generate loops: Some c' = yielded, None = excluded *)
Definition finish (s : sweep) (c : combo) : result (option combo) :=
  do c2 <- apply_ders (apply_consts c (consts s)) (ders s);
  match excl s with
  | None => Ok (Some c2)
  | Some e => do b <- e c2; Ok (if b then None else Some c2)
  end.
Fixpoint finish_all (s : sweep) (cs : list combo) : result (list combo) :=
  match cs with
  | [] => Ok []
  | c :: t =>
      do r <- finish s c;
      do rest <- finish_all s t;
      Ok (match r with Some c' => c' :: rest | None => rest end)
  end.

(* Sweep.generate / list / __iter__ (fully consumed) *)
Definition generate (s : sweep) : result (list combo) :=
  match items s with
  | [] => Ok []
  | _ :: _ => do b <- base_combos s; finish_all s b
  end.

(* Sweep.__len__ *)
Definition len (s : sweep) : result nat :=
  match items s with
  | [] => Ok 0
  | _ :: _ =>
      match excl s with
      | Some _ => do l <- generate s; Ok (length l)
      | None =>
          let full := prod (map (fun kv => length (snd kv)) (items s)) in
          match dims s with
          | None => Ok full
          | Some d =>
              if dims_is_keyset d (dkeys (items s)) then Ok full
              else
                do ls <- mapM (fun g => match at_least_tuple g with
                                        | [] => Err IndexError
                                        | k :: _ => do l <- dgetE (items s) k; Ok (length l)
                                        end) d;
                Ok (prod ls)
          end
      end
  end.

(* ---------- product ---------- *)
Fixpoint somes {A} (l : list (option A)) : list A :=
  match l with [] => [] | Some x :: t => x :: somes t | None :: t => somes t end.

Fixpoint any_pred (fs : list predicate) (c : combo) : result bool :=
  match fs with
  | [] => Ok false
  | f :: t => do b <- f c; if b then Ok true else any_pred t c
  end.
(* _combined_exclude *)
Definition combined_exclude (fs : list (option predicate)) : option predicate :=
  match somes fs with
  | [] => None
  | [f] => Some f
  | l => Some (any_pred l)
  end.

Fixpoint nodup_str (l : list str) : bool :=
  match l with [] => true | x :: t => negb (mem_str x t) && nodup_str t end.
(* _combine_dicts ; the assert compares the size of the key union with the sum of the sizes *)
Definition combine_dicts {V} (ds : list (option (dict V))) : result (option (dict V)) :=
  match somes ds with
  | [] => Ok None
  | [d] => Ok (Some d)
  | l => if nodup_str (concat (map dkeys l)) then Ok (Some (dict_of (concat l))) else Err AssertionError
  end.

(* one iteration of `for other in others` : accumulated (items, dims).  NB: when the accumulated dims is None
   (self.dims is None) the dims of `other` are ignored (known finding product-loses-zip). *)
Definition product_step (acc : dict (list val) * option (list dimg)) (o : sweep)
  : dict (list val) * option (list dimg) :=
  let (it, dm) := acc in
  (dupdate it (items o),
   match dm with
   | None => None
   | Some d => Some (d ++ match dims o with Some od => od | None => map DStr (dkeys (items o)) end)
   end).

Definition no_items (o : sweep) : bool := match items o with [] => true | _ :: _ => false end.

(* the part of product after the emptiness test *)
Definition product_body (s : sweep) (others : list sweep) : result sweep :=
  let (it, dm) := fold_left product_step others (items s, dims s) in
  let ex := combined_exclude (map excl (s :: others)) in
  do k <- combine_dicts (map consts (s :: others));
  do d <- combine_dicts (map ders (s :: others));
  Ok {| items := it; dims := dm; excl := ex; consts := k; ders := d |}.

(* `if not self.items or any(not o.items for o in others): return Sweep({})` *)
Definition product (s : sweep) (others : list sweep) : result sweep :=
  if existsb no_items (s :: others) then Ok empty_sweep else product_body s others.

(* add_derivers( **derivers ) : replaces the derivers *)
Definition add_derivers (s : sweep) (d : dict deriver) : sweep :=
  {| items := items s; dims := dims s; excl := excl s; consts := consts s; ders := Some d |}.

(* ---------- filtered_sweep ---------- *)
(* {k: combo[k] for k in keys} then tuple(.values()) *)
Definition project (keys : list str) (c : combo) : result (list val) :=
  do vs <- mapM (dgetE c) keys; Ok (map snd (dict_of (combine keys vs))).

(* the loop `for combo in self.generate(): ...` with the generator consumed lazily *)
Fixpoint project_all (s : sweep) (keys : list str) (cs : list combo) : result (list (list val)) :=
  match cs with
  | [] => Ok []
  | c :: t =>
      do r <- finish s c;
      match r with
      | None => project_all s keys t
      | Some c' => do p <- project keys c'; do rest <- project_all s keys t; Ok (p :: rest)
      end
  end.

Definition vals_eqb := list_eqb sx_eqb.
Fixpoint mem_vals (x : list val) (l : list (list val)) : bool :=
  match l with [] => false | y :: t => vals_eqb x y || mem_vals x t end.
(* insertion into the ordered set (a dict with None values) *)
Fixpoint dedupe_acc (seen : list (list val)) (l : list (list val)) : list (list val) :=
  match l with
  | [] => []
  | x :: t => if mem_vals x seen then dedupe_acc seen t else x :: dedupe_acc (x :: seen) t
  end.
Definition dedupe := dedupe_acc [].

(* new_items.setdefault(k, []).append(v) *)
Definition dappend (d : dict (list val)) (k : str) (v : val) : dict (list val) :=
  match dget d k with Some l => dset d k (l ++ [v]) | None => d ++ [(k, [v])] end.
Definition new_items (keys : list str) (oset : list (list val)) : dict (list val) :=
  fold_left (fun d item => fold_left (fun d' kv => dappend d' (fst kv) (snd kv)) (combine keys item) d) oset [].

Definition filtered_dims (s : sweep) (keys : list str) : list dimg :=
  let full := map DStr (filter (fun k => mem_str k keys) (dkeys (items s))) in
  match dims s with
  | None => full
  | Some d =>
      if dims_is_keyset d (dkeys (items s)) then full
      else flat_map (fun g => match g with
                              | DStr k => if mem_str k keys then [DStr k] else []
                              | DTup ks => match filter (fun k => mem_str k keys) ks with
                                           | [] => []
                                           | [k] => [DStr k]
                                           | l => [DTup l]
                                           end
                              end) d
  end.

Definition filtered (s : sweep) (keys : list str) : result sweep :=
  match ders s with
  | Some _ =>
      do tuples <- match items s with
                   | [] => Ok []
                   | _ :: _ => do b <- base_combos s; project_all s keys b
                   end;
      Ok {| items := new_items keys (dedupe tuples); dims := Some [DTup keys];
            excl := None; consts := None; ders := None |}
  | None =>
      if negb (existsb (dhas (items s)) keys) then Ok empty_sweep
      else
        let f := {| items := items s; dims := Some (filtered_dims s keys);
                    excl := excl s; consts := consts s; ders := None |} in
        match excl s with
        | None =>   (* `if self.exclude is None and len(self) == 0: return Sweep({})` *)
            do n <- len s; if n =? 0 then Ok empty_sweep else Ok f
        | Some _ => Ok f
        end
  end.

(* ---------- MultiSweep ---------- *)
Inductive msweep := MLeaf (s : sweep) | MMulti (l : list msweep).

Fixpoint mgenerate (m : msweep) : result (list combo) :=
  match m with
  | MLeaf s => generate s
  | MMulti l =>
      (fix go (l : list msweep) : result (list combo) :=
         match l with
         | [] => Ok []
         | x :: t => do a <- mgenerate x; do b <- go t; Ok (a ++ b)
         end) l
  end.

Fixpoint mlen (m : msweep) : result nat :=
  match m with
  | MLeaf s => len s
  | MMulti l =>
      (fix go (l : list msweep) : result nat :=
         match l with
         | [] => Ok 0
         | x :: t => do a <- mlen x; do b <- go t; Ok (a + b)
         end) l
  end.

Fixpoint mfiltered (m : msweep) (keys : list str) : result msweep :=
  match m with
  | MLeaf s => do f <- filtered s keys; Ok (MLeaf f)
  | MMulti l =>
      do l' <- (fix go (l : list msweep) : result (list msweep) :=
                  match l with
                  | [] => Ok []
                  | x :: t => do a <- mfiltered x keys; do b <- go t; Ok (a :: b)
                  end) l;
      Ok (MMulti l')
  end.

(* a + b : Sweep.__add__ builds MultiSweep(a, b); MultiSweep.__add__ = combine (extend / append) *)
Definition madd (a b : msweep) : msweep :=
  match a with
  | MLeaf _ => MMulti [a; b]
  | MMulti l => match b with MMulti l' => MMulti (l ++ l') | MLeaf _ => MMulti (l ++ [b]) end
  end.

(* ---------- count_sweep (use_pandas=False), given (dependency, root_args) pairs ---------- *)
(* _cnt[key] = _cnt.get(key, 0) + 1 *)
Fixpoint cnt_incr (cnt : list (list val * nat)) (key : list val) : list (list val * nat) :=
  match cnt with
  | [] => [(key, 1)]
  | (k, n) :: t => if vals_eqb key k then (k, n + 1) :: t else (k, n) :: cnt_incr t key
  end.
Fixpoint count_loop (args : list str) (cs : list combo) (cnt : list (list val * nat))
  : result (list (list val * nat)) :=
  match cs with
  | [] => Ok cnt
  | c :: t => do key <- mapM (dgetE c) args; count_loop args t (cnt_incr cnt key)
  end.
Definition count_sweep (deps : list (str * list str)) (cs : list combo)
  : result (list (str * list (list val * nat))) :=
  mapM (fun da => do cnt <- count_loop (snd da) cs []; Ok (fst da, cnt)) deps.
