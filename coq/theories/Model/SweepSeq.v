(* Operation sequences on SHARED sweep objects (C17): Python objects live in a heap, slots refer to them.
   No modelled operation modifies an existing object: a MultiSweep object holds references to its members, and
   MultiSweep.__add__ builds a new MultiSweep (only `combine`, which is not among the modelled operations, works in
   place).
   Definitions only. *)
From Verif Require Import Base.Prelude Base.Index Model.Sweep.

Inductive hobj := HSweep (s : sweep) | HMulti (ms : list nat).
Definition heap := list hobj.

Fixpoint optM' {A B} (f : A -> option B) (l : list A) : option (list B) :=
  match l with
  | [] => Some []
  | x :: t => match f x, optM' f t with Some y, Some ys => Some (y :: ys) | _, _ => None end
  end.

(* the value an object denotes; None when a MultiSweep (transitively) contains itself *)
Fixpoint resolve (fuel : nat) (h : heap) (id : nat) : option msweep :=
  match fuel with
  | 0 => None
  | S f =>
      match nth_error h id with
      | None => None
      | Some (HSweep s) => Some (MLeaf s)
      | Some (HMulti ms) => option_map MMulti (optM' (resolve f h) ms)
      end
  end.
Definition value (h : heap) (id : nat) : option msweep := resolve (S (length h)) h id.

(* fresh objects for a freshly built (Multi)Sweep tree; returns the new heap and the id of the root *)
Fixpoint alloc (m : msweep) (h : heap) : heap * nat :=
  match m with
  | MLeaf s => (h ++ [HSweep s], length h)
  | MMulti l =>
      let hi := (fix go (l : list msweep) (h : heap) : heap * list nat :=
                   match l with
                   | [] => (h, [])
                   | x :: t => let (h1, i) := alloc x h in let (h2, r) := go t h1 in (h2, i :: r)
                   end) l h in
      (fst hi ++ [HMulti (snd hi)], length (fst hi))
  end.

Inductive mop :=
| MProduct (i : nat) (js : list nat)        (* slots[i].product( *slots[js] ) *)
| MAdd (i j : nat)                          (* slots[i] + slots[j] *)
| MFilter (i : nat) (keys : list str)       (* slots[i].filtered_sweep(keys) *)
| MAddDer (i : nat) (d : dict deriver).     (* slots[i].add_derivers( **d ) *)

Inductive step_res :=
| SNew (h : heap) (id : nat)   (* the operation returned the object id (heap possibly modified) *)
| SRaise (e : err)             (* the operation raised *)
| SBad.                        (* not an operation the property speaks about (product / add_derivers on a MultiSweep) *)

Definition slot_obj (h : heap) (slots : list nat) (i : nat) : option (nat * hobj) :=
  match nth_error slots i with
  | None => None
  | Some a => match nth_error h a with Some o => Some (a, o) | None => None end
  end.
Definition slot_sweep (h : heap) (slots : list nat) (i : nat) : option sweep :=
  match slot_obj h slots i with Some (_, HSweep s) => Some s | _ => None end.

Definition step (h : heap) (slots : list nat) (op : mop) : step_res :=
  match op with
  | MProduct i js =>
      match slot_sweep h slots i, optM' (slot_sweep h slots) js with
      | Some s, Some os =>
          match product s os with
          | Ok p => SNew (h ++ [HSweep p]) (length h)
          | Err e => SRaise e
          end
      | _, _ => SBad
      end
  | MAdd i j =>
      match slot_obj h slots i, slot_obj h slots j with
      | Some (a, HSweep _), Some (b, _) => SNew (h ++ [HMulti [a; b]]) (length h)     (* MultiSweep(self, other) *)
      (* MultiSweep( *self.sweeps ).combine(other): a NEW object; extend with the members / append the object *)
      | Some (a, HMulti ms), Some (b, HMulti ms') => SNew (h ++ [HMulti (ms ++ ms')]) (length h)
      | Some (a, HMulti ms), Some (b, HSweep _) => SNew (h ++ [HMulti (ms ++ [b])]) (length h)
      | _, _ => SBad
      end
  | MFilter i keys =>
      match slot_obj h slots i with
      | Some (a, _) =>
          match value h a with
          | Some m => match mfiltered m keys with
                      | Ok f => let (h', id) := alloc f h in SNew h' id
                      | Err e => SRaise e
                      end
          | None => SBad
          end
      | None => SBad
      end
  | MAddDer i d =>
      match slot_sweep h slots i with
      | Some s => SNew (h ++ [HSweep (add_derivers s d)]) (length h)
      | None => SBad
      end
  end.
