(* Declarative statement of C17, written from the property text against the Cartesian product of index
   vectors (Base.Index.all_indices = row-major enumeration, each index vector exactly once).
   Nothing here calls the model functions generate / len / product / filtered / base_combos; only the
   dict vocabulary (dget, dset, dkeys) and the record `sweep` are shared. *)
From Verif Require Import Base.Prelude Base.Index Model.Sweep.

(* the zipped groups: every key on its own when dims is omitted *)
Definition groups (s : sweep) : list (list str) :=
  match dims s with
  | None => map (fun k => [k]) (dkeys (items s))
  | Some d => map at_least_tuple d
  end.

Definition col (it : dict (list val)) (k : str) : list val :=
  match dget it k with Some l => l | None => [] end.
(* length of a zipped group = length of (each of) its value lists *)
Definition glen (it : dict (list val)) (g : list str) : nat :=
  match g with [] => 0 | k :: _ => length (col it k) end.

(* well-formed: items is a dict, the groups are non-empty, pairwise disjoint, name items, and the value
   lists zipped together have equal lengths *)
Definition wf_group (it : dict (list val)) (g : list str) : bool :=
  negb (match g with [] => true | _ => false end)
  && forallb (fun k => dhas it k && (length (col it k) =? glen it g)) g.
Definition wf_groups (it : dict (list val)) (gs : list (list str)) : bool :=
  nodup_str (dkeys it) && nodup_str (concat gs) && forallb (wf_group it) gs.
Definition opt_keys {V} (d : option (dict V)) : list str := match d with None => [] | Some l => dkeys l end.
Definition wf_sweep (s : sweep) : bool :=
  wf_groups (items s) (groups s) && nodup_str (opt_keys (consts s)) && nodup_str (opt_keys (ders s)).

(* "dims ... lists its groups in item order": the keys named by the groups, read left to right, appear in
   this order among the item keys *)
Fixpoint subseq_str (a b : list str) : bool :=
  match a, b with
  | [], _ => true
  | _ :: _, [] => false
  | x :: a', y :: b' => if str_eqb x y then subseq_str a' b' else subseq_str a b'
  end.
Definition in_item_order (s : sweep) : bool := subseq_str (concat (groups s)) (dkeys (items s)).

(* the combination selected by one index vector: key k of group j gets items[k][idx_j] *)
Definition combo_at (it : dict (list val)) (gs : list (list str)) (idx : list nat) : combo :=
  concat (map (fun gi => map (fun k => (k, nth (snd gi) (col it k) (SL []))) (fst gi)) (combine gs idx)).

(* Cartesian product of the zipped groups, row-major; an item dict without keys has no combinations
   (documented: "If there are no items, return an empty generator") *)
Definition spec_base (s : sweep) : list combo :=
  match items s with
  | [] => []
  | _ :: _ => map (combo_at (items s) (groups s)) (all_indices (map (glen (items s)) (groups s)))
  end.

(* constants are added where the key is absent (setdefault) *)
Definition spec_consts (c : combo) (k : option combo) : combo :=
  match k with
  | None => c
  | Some kd => c ++ filter (fun kv => negb (mem_str (fst kv) (dkeys c))) kd
  end.
(* derivers are applied in order, each one seeing the result of the previous ones *)
Fixpoint spec_derive (c : combo) (ds : dict deriver) : result combo :=
  match ds with
  | [] => Ok c
  | (k, f) :: t => do v <- f c; spec_derive (dset c k v) t
  end.
(* Some c' : kept ; None : excluded *)
Definition spec_finish (s : sweep) (c : combo) : result (option combo) :=
  do c2 <- match ders s with None => Ok (spec_consts c (consts s)) | Some l => spec_derive (spec_consts c (consts s)) l end;
  do b <- match excl s with None => Ok false | Some e => e c2 end;
  Ok (if b then None else Some c2).

(* the documented combination list; Err when a user callable raises *)
Definition spec_list (s : sweep) : result (list combo) :=
  do l <- mapM (spec_finish s) (spec_base s); Ok (somes l).

(* ---------- combinations as finite maps, lists up to order ---------- *)
Definition combo_eqb (a b : combo) : bool :=
  (length a =? length b)
  && forallb (fun kv => match dget b (fst kv) with Some v => sx_eqb v (snd kv) | None => false end) a.
Definition combos_eqb := list_eqb combo_eqb.

Fixpoint remove_first (c : combo) (l : list combo) : option (list combo) :=
  match l with
  | [] => None
  | x :: t => if combo_eqb c x then Some t
              else match remove_first c t with Some t' => Some (x :: t') | None => None end
  end.
Fixpoint combos_perm_eqb (a b : list combo) : bool :=
  match a with
  | [] => match b with [] => true | _ => false end
  | x :: a' => match remove_first x b with Some b' => combos_perm_eqb a' b' | None => false end
  end.

(* ---------- product ---------- *)
(* [a ∪ b ∪ ... | a ∈ l1, b ∈ l2, ...] in row-major order *)
Fixpoint cart_union (ls : list (list combo)) : list combo :=
  match ls with
  | [] => [[]]
  | l :: t => flat_map (fun a => map (fun r => a ++ r) (cart_union t)) l
  end.

(* every key a combination of s can carry *)
Definition combo_keys (s : sweep) : list str :=
  concat (groups s) ++ opt_keys (consts s) ++ opt_keys (ders s).
(* every name the operand mentions *)
Definition all_keys (s : sweep) : list str := dkeys (items s) ++ opt_keys (consts s) ++ opt_keys (ders s).

(* ---------- filtered_sweep ---------- *)
Definition proj (keys : list str) (c : combo) : combo :=
  map (fun k => (k, match dget c k with Some v => v | None => SL [] end)) keys.
Fixpoint mem_combo (c : combo) (l : list combo) : bool :=
  match l with [] => false | x :: t => combo_eqb c x || mem_combo c t end.
Fixpoint distinct (l : list combo) : list combo :=
  match l with
  | [] => []
  | x :: t => if mem_combo x t then distinct t else x :: distinct t
  end.
Fixpoint nodup_combos (l : list combo) : bool :=
  match l with [] => true | x :: t => negb (mem_combo x t) && nodup_combos t end.
Definition same_set (a b : list combo) : bool :=
  forallb (fun x => mem_combo x b) a && forallb (fun x => mem_combo x a) b.

Fixpoint nodup_vals (l : list val) : bool :=
  match l with [] => true | x :: t => negb (existsb (sx_eqb x) t) && nodup_vals t end.

(* ---------- count_sweep ---------- *)
(* number of combinations whose root-argument tuple is key *)
Definition tuple_of (args : list str) (c : combo) : list val :=
  map (fun k => match dget c k with Some v => v | None => SL [] end) args.
Definition count_of (args : list str) (cs : list combo) (key : list val) : nat :=
  length (filter (fun c => vals_eqb (tuple_of args c) key) cs).
