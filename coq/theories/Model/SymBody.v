(* The structural user function used by the correspondence harness (harness/mapsym.py):
   a call f(kw) returns  name(p1=<canon v1>,...)  ; with several outputs  out(<o>;<app>)  per output;
   with a return shape, an array of  elem(<base>;j1,j2)  . *)
From Coq Require Import DecimalString.
From Verif Require Import Base.Prelude Base.StrUtil Base.Index Base.NdArr Model.MapSpec Model.MapRun.

Definition dec (n : nat) : str := list_ascii_of_string (NilZero.string_of_uint (Nat.to_uint n)).

Fixpoint chunks {A} (k : nat) (fuel : nat) (l : list A) : list (list A) :=
  match fuel with
  | O => []
  | S fuel' => match l with [] => [] | _ => firstn k l :: chunks k fuel' (skipn k l) end
  end.

(* nested bracket rendering of row-major data of the given shape *)
Fixpoint show_nd (sh : list nat) (d : list str) : str :=
  match sh with
  | [] => match d with [x] => x | _ => s "?" end
  | n :: t => s "[" ++ join (s ",") (map (show_nd t) (chunks (prod t) n d)) ++ s "]"
  end.

Definition canon (v : val) : str :=
  match v with VS x => x | VA a => show_nd (shp a) (dat a) end.

Definition sym_app (f : mfunc) (kw : env) : str :=
  fname f ++ s "(" ++ join (s ",") (map (fun pv => fst pv ++ s "=" ++ canon (snd pv)) kw) ++ s ")".

Definition sym_value (ret : list nat) (base : str) : val :=
  match ret with
  | [] => VS base
  | _ => VA (nd_of_fun ret (fun jj => s "elem(" ++ base ++ s ";" ++ join (s ",") (map dec jj) ++ s ")"))
  end.

Definition sym_body (f : mfunc) (kw : env) : result (list val) :=
  let app := sym_app f kw in
  match fouts f with
  | [_] => Ok [sym_value (fret f) app]
  | os => Ok (map (fun o => sym_value (fret f) (s "out(" ++ o ++ s ";" ++ app ++ s ")")) os)
  end.
