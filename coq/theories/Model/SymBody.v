(* The structural user function used by the correspondence harness (harness/mapsym.py):
   a call f(kw) returns  name(p1=<canon v1>,...)  ; with several outputs  out(<o>;<app>)  per output;
   with a return shape, an array of  elem(<base>;j1,j2)  . *)
From Coq Require Import DecimalString.
From Verif Require Import Base.Prelude Base.StrUtil Base.Index Base.NdArr Model.MapSpec Model.MapRun.

Definition dec (n : nat) : str := list_ascii_of_string (NilZero.string_of_uint (Nat.to_uint n)).

Fixpoint chunks {A} (k : nat) (fuel : nat) (l : list A) : list (list A) :=
  match fuel with
  | O => []
  | S fuel' => match l with [] => [] | _ => firstn k l :: chunks k fuel' (skipn k l) end
  end.

(* nested bracket rendering of row-major data of the given shape *)
Fixpoint show_nd (sh : list nat) (d : list str) : str :=
  match sh with
  | [] => match d with [x] => x | _ => s "?" end
  | n :: t => s "[" ++ join (s ",") (map (show_nd t) (chunks (prod t) n d)) ++ s "]"
  end.

Definition canon (v : val) : str :=
  match v with VS x => x | VA a => show_nd (shp a) (dat a) end.

Definition sym_app (f : mfunc) (kw : env) : str :=
  fname f ++ s "(" ++ join (s ",") (map (fun pv => fst pv ++ s "=" ++ canon (snd pv)) kw) ++ s ")".

Definition sym_value (ret : list nat) (base : str) : val :=
  match ret with
  | [] => VS base
  | _ => VA (nd_of_fun ret (fun jj => s "elem(" ++ base ++ s ";" ++ join (s ",") (map dec jj) ++ s ")"))
  end.

Definition sym_body (f : mfunc) (kw : env) : result (list val) :=
  let app := sym_app f kw in
  match fouts f with
  | [_] => Ok [sym_value (fret f) app]
  | os => Ok (map (fun o => sym_value (fret f) (s "out(" ++ o ++ s ";" ++ app ++ s ")")) os)
  end.

(* ---------- element values that are themselves sequences (harness option fd["wrap"] in {tuple, list, nd}) ----------
   A wrapped function returns, per output / per internal element, the PAIR (base, "#") - as a tuple, a list or a
   1-d object ndarray - instead of the string base.  The model's values are strings, and the harness renders
   sequences as "[a,b]" (mapsym.canon), so the element value is the string  [base,#]  for all three kinds.
   `wf`    : names of the wrapped functions
   `wouts` : their output names; for a parameter produced by a wrapped function the structural function also logs what
             it was handed:  ~e  one element (the pair itself),  ~a<k>  a k-d object array of pairs - this is what tells
             a 1-d array of pairs from an (n, 2) array of strings, which `canon` cannot.
   With wf = wouts = [] this is sym_body. *)
Definition wrap_str (base : str) : str := s "[" ++ base ++ s ",#]".

Definition arg_tag (v : val) : str :=
  match v with VS _ => s "~e" | VA a => s "~a" ++ dec (length (shp a)) end.

Definition sym_app_w (wouts : list str) (f : mfunc) (kw : env) : str :=
  fname f ++ s "("
  ++ join (s ",") (map (fun pv => fst pv ++ (if mem_str (fst pv) wouts then arg_tag (snd pv) else [])
                                  ++ s "=" ++ canon (snd pv)) kw)
  ++ s ")".

Definition sym_value_w (w : bool) (ret : list nat) (base : str) : val :=
  let wr (x : str) := if w then wrap_str x else x in
  match ret with
  | [] => VS (wr base)
  | _ => VA (nd_of_fun ret (fun jj => wr (s "elem(" ++ base ++ s ";" ++ join (s ",") (map dec jj) ++ s ")")))
  end.

Definition sym_body_w (wf wouts : list str) (f : mfunc) (kw : env) : result (list val) :=
  let app := sym_app_w wouts f kw in
  let w := mem_str (fname f) wf in
  match fouts f with
  | [_] => Ok [sym_value_w w (fret f) app]
  | os => Ok (map (fun o => sym_value_w w (fret f) (s "out(" ++ o ++ s ";" ++ app ++ s ")")) os)
  end.
