(* Structural user functions that may RETURN None (harness/symfuncs.py with none_prefix="nil").
   Python None travels through the Coq models as the string "None" (= canon(None)): a single-output function whose
   NAME starts with "nil" returns None; the member of a tuple output whose OUTPUT NAME starts with "nil" is None.
   Everything else is Pipe.Sym.  Used by the C02 and C18 correspondence (a value that is None must be memoised
   like any other value). *)
From Verif Require Import Base.Prelude Model.Pipe.

Definition is_nil (x : str) : bool :=
  match x with
  | c1 :: c2 :: c3 :: _ => Ascii.eqb c1 "n"%char && Ascii.eqb c2 "i"%char && Ascii.eqb c3 "l"%char
  | _ => false
  end.

Module SymN.
  Definition body (f : str) (args : alist) : result str :=
    if is_nil f then Ok (s "None") else Sym.body f args.
  Definition pick (n r : str) : str := if is_nil n then s "None" else Sym.pick n r.
End SymN.
