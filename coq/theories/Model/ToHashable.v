(* Model of pipefunc.cache.to_hashable / _hashable_iterable / _hashable_mapping / _cloudpickle_key
   (pipefunc/cache.py), mirroring the dispatch order of the code: hash(obj) first, then the isinstance chain
   OrderedDict, defaultdict, Counter, dict, set|frozenset, list|tuple, deque, bytearray, array.array,
   numpy.ndarray, pandas Series, pandas DataFrame, cloudpickle fallback.  Every exception the code can raise
   on these values is a TypeError (from sorted(), or UnhashableError which subclasses TypeError).
   Definitions only (facts: Proofs/ToHashableFacts.v). *)
From Verif Require Import Base.Prelude Base.PySort Model.PyVal.

Definition marker : str := s "__CONVERTED__".                      (* _HASH_MARKER *)
Definition conv (t : str) (payload : pyval) : pyval := PTuple [PStr marker; PType t; payload].   (* (m, tp, ...) *)
Definition pair_t (k v : pyval) : pyval := PTuple [k; v].

(* to_hashable on a scalar: hashable scalars are returned unchanged; an unhashable user object goes through the
   whole isinstance chain to the cloudpickle fallback *)
Definition th_atom (fp : bool) (a : atom) : result pyval :=
  if atom_hashable a then Ok (PA a) else
  match a with
  | AOpaque c i p =>
      if fp then (if p then Ok (conv c (PA (ADigest c i)))          (* (m, tp, _cloudpickle_key(obj)) *)
                  else Err TypeError)                               (* raise UnhashableError(obj) from e *)
      else Err TypeError                                            (* raise UnhashableError(obj) *)
  | _ => Err OtherError                     (* a bare numpy.ma.masked constant as an argument: not modelled *)
  end.

(* an item (or element) paired with the (lazily evaluated) conversion of its value *)
Definition item := (pyval * pyval * result pyval)%type.
Definition item_lt (a b : item) : result bool :=                    (* key=lambda kv: _sort_key(kv[0]) *)
  key_lt (fst (fst a)) (fst (fst b)).
Definition elem := (pyval * result pyval)%type.
Definition elem_lt (a b : elem) : result bool := key_lt (fst a) (fst b).      (* key=_sort_key *)

(* _hashable_mapping: items = sorted(mapping.items(), key=lambda kv: _sort_key(kv[0])) if sort else mapping.items();
   tuple((k, to_hashable(v)) for k, v in items) *)
Definition hashable_mapping (sort : bool) (items : list item) : result pyval :=
  do its <- (if sort then py_sort item_lt items else Ok items);
  do out <- mapM (fun it : item => do hv <- snd it; Ok (pair_t (fst (fst it)) hv)) its;
  Ok (PTuple out).

(* _hashable_iterable: items = sorted(iterable, key=_sort_key) if sort else iterable; tuple(to_hashable(item) for item in items) *)
Definition hashable_iterable (sort : bool) (elems : list elem) : result pyval :=
  do es <- (if sort then py_sort elem_lt elems else Ok elems);
  do out <- mapM (fun e : elem => snd e) es;
  Ok (PTuple out).

(* masked arrays: None for a masked element, and the mask bit *)
Definition mfill (x : pyval) : pyval := if is_maskedc x then PNone else x.
Definition mbit (x : pyval) : pyval := PBool (is_maskedc x).

Definition factory_val (f : option str) : pyval := match f with None => PNone | Some n => PType n end.
Definition maxlen_val (m : option Z) : pyval := match m with None => PNone | Some z => PInt z end.

(* dict assignment d[k] = v on an insertion-ordered association list (Series.to_dict / DataFrame.to_dict) *)
Fixpoint dict_set (d : list (atom * atom)) (k v : atom) : list (atom * atom) :=
  match d with
  | [] => [(k, v)]
  | (k', v') :: t => if atom_eq k' k then (k', v) :: t else (k', v') :: dict_set t k v
  end.
Definition to_dict (idx vals : list atom) : list (atom * atom) :=
  fold_left (fun d kv => dict_set d (fst kv) (snd kv)) (combine idx vals) [].

Definition tp_seq (k : seqkind) : str :=
  match k with
  | KTuple => s "tuple" | KList => s "list" | KDeque _ => s "deque" | KBytearray => s "bytearray"
  | KArray _ => s "array" | KNd m _ _ => if m then s "MaskedArray" else s "ndarray"
  end.
Definition tp_set (k : setkind) : str := match k with KSet => s "set" | KFrozenset => s "frozenset" end.
Definition tp_map (k : mapkind) : str :=
  match k with
  | KDict => s "dict" | KODict => s "OrderedDict" | KDefault _ => s "defaultdict" | KCounter => s "Counter"
  end.

Fixpoint to_hashable (fp : bool) (v : pyval) {struct v} : result pyval :=
  if py_hashable v then Ok v                                       (* try: hash(obj) ... else: return obj *)
  else
  match v with
  | PA a => th_atom fp a
  | PMap k kvs =>
      let items : list item := map (fun kv => (fst kv, snd kv, to_hashable fp (snd kv))) kvs in
      match k with
      | KODict => do d <- hashable_mapping false items; Ok (conv (tp_map k) d)
      | KDefault f =>
          (* to_hashable(obj.default_factory): a class or None - hashable, returned as it is *)
          do d <- hashable_mapping true items; Ok (conv (tp_map k) (PTuple [factory_val f; d]))
      | KCounter =>
          (* tuple(sorted(item for item in obj.items() if item[1] != 0)): values NOT converted, zero counts dropped *)
          do its <- py_sort item_lt (filter (fun it : item => negb (is_zero (snd (fst it)))) items);
          Ok (conv (tp_map k) (PTuple (map (fun it : item => pair_t (fst (fst it)) (snd (fst it))) its)))
      | KDict => do d <- hashable_mapping true items; Ok (conv (tp_map k) d)
      end
  | PSetv k l =>
      do d <- hashable_iterable true (map (fun x => (x, to_hashable fp x)) l); Ok (conv (tp_set k) d)
  | PSeq k l =>
      let conv_elems := hashable_iterable false (map (fun x => (x, to_hashable fp x)) l) in
      match k with
      | KTuple | KList => do d <- conv_elems; Ok (conv (tp_seq k) d)
      | KDeque ml => do d <- conv_elems; Ok (conv (tp_seq k) (PTuple [maxlen_val ml; d]))
      | KBytearray => Ok (conv (tp_seq k) (PTuple l))                               (* tuple(obj) *)
      | KArray c => Ok (conv (tp_seq k) (PTuple [PStr c; PTuple l]))                (* (typecode, tuple(obj)) *)
      | KNd msk d sh =>
          (* (obj.shape, obj.dtype.str, items[, mask]): items = the elements in logical C order (obj.flatten()),
             converted for dtype object; for a MaskedArray the masked elements are replaced by None and the mask
             is appended (repairs "object ndarray" and "masked array": the key is hashable) *)
          do items <- (if str_eqb d dt_obj then conv_elems else Ok (PTuple (if msk then map mfill l else l)));
          Ok (conv (tp_seq k) (PTuple ([PTuple (map (fun z => PInt z) sh); PStr d; items]
                                       ++ (if msk then [PTuple (map mbit l)] else []))))
      end
  | PSeries n d idx vals =>
      (* (obj.name, to_hashable(obj.to_dict())) : the dict is unhashable -> dict branch -> sorted items *)
      do dk <- hashable_mapping true (map (fun kv => (PA (fst kv), PA (snd kv), th_atom fp (snd kv))) (to_dict idx vals));
      Ok (conv (s "Series") (PTuple [PA n; conv (s "dict") dk]))
  | PFrame cols idx =>
      (* to_hashable(obj.to_dict("list")) : {column: [values]} - dict branch, each list -> list branch *)
      let d := fold_left (fun d c => dict_set d (fst c) (AInt 0)) cols [] in        (* key order of the dict *)
      let colval (c : atom) : list atom :=
        (fix last (l : list (atom * (str * list atom))) (acc : list atom) : list atom :=
           match l with
           | [] => acc
           | c' :: t => last t (if atom_eq (fst c') c then snd (snd c') else acc)
           end) cols [] in
      do dk <- hashable_mapping true
                 (map (fun kv => let vs := colval (fst kv) in
                                 (PA (fst kv), PList (map PA vs),
                                  do d <- hashable_iterable false (map (fun a => (PA a, th_atom fp a)) vs);
                                  Ok (conv (s "list") d))) d);
      Ok (conv (s "DataFrame") (conv (s "dict") dk))
  end.
