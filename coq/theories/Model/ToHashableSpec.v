(* Declarative side of C15: which values the property speaks about (`supported`, from the property's list of
   types) and the regions used as guards of the partial theorems.  Written against PyVal only - nothing here
   refers to the model of to_hashable (except the marker string constant, needed to say "no forged keys"). *)
From Verif Require Import Base.Prelude Model.PyVal Model.ToHashable.

Fixpoint forall_atoms (p : atom -> bool) (v : pyval) : bool :=
  match v with
  | PA a => p a
  | PSeq _ l => forallb (forall_atoms p) l
  | PSetv _ l => forallb (forall_atoms p) l
  | PMap _ kvs => forallb (fun kv => forall_atoms p (fst kv) && forall_atoms p (snd kv)) kvs
  | PSeries n _ i x => p n && forallb p i && forallb p x
  | PFrame c i => forallb (fun col => p (fst col) && forallb p (snd (snd col))) c && forallb p i
  end.

Fixpoint forall_nodes (q : pyval -> bool) (v : pyval) : bool :=
  q v && match v with
         | PA _ => true
         | PSeq _ l => forallb (forall_nodes q) l
         | PSetv _ l => forallb (forall_nodes q) l
         | PMap _ kvs => forallb (fun kv => forall_nodes q (fst kv) && forall_nodes q (snd kv)) kvs
         | PSeries _ _ _ _ | PFrame _ _ => true
         end.

(* Values containing class objects, the marker string or digests can spell out a converted key
   (("__CONVERTED__", list, (1, 2)) vs [1, 2]); class objects are not in the property's list of types. *)
Definition plain_atom (a : atom) : bool :=
  match a with
  | AType _ | ADigest _ _ => false
  | AStr x => negb (str_eqb x marker)
  | _ => true
  end.
Definition no_forge (v : pyval) : bool := forall_atoms plain_atom v.

Definition supported (v : pyval) : bool := wf v && no_forge v.

Definition has_opaque (v : pyval) : bool :=
  negb (forall_atoms (fun a => match a with AOpaque _ _ _ => false | _ => true end) v).
Definition all_picklable (v : pyval) : bool :=
  forall_atoms (fun a => match a with AOpaque _ _ p => p | _ => true end) v.
(* the conversion can succeed: every object that needs the pickle fallback may use it and can be pickled *)
Definition convertible (fp : bool) (v : pyval) : bool :=
  forall_atoms (fun a => match a with AOpaque _ _ p => fp && p | _ => true end) v.

(* ---------- guard of the partial theorems (the complement is the remaining known finding) ---------- *)
Definition no_pandas (v : pyval) : bool :=
  forall_nodes (fun x => match x with PSeries _ _ _ _ | PFrame _ _ => false | _ => true end) v.
