(* C16 - model of pipefunc/typing.py (is_type_compatible and all its helpers) over an annotation grammar,
   and the reference relation `sub` ("every value of type A is acceptable where B is required, covariant
   generics") written from the property text.

   The model mirrors the code AFTER the repairs made for this property (commits "fix:" in the pipefunc
   worktree: arity of generic arguments, direction for a required Annotated, string metadata, annotated union
   sources, element type of an Array against a plain Annotated, constrained TypeVar target without match).
   Model/TyOrig.v keeps the dispatch of the unrepaired code for the `_refuted` witnesses. *)
From Verif Require Import Base.Prelude.

(* ---------- the grammar ---------- *)
(* classes without type parameters; `issubclass` is the fixed lattice cls_le (bool <= int) *)
Inductive cls := CInt | CBool | CFloat | CStr | CBytes | CNone (* NoneType *) | CObj (* numpy.object_ *).
(* generic classes (bare `list` or parametrised `list[int]`); OODict = collections.OrderedDict <= dict *)
Inductive origin := OList | OSet | OTuple | ODict | OODict | ONdarray | ODtype.
Inductive meta := MStr (x : str) | MInt (z : Z).          (* metadata of Annotated[t, ...] *)

Inductive ty :=
| TCls (c : cls)
| TAny                                   (* typing.Any *)
| TNoAnn                                 (* pipefunc.typing.NoAnnotation: missing annotation *)
| TUnion (l : list ty)                   (* Union[...] / Optional[...] / a | b *)
| TGen (o : origin) (args : list ty)     (* o[args] *)
| TBare (o : origin)                     (* o without arguments *)
| TAnnot (t : ty) (m : list meta)        (* Annotated[t, m...] with plain metadata *)
| TArray (e : ty)                        (* pipefunc.typing.Array[e] = Annotated[ndarray[Any, dtype[object_]], ArrayElementType[e]] *)
| TVar (name : str) (bound : option ty) (constraints : list ty)
| TUnres (x : str).                      (* pipefunc.typing.Unresolvable(x) *)

Definition cls_eqb (a b : cls) : bool :=
  match a, b with
  | CInt, CInt | CBool, CBool | CFloat, CFloat | CStr, CStr | CBytes, CBytes | CNone, CNone | CObj, CObj => true
  | _, _ => false
  end.
Definition origin_eqb (a b : origin) : bool :=
  match a, b with
  | OList, OList | OSet, OSet | OTuple, OTuple | ODict, ODict | OODict, OODict | ONdarray, ONdarray
  | ODtype, ODtype => true
  | _, _ => false
  end.
Definition meta_eqb (a b : meta) : bool :=
  match a, b with
  | MStr x, MStr y => str_eqb x y
  | MInt x, MInt y => Z.eqb x y
  | _, _ => false
  end.

(* issubclass(a, b) *)
Definition cls_le (a b : cls) : bool := match a, b with CBool, CInt => true | _, _ => cls_eqb a b end.
Definition origin_le (a b : origin) : bool := match a, b with OODict, ODict => true | _, _ => origin_eqb a b end.

(* ndarray[Any, dtype[object_]] : the primary type of Array[e] *)
Definition nd_obj : ty := TGen ONdarray [TAny; TGen ODtype [TCls CObj]].

Fixpoint size (t : ty) : nat :=
  match t with
  | TUnion l => S (list_sum (map size l))
  | TGen _ l => S (list_sum (map size l))
  | TAnnot t _ => S (size t)
  | TArray e => 5 + size e              (* S (size nd_obj + size e) *)
  | TVar _ b cs => S (match b with Some x => size x | None => 0 end + list_sum (map size cs))
  | _ => 1
  end.

(* syntactic equality (identity of TypeVar objects: the harness creates one TypeVar per distinct spec) *)
Fixpoint ty_seqb (a b : ty) : bool :=
  let fix go (l1 l2 : list ty) : bool :=
      match l1, l2 with
      | [], [] => true
      | x :: r1, y :: r2 => ty_seqb x y && go r1 r2
      | _, _ => false
      end in
  match a, b with
  | TCls c, TCls d => cls_eqb c d
  | TAny, TAny => true
  | TNoAnn, TNoAnn => true
  | TUnion l1, TUnion l2 => go l1 l2
  | TGen o1 a1, TGen o2 a2 => origin_eqb o1 o2 && go a1 a2
  | TBare o1, TBare o2 => origin_eqb o1 o2
  | TAnnot t1 m1, TAnnot t2 m2 => ty_seqb t1 t2 && list_eqb meta_eqb m1 m2
  | TArray e1, TArray e2 => ty_seqb e1 e2
  | TVar n1 b1 c1, TVar n2 b2 c2 =>
      str_eqb n1 n2
      && match b1, b2 with None, None => true | Some x, Some y => ty_seqb x y | _, _ => false end
      && go c1 c2
  | TUnres x, TUnres y => str_eqb x y
  | _, _ => false
  end.

(* Python's `==` on typing objects: structural, except that Union compares the *sets* of members and
   TypeVars compare by identity *)
Fixpoint ty_eqb (a b : ty) : bool :=
  let fix go (l1 l2 : list ty) : bool :=
      match l1, l2 with
      | [], [] => true
      | x :: r1, y :: r2 => ty_eqb x y && go r1 r2
      | _, _ => false
      end in
  match a, b with
  | TCls c, TCls d => cls_eqb c d
  | TAny, TAny => true
  | TNoAnn, TNoAnn => true
  | TUnion l1, TUnion l2 =>
      forallb (fun x => existsb (fun y => ty_eqb x y) l2) l1
      && forallb (fun y => existsb (fun x => ty_eqb x y) l1) l2
  | TGen o1 a1, TGen o2 a2 => origin_eqb o1 o2 && go a1 a2
  | TBare o1, TBare o2 => origin_eqb o1 o2
  | TAnnot t1 m1, TAnnot t2 m2 => ty_eqb t1 t2 && list_eqb meta_eqb m1 m2
  | TArray e1, TArray e2 => ty_eqb e1 e2
  | TVar _ _ _, TVar _ _ _ => ty_seqb a b
  | TUnres x, TUnres y => str_eqb x y
  | _, _ => false
  end.

(* ---------- the helpers of is_type_compatible, open recursion through `rec` ---------- *)
Definition is_nil {A} (l : list A) : bool := match l with [] => true | _ => false end.
Definition is_any (t : ty) : bool := match t with TAny => true | _ => false end.
Definition is_noann (t : ty) : bool := match t with TNoAnn => true | _ => false end.
Definition is_unres (t : ty) : bool := match t with TUnres _ => true | _ => false end.
Definition is_var (t : ty) : bool := match t with TVar _ _ _ => true | _ => false end.
Definition is_union (t : ty) : bool := match t with TUnion _ => true | _ => false end.

Fixpoint forallb2 {A B} (f : A -> B -> bool) (l1 : list A) (l2 : list B) : bool :=   (* all(f(x,y) for x,y in zip) *)
  match l1, l2 with
  | x :: r1, y :: r2 => f x y && forallb2 f r1 r2
  | _, _ => true
  end.

(* bounded iteration of an open-recursive definition; every model/spec function below is
   `iterF st (S (size a + size b))`, the recursive calls being on pairs of strictly smaller total size *)
Fixpoint iterF (st : (ty -> ty -> bool) -> ty -> ty -> bool) (fuel : nat) : ty -> ty -> bool :=
  match fuel with
  | 0 => fun _ _ => false
  | S n => st (iterF st n)
  end.

Section Step.
  Variable rec : ty -> ty -> bool.       (* the recursive calls of is_type_compatible *)

  (* _check_identical_or_any *)
  Definition check_identical_or_any (a b : ty) : bool :=
    if is_unres a || is_unres b then true
    else ty_eqb a b || is_any b || is_noann a || is_noann b.

  (* _is_typevar_compatible : None = "required type is not a TypeVar" *)
  Definition typevar_compatible (a b : ty) : option bool :=
    match b with
    | TVar _ bound cs =>
        if is_nil cs && match bound with None => true | Some _ => false end then Some true
        else if negb (is_nil cs) && existsb (fun c => rec a c) cs then Some true
        else match bound with Some bd => Some (rec a bd) | None => Some false end
    | _ => None
    end.

  (* _handle_union_types *)
  Definition handle_union (a b : ty) : option bool :=
    let a' := match a with TAnnot (TUnion l) _ => TUnion l | _ => a end in
    match a' with
    | TUnion l => Some (forallb (fun t => rec t b) l)
    | _ => match b with
           | TUnion l => Some (existsb (fun t => rec a' t) l)
           | _ => None
           end
    end.

  (* get_args of an Annotated: (primary type, _extract_array_element_type(metadata)) *)
  Definition annot_parts (t : ty) : option (ty * option ty) :=
    match t with
    | TAnnot p _ => Some (p, None)
    | TArray e => Some (nd_obj, Some e)
    | _ => None
    end.

  (* _compare_generic_type_origins (get_origin(a) or a) (get_origin(b) or b): issubclass for classes
     (typing.Any and NoAnnotation are classes too), `==` for anything else *)
  Definition origins_compatible (a b : ty) : bool :=
    match a, b with
    | TCls c, TCls d => cls_le c d
    | TGen o _, TGen p _ | TGen o _, TBare p | TBare o, TGen p _ | TBare o, TBare p => origin_le o p
    | TAny, TAny => true
    | TNoAnn, TNoAnn => true
    | TVar _ _ _, TVar _ _ _ => ty_seqb a b
    | TUnres x, TUnres y => str_eqb x y
    | TUnion _, TUnion _ => true
    | _, _ => false
    end.

  Definition args_of (t : ty) : list ty := match t with TGen _ l => l | _ => [] end.

  (* _compare_generic_type_args *)
  Definition compare_args (inc req : list ty) : bool :=
    if is_nil req || is_nil inc then true
    else if negb (length inc =? length req) then false
    else forallb2 rec inc req.

  (* _compare_annotated_types *)
  Definition compare_annotated (a b : ty) (p1 : ty) (e1 : option ty) (p2 : ty) (e2 : option ty) : bool :=
    match e1, e2 with
    | Some _, None => rec a p2
    | _, _ =>
        if negb (rec p1 p2) then false
        else match e1, e2 with
             | Some x, Some y => rec x y
             | _, _ => true
             end
    end.

  (* _handle_generic_types *)
  Definition handle_generic (a b : ty) : option bool :=
    match annot_parts a, annot_parts b with
    | Some (p1, e1), Some (p2, e2) => Some (compare_annotated a b p1 e1 p2 e2)
    | Some (p1, _), None => Some (rec p1 b)             (* _compare_single_annotated_type *)
    | None, Some (p2, _) => Some (rec a p2)
    | None, None =>
        Some (if origins_compatible a b then compare_args (args_of a) (args_of b) else false)
    end.

  (* is_type_compatible, one level.  _resolve_type is the identity on this grammar (no forward references;
     string metadata are left alone). *)
  Definition step (a b : ty) : bool :=
    if is_var a then true
    else if check_identical_or_any a b then true
    else match handle_union a b with
         | Some r => r
         | None =>
             match typevar_compatible a b with
             | Some r => r
             | None =>
                 match handle_generic a b with
                 | Some r => r
                 | None => false
                 end
             end
         end.
End Step.

Definition compatF : nat -> ty -> ty -> bool := iterF step.
Definition compat (a b : ty) : bool := compatF (S (size a + size b)) a b.

(* ---------- the reference: declarative relation from the property text ---------- *)
Inductive sub : ty -> ty -> Prop :=
| S_refl a : sub a a
| S_any a : sub a TAny                                        (* anything is acceptable where Any is required *)
| S_noann_l b : sub TNoAnn b                                  (* a missing annotation is compatible both ways *)
| S_noann_r a : sub a TNoAnn
| S_unres_l x b : sub (TUnres x) b                            (* an unresolvable hint is not compared *)
| S_unres_r a x : sub a (TUnres x)
| S_union_l l b : (forall a, In a l -> sub a b) -> sub (TUnion l) b      (* union source: all members *)
| S_union_r a l t : In t l -> sub a t -> sub a (TUnion l)                  (* union target: some member *)
| S_cls c d : cls_le c d = true -> sub (TCls c) (TCls d)
| S_gen o p a1 a2 : origin_le o p = true -> Forall2 sub a1 a2 -> sub (TGen o a1) (TGen p a2)
  (* Forall2: equal arity, pairwise covariant *)
| S_bare_bare o p : origin_le o p = true -> sub (TBare o) (TBare p)
| S_bare_gen o p a2 : origin_le o p = true -> sub (TBare o) (TGen p a2)   (* bare generic = unknown arguments *)
| S_gen_bare o p a1 : origin_le o p = true -> sub (TGen o a1) (TBare p)
| S_annot_l t m b : sub t b -> sub (TAnnot t m) b                          (* Annotated is transparent *)
| S_annot_r a t m : sub a t -> sub a (TAnnot t m)
| S_array e1 e2 : sub e1 e2 -> sub (TArray e1) (TArray e2)                 (* Array[T] covariant *)
| S_array_gen e p a2 : sub nd_obj (TGen p a2) -> sub (TArray e) (TGen p a2)   (* an Array is an ndarray of objects *)
| S_array_bare e p : origin_le ONdarray p = true -> sub (TArray e) (TBare p)
| S_gen_array o a1 e : sub (TGen o a1) nd_obj -> sub (TGen o a1) (TArray e)  (* ndarray of objects, element type unknown *)
| S_bare_array o e : origin_le o ONdarray = true -> sub (TBare o) (TArray e)
| S_var_r_free a n : sub a (TVar n None [])                               (* unconstrained TypeVar target *)
| S_var_r_bound a n bd cs : sub a bd -> sub a (TVar n (Some bd) cs)        (* target: what the bound accepts *)
| S_var_r_constr a n bd cs c : In c cs -> sub a c -> sub a (TVar n bd cs)  (* target: what a constraint accepts *)
| S_var_l_bound n bd cs b : sub bd b -> sub (TVar n (Some bd) cs) b        (* a TypeVar source is its bound *)
| S_var_l_constr n c cs b : (forall x, In x (c :: cs) -> sub x b) -> sub (TVar n None (c :: cs)) b.
