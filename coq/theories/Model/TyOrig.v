(* C16 - the dispatch of pipefunc/typing.py BEFORE the repairs made for this property (pipefunc commit 8bc6eee),
   kept only to state the defects as machine-checked `_refuted` witnesses (Proofs/TyOrigFacts.v, Props/C16.v).
   It differs from Model/Ty.v in exactly the repaired places:
     R1 _compare_generic_type_args zips the arguments (no arity check);
     R2 a required Annotated is compared in the reversed direction;
     R3 _resolve_type evaluates string metadata of Annotated as forward references (exception);
     R4 an Annotated[Union[...]] source is not split; union/union pairs each member with one member;
     R5 _compare_annotated_types drops the element type of an incoming Array against a plain Annotated;
     R6 _is_typevar_compatible returns None for a constrained TypeVar without match and runs before the union handler.
   This file was compared with the unrepaired code during development (183543 pairs of the thorough generator,
   0 disagreements: `VERIF_REPO=<checkout of 8bc6eee> ./check C16ORIG`, harness/props/c16orig.py); it is not part
   of the per-run check, which runs the repaired code. *)
From Verif Require Import Base.Prelude Model.Ty.

Fixpoint allM {A} (f : A -> result bool) (l : list A) : result bool :=      (* all(f(x) for x in l) *)
  match l with
  | [] => Ok true
  | x :: t => do b <- f x; if b then allM f t else Ok false
  end.
Fixpoint anyM {A} (f : A -> result bool) (l : list A) : result bool :=      (* any(f(x) for x in l) *)
  match l with
  | [] => Ok false
  | x :: t => do b <- f x; if b then Ok true else anyM f t
  end.
Fixpoint zipM (f : ty -> ty -> result bool) (l1 l2 : list ty) : result bool :=   (* all(f(x, y) for x, y in zip) *)
  match l1, l2 with
  | x :: r1, y :: r2 => do b <- f x y; if b then zipM f r1 r2 else Ok false
  | _, _ => Ok true
  end.

Definition is_mstr (m : meta) : bool := match m with MStr _ => true | MInt _ => false end.

(* _resolve_type raises (NameError / SyntaxError) on a string in the metadata of an Annotated it reaches; it
   recurses through the arguments of unions, generics and Annotated, not into TypeVars *)
Fixpoint resolve_fails (t : ty) : bool :=
  match t with
  | TUnion l => existsb resolve_fails l
  | TGen _ l => existsb resolve_fails l
  | TAnnot p m => existsb is_mstr m || resolve_fails p
  | TArray e => resolve_fails e
  | _ => false
  end.

Section StepOrig.
  Variable rec : ty -> ty -> result bool.

  Definition typevar_compatible_orig (a b : ty) : result (option bool) :=
    match b with
    | TVar _ bound cs =>
        if is_nil cs && match bound with None => true | Some _ => false end then Ok (Some true)
        else
          do hit <- (if is_nil cs then Ok false else anyM (fun c => rec a c) cs);
          if hit then Ok (Some true)
          else match bound with
               | Some bd => do r <- rec a bd; Ok (Some r)
               | None => Ok None                       (* `None and ...` *)
               end
    | _ => Ok None
    end.

  Definition handle_union_orig (a b : ty) : result (option bool) :=
    match a, b with
    | TUnion la, TUnion lb => do r <- allM (fun t1 => anyM (fun t2 => rec t1 t2) lb) la; Ok (Some r)
    | TUnion la, _ => do r <- allM (fun t => rec t b) la; Ok (Some r)
    | _, TUnion lb => do r <- anyM (fun t => rec a t) lb; Ok (Some r)
    | _, _ => Ok None
    end.

  Definition compare_args_orig (inc req : list ty) : result bool :=
    if is_nil req || is_nil inc then Ok true else zipM rec inc req.

  Definition compare_annotated_orig (p1 : ty) (e1 : option ty) (p2 : ty) (e2 : option ty) : result bool :=
    do r <- rec p1 p2;
    if negb r then Ok false
    else match e1, e2 with
         | Some x, Some y => rec x y
         | _, _ => Ok true
         end.

  Definition handle_generic_orig (a b : ty) : result (option bool) :=
    match annot_parts a, annot_parts b with
    | Some (p1, e1), Some (p2, e2) => do r <- compare_annotated_orig p1 e1 p2 e2; Ok (Some r)
    | Some (p1, _), None => do r <- rec p1 b; Ok (Some r)
    | None, Some (p2, _) => do r <- rec p2 a; Ok (Some r)          (* reversed *)
    | None, None =>
        if origins_compatible a b then do r <- compare_args_orig (args_of a) (args_of b); Ok (Some r)
        else Ok (Some false)
    end.

  Definition step_orig (a b : ty) : result bool :=
    if resolve_fails a || resolve_fails b then Err OtherError
    else if is_var a then Ok true
    else if check_identical_or_any a b then Ok true
    else
      do tv <- typevar_compatible_orig a b;
      match tv with
      | Some r => Ok r
      | None =>
          do u <- handle_union_orig a b;
          match u with
          | Some r => Ok r
          | None =>
              do g <- handle_generic_orig a b;
              match g with Some r => Ok r | None => Ok false end
          end
      end.
End StepOrig.

Fixpoint compat_origF (fuel : nat) : ty -> ty -> result bool :=
  match fuel with
  | 0 => fun _ _ => Err RuntimeError              (* not reached: fuel = S (size a + size b) *)
  | S n => step_orig (compat_origF n)
  end.
(* every call decreases the total size; twice the size is ample *)
Definition compat_orig (a b : ty) : result bool := compat_origF (S (2 * (size a + size b))) a b.
