(* C16 - model of validate_consistent_type_annotations (pipefunc/_pipeline/_validation.py) with its helpers
   _axis_is_reduced, _mapspec_is_generated, _mapspec_with_internal_shape, is_object_array_type, over pipelines of
   single-output functions whose annotations come from the grammar of Model/Ty.v.
   parameter_annotations / output_annotation (pipefunc/_pipefunc.py) are modelled by the record fields:
   a parameter without annotation is absent from the dict (None), a missing return annotation is NoAnnotation. *)
From Verif Require Import Base.Prelude Model.Ty.

Definition araw := (str * list (option str))%type.            (* ArraySpec: name, axes (None = ':') *)
Record mspec := { ms_in : list araw; ms_out : list araw }.    (* user-written MapSpec *)

Record pfunc := {
  f_out : str;                              (* output_name (the harness uses it as function name too) *)
  f_ret : ty;                               (* output_annotation[f_out]; TNoAnn when not annotated *)
  f_params : list (str * option ty);        (* signature order; None = no annotation *)
  f_ms : option mspec
}.

Definition names (l : list araw) : list str := map fst l.

Fixpoint find_spec (p : str) (l : list araw) : option (list (option str)) :=     (* next(s.axes for s in .. if s.name == p) *)
  match l with
  | [] => None
  | (n, ax) :: t => if str_eqb n p then Some ax else find_spec p t
  end.

Definition is_none_ax (a : option str) : bool := match a with None => true | Some _ => false end.

Fixpoint somes_ax (l : list (option str)) : list str :=
  match l with [] => [] | Some x :: t => x :: somes_ax t | None :: t => somes_ax t end.

(* _axis_is_reduced *)
Definition axis_is_reduced (f g : pfunc) (p : str) : bool :=
  let out_names := match f_ms f with Some m => names (ms_out m) | None => [] end in
  let in_names := match f_ms g with Some m => names (ms_in m) | None => [] end in
  let in_axes := match f_ms g with Some m => find_spec p (ms_in m) | None => None end in
  mem_str p out_names
  && (negb (mem_str p in_names)
      || match in_axes with Some ax => existsb is_none_ax ax | None => false end).

(* _mapspec_with_internal_shape *)
Definition mapspec_with_internal_shape (f : pfunc) (p : str) : bool :=
  match f_ms f with
  | None => false
  | Some m =>
      match find_spec p (ms_out m) with
      | None => false
      | Some ax =>
          let input_indices := flat_map (fun a => somes_ax (snd a)) (ms_in m) in
          negb (forallb (fun i => mem_str i input_indices) (somes_ax ax))
      end
  end.

(* is_object_array_type *)
Fixpoint is_object_array_type (t : ty) : bool :=
  match t with
  | TGen ONdarray [TAny; TGen ODtype [TCls CObj]] => true    (* get_args(tp) == (Any, np.dtype[np.object_]) *)
  | TAnnot p _ => is_object_array_type p
  | TArray _ => true
  | _ => false
  end.

(* Pipeline._autogen_mapspec_axes gives a producer without MapSpec a generated one when a consumer's MapSpec
   indexes its output; _mapspec_is_generated then skips the check, depending on the order in which the functions
   were added.  Such pipelines are outside the modelled fragment ("user-written MapSpecs"). *)
Definition no_autogen (fs : list pfunc) : bool :=
  forallb (fun g =>
    match f_ms g with
    | None => true
    | Some m =>
        forallb (fun p => forallb (fun f => negb (str_eqb (f_out f) p) || match f_ms f with Some _ => true | None => false end) fs)
                (names (ms_in m))
    end) fs.

(* the type is_type_compatible is called with for one edge; None = edge skipped *)
Definition edge_types (f g : pfunc) (p : str) (input_type : ty) : option (ty * ty) :=
  if mapspec_with_internal_shape f p then None
  else
    let out := f_ret f in
    let out' := if axis_is_reduced f g p && negb (is_object_array_type out) && negb (is_unres out) && negb (is_noann out)
                then TArray out else out in
    Some (out', input_type).

Definition edge_ok (f g : pfunc) (p : str) (input_type : ty) : bool :=
  match edge_types f g p input_type with
  | None => true
  | Some (o, i) => compat o i
  end.

(* validate_consistent_type_annotations: for node in graph, for dep in successors, for annotated parameters of dep
   that are outputs of node *)
Definition validate_types (fs : list pfunc) : result unit :=
  if forallb (fun f =>
       forallb (fun g =>
         forallb (fun pa => match snd pa with
                            | None => true
                            | Some t => if str_eqb (fst pa) (f_out f) then edge_ok f g (fst pa) t else true
                            end) (f_params g)) fs) fs
  then Ok tt else Err TypeError.

(* Pipeline(fs, validate_type_annotations=v): the pipeline is re-validated after every add; a type error of an
   edge is raised as soon as both ends are present, so the outcome is the one of the complete list *)
Definition construct (fs : list pfunc) (v : bool) : result unit :=
  if v then validate_types fs else Ok tt.
