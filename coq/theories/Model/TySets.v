(* C16 - a set-theoretic reading of the annotations, to validate the reference relation `sub` (Model/Ty.v) on the
   static fragment: classes, Any, unions, parametrised list/set/tuple/dict/OrderedDict, Annotated, Array[T].
   Excluded: the "unknown" forms (missing annotation, Unresolvable, bare generics, ndarray[...] whose element type
   is unknown) -- they are compatible BOTH ways by the property text, which no assignment of sets can express --
   and TypeVars. *)
From Verif Require Import Base.Prelude Model.Ty.

Inductive value :=
| VInt (z : Z) | VBool (b : bool) | VFloat (z : Z) | VStr (x : str) | VBytes (x : str) | VNone | VObjS
| VCont (o : origin) (rows : list (list value))
  (* an instance of the generic class o; its items as rows over the type parameters: a list/set has one
     single-column row per element, a dict one (key, value) row per item, a tuple exactly one row *)
| VArr (elems : list value).                       (* numpy array of objects *)

Definition den_cls (c : cls) (v : value) : Prop :=
  match c, v with
  | CInt, VInt _ | CInt, VBool _ | CBool, VBool _ | CFloat, VFloat _ | CStr, VStr _ | CBytes, VBytes _
  | CNone, VNone | CObj, VObjS => True
  | _, _ => False
  end.

Fixpoint den (t : ty) (v : value) : Prop :=
  match t with
  | TCls c => den_cls c v
  | TAny => True
  | TUnion l => (fix ex (l : list ty) : Prop := match l with [] => False | x :: r => den x v \/ ex r end) l
  | TGen o args =>
      match v with
      | VCont o' rows =>
          origin_le o' o = true
          /\ forall row, In row rows ->
               (fix go (ts : list ty) (r : list value) : Prop :=
                  match ts, r with
                  | [], [] => True
                  | a :: ts', x :: r' => den a x /\ go ts' r'
                  | _, _ => False
                  end) args row
      | _ => False
      end
  | TAnnot p _ => den p v
  | TArray e => match v with VArr elems => forall x, In x elems -> den e x | _ => False end
  | _ => False
  end.

Fixpoint static (t : ty) : bool :=
  match t with
  | TCls _ | TAny => true
  | TUnion l => forallb static l
  | TGen o l => negb (origin_eqb o ONdarray) && negb (origin_eqb o ODtype) && forallb static l
  | TAnnot p _ => static p
  | TArray e => static e
  | _ => false
  end.
