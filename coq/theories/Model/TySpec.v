(* C16 - executable reference, written from the property text (NOT from the code):
   * subb : a decision procedure for the declarative relation Ty.sub (Proofs/TyFacts.v: subb a b = true <-> sub a b).
     It decomposes the SOURCE first (union = all members, Annotated = its primary type, TypeVar = its bound /
     all its constraints), then the TARGET (union = some member, Annotated = its primary type, TypeVar = bound
     or some constraint), then compares the heads (class lattice, generic origin + arguments pairwise of equal
     arity, bare generic = unknown arguments, Array[T] covariant in T and an ndarray of objects otherwise).
   * the pipeline-level statement: which edges a pipeline has, with which effective source type. *)
From Verif Require Import Base.Prelude Model.Ty Model.TyPipe.

Section SStep.
  Variable rec : ty -> ty -> bool.

  Definition head_sub (a b : ty) : bool :=
    match a, b with
    | TCls c, TCls d => cls_le c d
    | TBare o, TBare p | TBare o, TGen p _ | TGen o _, TBare p => origin_le o p
    | TGen o a1, TGen p a2 => origin_le o p && (length a1 =? length a2) && forallb2 rec a1 a2
    | TArray e1, TArray e2 => rec e1 e2
    | TArray _, TGen _ _ => rec nd_obj b
    | TArray _, TBare p => origin_le ONdarray p
    | TGen _ _, TArray _ => rec a nd_obj
    | TBare o, TArray _ => origin_le o ONdarray
    | _, _ => false
    end.

  Definition target_sub (a b : ty) : bool :=      (* a is not decomposable any further *)
    match b with
    | TUnion l => existsb (fun y => rec a y) l
    | TAnnot t _ => rec a t
    | TVar _ None [] => true
    | TVar _ bd cs => match bd with Some x => rec a x | None => false end || existsb (fun y => rec a y) cs
    | _ => head_sub a b
    end.

  Definition sstep (a b : ty) : bool :=
    match b with
    | TAny | TNoAnn | TUnres _ => true
    | _ =>
        match a with
        | TNoAnn | TUnres _ => true
        | TUnion l => forallb (fun x => rec x b) l
        | TAnnot t _ => rec t b
        | TVar _ (Some bd) _ => rec bd b
        | TVar _ None (c :: cs) => forallb (fun x => rec x b) (c :: cs)
        | _ => target_sub a b
        end
    end.
End SStep.

Definition subb (a b : ty) : bool := iterF sstep (S (size a + size b)) a b.

(* ---------- side conditions used in the theorems ---------- *)
Definition is_annot_like (t : ty) : bool := match t with TAnnot _ _ | TArray _ => true | _ => false end.

(* the normal form typing produces: unions and argument lists are not empty, Annotated is not nested directly
   in Annotated / around Array (typing flattens Annotated[Annotated[t, m], n]) *)
Fixpoint wf (t : ty) : bool :=
  match t with
  | TUnion l => negb (is_nil l) && forallb wf l
  | TGen _ l => negb (is_nil l) && forallb wf l
  | TAnnot p _ => negb (is_annot_like p) && wf p
  | TArray e => wf e
  | TVar _ bd cs => match bd with Some x => wf x | None => true end && forallb wf cs
  | _ => true
  end.

(* no TypeVar anywhere *)
Fixpoint notv (t : ty) : bool :=
  match t with
  | TVar _ _ _ => false
  | TUnion l => forallb notv l
  | TGen _ l => forallb notv l
  | TAnnot p _ => notv p
  | TArray e => notv e
  | _ => true
  end.

(* TypeVars of a source read as "unknown" (like a missing annotation): what the code does with them *)
Fixpoint vars_unknown (t : ty) : ty :=
  match t with
  | TVar _ _ _ => TNoAnn
  | TUnion l => TUnion (map vars_unknown l)
  | TGen o l => TGen o (map vars_unknown l)
  | TAnnot p m => TAnnot (vars_unknown p) m
  | TArray e => TArray (vars_unknown e)
  | _ => t
  end.

Definition is_top (t : ty) : bool := is_any t || is_noann t || is_unres t.
(* a source that the reference does not decompose *)
Definition atomic (a : ty) : bool :=
  match a with
  | TCls _ | TAny | TGen _ _ | TBare _ | TArray _ | TVar _ None [] => true
  | _ => false
  end.

(* ---------- pipelines ---------- *)
(* An edge: output `p` of f is a parameter of g annotated with t.
   - f declares an output axis that none of its inputs has (internal shape): what flows is not described by the
     annotations; the property makes no statement -> no edge;
   - reduction: f maps over p (p is an output of f's MapSpec) and g takes the whole array: g has no MapSpec, or
     its MapSpec does not index p, or indexes it with a ':' axis -> the source counts as Array[ret f];
   - otherwise (no MapSpec at all, or element-wise) the source is ret f. *)
Definition declares (l : list araw) (p : str) : option (list (option str)) := find_spec p l.

Definition has_internal_axis (f : pfunc) (p : str) : bool :=
  match f_ms f with
  | Some m =>
      match declares (ms_out m) p with
      | Some ax =>
          existsb (fun i => negb (existsb (fun a => mem_str i (somes_ax (snd a))) (ms_in m))) (somes_ax ax)
      | None => false
      end
  | None => false
  end.

Definition mapped_output (f : pfunc) (p : str) : bool :=
  match f_ms f with
  | Some m => match declares (ms_out m) p with Some _ => true | None => false end
  | None => false
  end.

Definition takes_whole (g : pfunc) (p : str) : bool :=
  match f_ms g with
  | None => true
  | Some m => match declares (ms_in m) p with
              | None => true
              | Some ax => existsb is_none_ax ax
              end
  end.

Definition spec_edges (fs : list pfunc) : list (ty * ty) :=
  flat_map (fun f =>
    flat_map (fun g =>
      flat_map (fun pa =>
        match snd pa with
        | Some t =>
            if str_eqb (fst pa) (f_out f) && negb (has_internal_axis f (fst pa)) then
              [(if mapped_output f (fst pa) && takes_whole g (fst pa) && negb (is_noann (f_ret f) || is_unres (f_ret f))
                then TArray (f_ret f) else f_ret f, t)]     (* a missing / unresolvable return annotation stays unknown *)
            else []
        | None => []
        end) (f_params g)) fs) fs.

(* what the property demands of the outcome `accepted` (true) / TypeError (false) of Pipeline(fs, validate=v) *)
Definition pipe_ok (fs : list pfunc) (v : bool) (accepted : bool) : bool :=
  if negb v then accepted                                            (* nothing is rejected when validation is off *)
  else if forallb (fun e => subb (fst e) (snd e)) (spec_edges fs) then accepted   (* every edge compatible: never rejected *)
  else negb accepted.                                                (* an incompatible edge: rejected *)

(* ---------- side conditions of the pipeline theorems ---------- *)
Definition fn_wf (f : pfunc) : bool :=
  wf (f_ret f) && forallb (fun pa => match snd pa with Some t => wf t | None => true end) (f_params f).

Definition pipe_guard (fs : list pfunc) : bool :=
  forallb fn_wf fs                                   (* annotations in the normal form typing builds *)
  && forallb (fun f => notv (f_ret f)) fs           (* outside known finding typevar-source-accepted *)
  && forallb (fun f => match f_ms f with            (* outside known finding reduced-array-output-not-wrapped *)
                       | Some _ => negb (is_object_array_type (f_ret f))
                       | None => true
                       end) fs.

(* the part of the guard needed for "every edge compatible => accepted" (TypeVars allowed) *)
Definition pipe_guard_accept (fs : list pfunc) : bool :=
  forallb fn_wf fs
  && forallb (fun f => match f_ms f with
                       | Some _ => negb (is_object_array_type (f_ret f))
                       | None => true
                       end) fs.
